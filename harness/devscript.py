"""Build DSL scripts from device-operation sequences, transpile + compile + run them, split traces per operation."""
from __future__ import annotations

import struct

import common
import cxx


def f32r(x: float) -> float:
    """round to the nearest C float"""
    return struct.unpack(">f", struct.pack(">f", float(x)))[0]


def tok32(v) -> str:
    if isinstance(v, bool):
        return "i1" if v else "i0"
    if isinstance(v, int):
        return f"i{v}"
    return common.f32(v)


class Arg:
    """a call argument: value + how it is written (literal or routed through a run-time variable)"""
    __slots__ = ("v", "var")

    def __init__(self, v, var=False):
        self.v = v
        self.var = var

    def tok(self):
        return tok32(self.v)


class ScriptBuilder:
    def __init__(self, imports):
        self.head = list(imports)
        self.vars = []
        self.body = []
        self.nvars = 0

    def a(self, arg: Arg) -> str:
        if arg.var:
            name = f"rv{self.nvars}"
            self.nvars += 1
            self.vars.append(f"{name} = {arg.v!r}")
            return name
        return repr(arg.v)

    def line(self, s):
        self.body.append(s)

    def marker(self):
        self.body.append('mon.write("#")')

    def source(self, decls):
        return "\n".join(self.head + ["mon = SerialMonitor(9600)"] + self.vars + decls + self.body) + "\n"


MARK = "println x23"


def split_ops(trace, start_after="== setup"):
    """segments of the trace between '#' markers, after the first marker (which closes the declarations)"""
    segs, cur, on = [], [], False
    for l in trace:
        if l == MARK:
            segs.append(cur)
            cur = []
        else:
            cur.append(l)
    return segs


def transpile_and_run(ctx, sources, passes=0, inputs="", san=False):
    """sources: list[str] -> list of (cpp, exc, Result|None)"""
    outs = [cxx.transpile(s) for s in sources]
    jobs = [(cpp, passes, inputs) for cpp, e in outs if cpp is not None]
    res = iter(cxx.run_many(ctx, jobs, san=san))
    return [(cpp, e, next(res) if cpp is not None else None) for cpp, e in outs]


def transpile_and_run_passes(ctx, items, san=False):
    """items: list of (source, passes) -> list of (cpp, exc, Result|None)"""
    outs = [cxx.transpile(s) for s, _ in items]
    jobs = [(cpp, items[i][1], "") for i, (cpp, e) in enumerate(outs) if cpp is not None]
    res = iter(cxx.run_many(ctx, jobs, san=san))
    return [(cpp, e, next(res) if cpp is not None else None) for cpp, e in outs]
