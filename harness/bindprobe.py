"""Call-shape enumeration for C08: every constructor / method / Core helper, every positional-keyword split, keyword
order and subset of omitted defaults accepted by inspect.signature of the host callable; black-box observation of
what the transpiler does with each shape (emitted C++ text)."""
from __future__ import annotations

import importlib
import inspect
import itertools

HEAD = ("from Reduino.Actuators import Led, RGBLed, Servo, DCMotor, Buzzer\nfrom Reduino.Sensors import Button, Potentiometer, Ultrasonic\n"
        "from Reduino.Displays import LCD\nfrom Reduino.Communication import SerialMonitor\nfrom Reduino.Utils import sleep\n"
        "from Reduino.Core import pin_mode, digital_write, analog_write, digital_read, analog_read, OUTPUT, INPUT, HIGH, LOW\n"
        "mon = SerialMonitor(9600)\ndef cb():\n    mon.write(\"c\")\n")

# two distinct sample literals per parameter name (both different from the default)
VALUES = {
    "align": ['"center"', '"right"'], "top_align": ['"center"', '"right"'], "bottom_align": ['"right"', '"center"'],
    "style": ['"hash"', '"dot"'], "animation": ['"blink"', '"bounce"'],
    "text": ['"abc"', '"xyz"'], "top": ['"T1"', '"T2"'], "bottom": ['"B1"', '"B2"'], "label": ['"L1"', '"L2"'],
    "name": ['"success"', '"alarm"'], "clear_row": ["False", "True"], "clear_rows": ["False", "True"], "loop": ["True", "False"], "on": ["False", "True"],
    "pattern": ["[1, 0, 1]", "[0, 1, 128]"], "bitmap": ["[1, 2, 3, 4, 5, 6, 7, 8]", "[8, 7, 6, 5, 4, 3, 2, 1]"],
    "on_click": ["cb", "None"], "sensor": ['"HC-SR04"', '"XX-99"'], "model": ['"HC-SR04"', '"XX-99"'],
    "mode": ["OUTPUT", "INPUT"], "speed": ["0.25", "0.75"], "value": ["0.5", "0.125"], "target_speed": ["0.25", "0.75"],
    "min_angle": ["10.0", "20.0"], "max_angle": ["170.0", "160.0"], "min_pulse_us": ["600", "700"], "max_pulse_us": ["2300", "2200"],
    "i2c_addr": ["0x27", "0x3F"], "baud_rate": ["115200", "57600"], "default_frequency": ["880.0", "660.0"],
}
_counter = itertools.count(21)
_NUM = {}


def values_for(cls, meth, p):
    if (cls, p) == ("Led", "value"):
        return ["77", "133"]
    if (cls, meth, p) in (("Core", "digital_write", "value"), ("Core", "analog_write", "value")):
        return ["1", "0"] if meth == "digital_write" else ["77", "133"]
    if (cls, p) == ("SerialMonitor", "value"):
        return ["77", "133"]
    if p in VALUES:
        if (cls, meth, p) == ("Potentiometer", "__init__", "pin"):
            return ['"A1"', '"A2"']
        return VALUES[p]
    if (cls, p) == ("Potentiometer", "pin"):
        return ['"A1"', '"A2"']
    if (cls, meth) == ("LCD", "__init__") and p == "rows":
        return ["4", "2"]
    key = (cls, meth, p)
    if key not in _NUM:
        a = next(_counter)
        _NUM[key] = [str(a), str(a + 40)]
    return _NUM[key]


# parameters that only matter when another one is given (LCD.message aligns/clears only the lines it prints)
RELEVANT_IF = {("LCD", "message", "top_align"): ["top"], ("LCD", "message", "bottom_align"): ["bottom"], ("LCD", "message", "clear_rows"): ["top", "bottom"]}

# parameters that do not matter once another one is given (Ultrasonic: `model` is only an alias used when `sensor` is absent)
IRRELEVANT_IF = {("Ultrasonic", "__init__", "model"): ["sensor"]}

CTOR = {"Led": "Led(13)", "RGBLed": "RGBLed(9, 10, 11)", "Servo": "Servo(9)", "DCMotor": "DCMotor(2, 3, 4)", "Buzzer": "Buzzer(8)",
        "Button": "Button(7)", "Potentiometer": "Potentiometer(\"A0\")", "Ultrasonic": "Ultrasonic(5, 6)",
        "LCD": "LCD(rs=12, en=11, d4=5, d5=4, d6=3, d7=2, cols=16, rows=2, backlight_pin=6)", "SerialMonitor": "SerialMonitor(9600)"}

SKIP_PARAMS = {("SerialMonitor", "__init__"): {"port", "timeout", "newline"}, ("Button", "__init__"): {"state_provider"},
               ("Potentiometer", "__init__"): {"value_provider"}, ("Ultrasonic", "__init__"): {"distance_provider", "default_distance"},
               ("LCD", "__init__"): {"i2c_addr"}}
SKIP_METHODS = {"set_pressed", "begin", "tick", "dump", "connect", "close", "read", "get_color", "pins"}


def callables():
    """[(cls, method, [params]) ...] with params = (name, kind, has_default)"""
    A = importlib.import_module("Reduino.Actuators")
    S = importlib.import_module("Reduino.Sensors")
    D = importlib.import_module("Reduino.Displays.LCD")
    Cm = importlib.import_module("Reduino.Communication")
    core = importlib.import_module("Reduino.Core")
    out = []
    classes = {"Led": A.Led, "RGBLed": A.RGBLed, "Servo": A.Servo, "DCMotor": A.DCMotor, "Buzzer": A.Buzzer, "Button": S.Button,
               "Potentiometer": S.Potentiometer, "LCD": D.LCD, "SerialMonitor": Cm.SerialMonitor}
    for cname, cls in classes.items():
        for mname, fn in inspect.getmembers(cls, predicate=inspect.isfunction):
            if mname.startswith("_") and mname != "__init__":
                continue
            if mname in SKIP_METHODS or mname.startswith(("get_", "is_", "read")):
                continue
            sig = inspect.signature(fn)
            ps = [(p.name, "kwonly" if p.kind is p.KEYWORD_ONLY else "pos", p.default is not p.empty)
                  for p in list(sig.parameters.values())[1:] if p.name not in SKIP_PARAMS.get((cname, mname), set())]
            if ps:
                out.append((cname, mname, ps))
    sig = inspect.signature(S.Ultrasonic)
    out.append(("Ultrasonic", "__init__", [(p.name, "kwonly" if p.kind is p.KEYWORD_ONLY else "pos", p.default is not p.empty)
                                           for p in sig.parameters.values() if p.name not in SKIP_PARAMS[("Ultrasonic", "__init__")]]))
    for fname in ("pin_mode", "digital_write", "analog_write", "digital_read", "analog_read"):
        sig = inspect.signature(getattr(core, fname))
        out.append(("Core", fname, [(p.name, "pos", p.default is not p.empty) for p in sig.parameters.values()]))
    return out


def shapes(params, rng, max_perm=3):
    """all (subset S, npos, keyword order) accepted by Python"""
    req = [p for p in params if not p[2]]
    opt = [p for p in params if p[2]]
    pos_params = [p for p in params if p[1] == "pos"]
    out = []
    for r in range(len(opt) + 1):
        for sub in itertools.combinations(opt, r):
            S = [p for p in params if p in req or p in sub]
            names = [p[0] for p in S]
            # positional prefix: first k positional-or-keyword parameters, all of which must be provided
            maxk = 0
            for p in pos_params:
                if p in S:
                    maxk += 1
                else:
                    break
            for k in range(maxk + 1):
                kw = [p[0] for p in S if p not in pos_params[:k]]
                orders = [kw]
                if len(kw) > 1:
                    orders.append(list(reversed(kw)))
                    for _ in range(max_perm - 2):
                        o = kw[:]
                        rng.shuffle(o)
                        if o not in orders:
                            orders.append(o)
                for o in orders:
                    out.append((tuple(names), k, tuple(o)))
    return out


# spellings of one and the same argument list: (text around `=` of a keyword argument, separator, padding inside the parentheses, trailing comma).
# Python's grammar binds all of them identically; the first is the canonical one used everywhere else.
STYLES = [("=", ", ", "", False), (" = ", ", ", "", False), (" =", ", ", "", False), ("= ", ", ", "", False), ("  =  ", ",  ", " ", False),
          ("=", ",", "", False), ("=", " , ", " ", False), ("\t=\t", ",\t", "", False), ("=", ", ", "", True), (" = ", " ,", "  ", True)]


def call_text(cls, meth, params, shape, vals, style=None):
    names, k, order = shape
    eq, sep, padding, trailing = style or STYLES[0]
    pos_params = [p[0] for p in params if p[1] == "pos"]
    args = [vals[n] for n in pos_params[:k]] + [f"{n}{eq}{vals[n]}" for n in order]
    arglist = sep.join(args)
    if args:
        arglist = padding + arglist + ("," if trailing else "") + padding
    if cls == "Core":
        inner = f"{meth}({arglist})"
        return HEAD + (f"mon.write({inner})\n" if meth.endswith("_read") else inner + "\n")
    if meth == "__init__":
        head = HEAD
        if cls == "SerialMonitor":
            head = HEAD.replace("mon = SerialMonitor(9600)\n", "", 1).replace("    mon.write(\"c\")\n", "    x = 1\n")
        return head + f"d = {cls}({arglist})\n" + USE.get(cls, "")
    return HEAD + f"d = {CTOR[cls]}\n" + f"d.{meth}({arglist})\n"


USE = {"Servo": "d.write(90)\n", "Buzzer": "d.play_tone(440)\n", "Ultrasonic": "mon.write(d.measure_distance())\n", "Potentiometer": "mon.write(d.read())\n",
       "Button": "while True:\n    mon.write(d.is_pressed())\n", "Led": "d.on()\n", "RGBLed": "d.on(1, 2, 3)\n", "DCMotor": "d.set_speed(0.5)\n", "LCD": "d.line(0, \"x\")\n",
       "SerialMonitor": "d.write(1)\n"}
