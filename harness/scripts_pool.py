"""A pool of feature scripts exercising the documented DSL surface (shared by C05, C06, C10, C11, C14)."""
HEADER = "from Reduino import target\nfrom Reduino.Actuators import Led, RGBLed, Servo, DCMotor, Buzzer\nfrom Reduino.Sensors import Button, Potentiometer, Ultrasonic\n" \
         "from Reduino.Displays import LCD\nfrom Reduino.Communication import SerialMonitor\nfrom Reduino.Utils import sleep\nfrom Reduino.Core import pin_mode, digital_write, analog_write, digital_read, analog_read, OUTPUT, INPUT, HIGH, LOW\n"

FEATURES = {
    "blink": "led = Led(13)\nwhile True:\n    led.toggle()\n    sleep(500)\n",
    "promote-if": "mon = SerialMonitor(9600)\nc = 1\nif c > 0:\n    alpha = 1\n    beta = 2\n    gama = 3\n    delta = 4\nelse:\n    beta = 7\n    omega = 9\nmon.write(alpha + beta + gama + delta)\n",
    "promote-else": "mon = SerialMonitor(9600)\nc = 1\nif c > 5:\n    first = 1\nelif c > 3:\n    second = 2\n    quebec = 4\nelse:\n    zulu = 1\n    kilo = 2\n    alpha = 3\n    mike = 4\n    hotel = 5\nmon.write(c)\n",
    "promote-else-fn": "mon = SerialMonitor(9600)\ndef pick(c):\n    if c > 5:\n        first = 1\n    else:\n        zulu = 1\n        kilo = 2\n        alpha = 3\n        mike = 4\n    return c\nmon.write(pick(2))\n",
    "multi-ultrasonic": "mon = SerialMonitor(9600)\nzulu = Ultrasonic(2, 3)\nalpha = Ultrasonic(4, 5)\nmike = Ultrasonic(6, 7)\nkilo = Ultrasonic(8, 9)\nwhile True:\n    mon.write(zulu.measure_distance())\n    mon.write(alpha.measure_distance())\n    mon.write(mike.measure_distance())\n    mon.write(kilo.measure_distance())\n",
    "multi-buttons": "mon = SerialMonitor(9600)\ndef za():\n    mon.write(1)\ndef ab():\n    mon.write(2)\nzulu = Button(2, on_click=za)\nalpha = Button(3, on_click=ab)\nmike = Button(4)\nkilo = Button(5, on_click=za)\nwhile True:\n    mon.write(mike.is_pressed())\n",
    "multi-devices": "zulu = Led(2)\nalpha = Led(3)\nmike = Servo(4)\nkilo = Servo(5)\nhotel = DCMotor(6, 7, 8)\nbravo = DCMotor(9, 10, 11)\nwhile True:\n    zulu.toggle()\n    alpha.toggle()\n    mike.write(1)\n    kilo.write(2)\n    hotel.stop()\n    bravo.stop()\n",
    "promote-loop": "mon = SerialMonitor(9600)\nc = 1\nwhile True:\n    if c > 0:\n        u1 = 1\n        u2 = 2\n        u3 = 3\n    mon.write(u1 + u2 + u3)\n",
    "promote-while": "mon = SerialMonitor(9600)\nn = 0\nwhile n < 3:\n    n += 1\n    zeta = n * 2\n    eta = n + 1\n    theta = 5\nmon.write(n)\n",
    "promote-for": "mon = SerialMonitor(9600)\nfor i in range(3):\n    k1 = i\n    k2 = i * 2\n    k3 = 1\nmon.write(3)\n",
    "swap": "mon = SerialMonitor(9600)\na = 1\nb = 2\na, b = b, a\nwhile True:\n    a, b = b, a\n    mon.write(a)\n",
    "functions": "mon = SerialMonitor(9600)\ndef twice(v):\n    return v * 2\ndef pick(a, b):\n    if a > b:\n        return a\n    return b\nx = twice(4)\ny = pick(x, 3)\nz = twice(1.5)\nmon.write(x + y)\nmon.write(z)\n",
    "list-returning": "mon = SerialMonitor(9600)\ndef pick(k):\n    if k == 0:\n        return [1, 2, 3]\n    if k == 1:\n        return [True, False]\n    return [0.5, 1.5]\nv = pick(2)\nmon.write(len(v))\n",
    "lists": "mon = SerialMonitor(9600)\nxs = [3, 1, 2]\nys = [i * i for i in range(4)]\nxs.append(5)\nxs.remove(1)\nmon.write(len(xs) + ys[2])\nwhile True:\n    xs.append(7)\n    xs.remove(7)\n    mon.write(xs[0])\n",
    "strings": "mon = SerialMonitor(9600)\nname = \"dev\"\nn = 4\nmon.write(f\"{name}:{n}\")\nmon.write(\"a\" + str(n))\nmon.write(len(name))\n",
    "actuators": "led = Led(5)\nrgb = RGBLed(9, 10, 11)\ns = Servo(6)\nm = DCMotor(2, 3, 4)\nbz = Buzzer(8)\nled.set_brightness(100)\nrgb.set_color(1, 2, 3)\ns.write(90)\nm.set_speed(0.5)\nbz.beep(440, on_ms=10, off_ms=10, times=2)\nwhile True:\n    led.toggle()\n    m.invert()\n",
    "sensors": "mon = SerialMonitor(9600)\ndef hit():\n    mon.write(\"C\")\nbtn = Button(7, on_click=hit)\npot = Potentiometer(\"A0\")\nus = Ultrasonic(5, 6)\nwhile True:\n    if btn.is_pressed():\n        mon.write(pot.read())\n    d = us.measure_distance()\n    mon.write(d)\n",
    "lcd": "lcd = LCD(rs=12, en=11, d4=5, d5=4, d6=3, d7=2, cols=16, rows=2, backlight_pin=9)\nlcd2 = LCD(i2c_addr=0x27, cols=20, rows=4)\nlcd.line(0, \"hello\", align=\"center\")\nlcd2.write(1, 1, \"x\")\nlcd.progress(1, 5, 10, style=\"hash\")\nlcd.animate(\"scroll\", 0, \"marquee\", speed_ms=100, loop=True)\nwhile True:\n    lcd.brightness(100)\n",
    "core": "pin_mode(4, OUTPUT)\ndigital_write(4, HIGH)\nanalog_write(pin=5, value=128)\nmon = SerialMonitor(9600)\nwhile True:\n    mon.write(digital_read(7) + analog_read(\"A1\"))\n",
    "try": "mon = SerialMonitor(9600)\nx = 1\ntry:\n    x = 2\nexcept Exception:\n    x = 3\nmon.write(x)\n",
    "devices-in-loop": "while True:\n    led = Led(12)\n    s = Servo(9)\n    m = DCMotor(2, 3, 4)\n    led.on()\n    s.write(10)\n    m.stop()\n",
}


def all_scripts():
    return {k: HEADER + "target(\"COM3\")\n" + v for k, v in FEATURES.items()}
