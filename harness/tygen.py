"""Typed-program generator for C02: block-structured scripts over bool/int/float/str names.

Without a hazard every name only ever receives one inferred type and every expression is tame (so the model's TypeStable
holds by construction); a hazard injects exactly one known way of re-typing a name.
Builtin calls (`abs`, `min`, `max` of 2-3 arguments, `int()`, `float()`, `bool()`) occur in hazard-free programs only in their tame
shapes: `abs/min/max` over int- and bool-typed operands (never `min/max` of two bool-typed operands), the conversions over any
numeric operand.  Float operands to `abs/min/max` are the hazard `builtin-float-result` (K02e); `min/max` of two bools is the
hazard `minmax-two-bools` (outside the model's side condition, expected to agree end to end).
One abstract tree -> Python text, S-expression for the Lean model, flat list of written names."""
from __future__ import annotations

import struct

FLOATS = [0.5, 1.5, 2.25, 0.125, 3.0, 10.5, 0.75]
HAZARDS = ["retype-int-then-float", "retype-float-then-int", "retype-in-branch", "retype-in-loop", "retype-aug", "int-true-division", "and-or-value",
           "neg-bool", "stale-var-type", "branch-order", "loop-last-wins", "loop-last-wins-aug", "bool-aug", "copy-after-aug", "builtin-float-result", "sibling-branch-narrowing", "tuple-retype", "comprehension-shadow", "while-new-float", "minmax-two-bools"]


def f64hex(x: float) -> str:
    return struct.pack(">d", x).hex()


class TyGen:
    def __init__(self, rng, hazard=None, straight=False, builtins=False):
        self.r = rng
        self.hazard = hazard
        self.straight = straight
        self.builtins = builtins        # builtin-call stream: half of the compound expressions are builtin calls
        self.n = 0

    def kind(self, kinds, calls):
        if self.builtins and self.r.random() < 0.5:
            return self.r.choice(calls)
        return self.r.choice(kinds)

    def fresh(self, p):
        self.n += 1
        return f"{p}{self.n}"

    # ---- expressions; sc maps category -> list of definitely-assigned names
    def int_e(self, sc, d=2):
        r = self.r
        if d <= 0 or r.random() < 0.35:
            return ("v", r.choice(sc["int"])) if sc["int"] and r.random() < 0.6 else ("i", r.randint(0, 9))
        k = self.kind(["add", "sub", "mul", "neg", "ite", "boolarith", "boolsum", "abs", "minmax", "toint"], ["abs", "minmax", "toint"])
        if k == "abs":          # abs of an int- or bool-typed operand: the table's int is what Python and the macro yield
            return ("call", "abs", [self.int_e(sc, d - 1) if r.random() < 0.75 else self.bool_e(sc, d - 1)])
        if k == "minmax":       # 2-3 operands, int- or bool-typed, the first two never both bool-typed (the macro would be typed bool)
            args = [self.int_e(sc, d - 1), self.int_e(sc, d - 1) if r.random() < 0.6 else self.bool_e(sc, d - 1)]
            if r.random() < 0.5:
                args.reverse()
            if r.random() < 0.3:
                args.append(self.int_e(sc, d - 1) if r.random() < 0.6 else self.bool_e(sc, d - 1))
            return ("call", r.choice(["min", "max"]), args)
        if k == "toint":        # int() of any numeric operand (truncation toward zero on floats)
            return ("call", "int", [r.choice([self.float_e, self.float_e, self.int_e, self.bool_e])(sc, d - 1)])
        if k == "boolsum":      # bool + bool is an int in Python (counting votes) and in the parser's table
            return (r.choice(["add", "mul", "sub"]), self.bool_e(sc, d - 1), self.bool_e(sc, d - 1))
        if k in ("add", "sub", "mul"):
            return (k, self.int_e(sc, d - 1), self.int_e(sc, d - 1))
        if k == "neg":
            return ("neg", self.int_e(sc, d - 1))
        if k == "ite":
            return ("ite", self.bool_e(sc, d - 1), self.int_e(sc, d - 1), self.int_e(sc, d - 1))
        if sc["bool"]:
            return ("add", self.int_e(sc, d - 1), ("v", r.choice(sc["bool"])))       # int + bool is an int in both worlds
        return ("i", r.randint(0, 9))

    def float_e(self, sc, d=2):
        r = self.r
        if d <= 0 or r.random() < 0.35:
            return ("v", r.choice(sc["float"])) if sc["float"] and r.random() < 0.6 else ("f", r.choice(FLOATS))
        k = self.kind(["ff", "fi", "if", "div", "ite", "neg", "tofloat"], ["tofloat"])
        op = r.choice(["add", "sub", "mul"])
        if k == "tofloat":
            return ("call", "float", [r.choice([self.int_e, self.int_e, self.float_e, self.bool_e])(sc, d - 1)])
        if k == "ff":
            return (op, self.float_e(sc, d - 1), self.float_e(sc, d - 1))
        if k == "fi":
            return (op, self.float_e(sc, d - 1), self.int_e(sc, d - 1))
        if k == "if":
            return (op, self.int_e(sc, d - 1), self.float_e(sc, d - 1))
        if k == "div":
            return ("div", r.choice([self.float_e(sc, d - 1), self.int_e(sc, d - 1)]), ("f", r.choice([2.0, 4.0, 0.5])))
        if k == "ite":
            a, b = self.float_e(sc, d - 1), r.choice([self.float_e(sc, d - 1), self.int_e(sc, d - 1)])
            if r.random() < 0.5:
                a, b = b, a
            return ("ite", self.bool_e(sc, d - 1), a, b)
        return ("neg", self.float_e(sc, d - 1))

    def bool_e(self, sc, d=2):
        r = self.r
        if d <= 0 or r.random() < 0.3:
            if sc["bool"] and r.random() < 0.5:
                return ("v", r.choice(sc["bool"]))
            return (r.choice(["lt", "le", "eq"]), self.int_e(sc, 0), self.int_e(sc, 0))
        k = self.kind(["cmpi", "cmpf", "and", "or", "not", "lit", "tobool"], ["tobool"])
        if k == "tobool":
            return ("call", "bool", [r.choice([self.int_e, self.float_e, self.bool_e])(sc, d - 1)])
        if k == "cmpi":
            return (r.choice(["lt", "le", "eq"]), self.int_e(sc, d - 1), self.int_e(sc, d - 1))
        if k == "cmpf":
            return (r.choice(["lt", "le"]), self.float_e(sc, d - 1), r.choice([self.float_e(sc, d - 1), self.int_e(sc, d - 1)]))
        if k in ("and", "or"):
            return (k, self.bool_e(sc, d - 1), self.bool_e(sc, d - 1))
        if k == "not":
            return ("not", r.choice([self.bool_e(sc, d - 1), self.int_e(sc, d - 1)]))
        return ("b", r.random() < 0.5)

    def str_e(self, sc, d=1):
        r = self.r
        if d <= 0 or r.random() < 0.5:
            return ("v", r.choice(sc["str"])) if sc["str"] and r.random() < 0.5 else ("s", "".join(r.choice("abcxyz") for _ in range(r.randint(1, 3))))
        left = ("v", r.choice(sc["str"])) if sc["str"] else None
        if left is None:
            return ("s", "q")
        return ("add", left, self.str_e(sc, d - 1))

    def expr(self, cat, sc):
        return getattr(self, cat + "_e")(sc)

    # ---- statements
    def block(self, sc, depth, n, allow_new=True):
        out = []
        for _ in range(n):
            out += self.stmt(sc, depth, allow_new)
        return out

    def stmt(self, sc, depth, allow_new):
        r = self.r
        cats = ["int", "float", "bool", "str"]
        k = r.choice(["as", "as", "as", "new", "aug", "if", "ifnew", "for", "fornew", "wr"]) if not self.straight else r.choice(["as", "as", "new", "aug", "wr"])
        if depth >= 2 and k in ("if", "ifnew", "for", "fornew"):
            k = "as"
        ro = sc.get("ro", [])
        wr = {c: [n for n in sc[c] if n not in ro] for c in cats}      # loop variables are never assigned (C01 K01i is about that)
        if k == "as":
            c = r.choice([c for c in cats if wr[c]] or ["int"])
            if wr[c]:
                return [("as", r.choice(wr[c]), self.expr(c, sc))]
            k = "new"
        if k == "new" and allow_new:
            c = r.choice(cats)
            x = self.fresh(c[0])
            e = self.expr(c, sc)
            sc[c] = sc[c] + [x]
            return [("as", x, e), ("wr", x)]
        if k == "aug":
            c = r.choice([c for c in ("int", "float") if wr[c]] or ["int"])
            if wr[c]:
                x = r.choice(wr[c])
                op = r.choice(["add", "sub", "mul"])
                return [("aug", x, op, self.expr(c, sc) if c == "float" else self.int_e(sc, 1))]
        if k == "if":
            nb = r.randint(1, 3)
            conds = [self.bool_e(sc, 1) for _ in range(nb)]
            blocks = [self.block(dict(sc), depth + 1, r.randint(1, 3), allow_new=False) for _ in range(nb)]
            els = self.block(dict(sc), depth + 1, r.randint(1, 2), allow_new=False) if r.random() < 0.5 else None
            return [("if", conds, blocks, els)]
        if k == "ifnew" and allow_new:
            # a name first assigned in every branch of an if/else: definitely assigned afterwards
            c = r.choice(cats)
            x = self.fresh(c[0])
            cond = self.bool_e(sc, 1)
            b1 = [("as", x, self.expr(c, sc))] + self.block(dict(sc), depth + 1, r.randint(0, 1), allow_new=False)
            b2 = [("as", x, self.expr(c, sc))]
            sc[c] = sc[c] + [x]
            return [("if", [cond], [b1], b2), ("wr", x)]
        if k == "for":
            i = self.fresh("k")
            sc2 = dict(sc)
            sc2["int"] = sc["int"] + [i]
            sc2["ro"] = ro + [i]
            return [("for", i, r.randint(0, 3), self.block(sc2, depth + 1, r.randint(1, 3), allow_new=False))]
        if k == "fornew" and allow_new:
            c = r.choice(cats)
            x = self.fresh(c[0])
            i = self.fresh("k")
            sc2 = dict(sc)
            sc2["int"] = sc["int"] + [i]
            sc2["ro"] = ro + [i]
            body = [("as", x, self.expr(c, sc2))]
            sc2[c] = sc2[c] + [x]
            body += self.block(sc2, depth + 1, r.randint(0, 2), allow_new=False)
            sc[c] = sc[c] + [x]
            return [("for", i, r.randint(1, 3), body), ("wr", x)]
        c = r.choice([c for c in cats if sc[c]] or ["int"])
        return [("wr", r.choice(sc[c]))] if sc[c] else [("as", "a0", ("i", 1))]

    def hazard_stmts(self, sc):
        """one known way to re-type a name; returns statements to splice in at top level"""
        r = self.r
        h = self.hazard
        x = self.fresh("h")
        cond = ("lt", ("i", 0), ("i", 1)) if r.random() < 0.5 else ("lt", ("i", 1), ("i", 0))
        if h == "retype-int-then-float":
            return [("as", x, ("i", r.randint(1, 5))), ("as", x, ("f", 2.5)), ("wr", x)]
        if h == "retype-float-then-int":
            return [("as", x, ("f", 2.5)), ("as", x, ("i", r.randint(1, 5))), ("wr", x)]
        if h == "retype-in-branch":
            return [("as", x, ("i", 1)), ("if", [("lt", ("i", 0), ("i", 1))], [[("as", x, ("f", 0.5))]], None), ("wr", x)]
        if h == "retype-in-loop":
            return [("as", x, ("i", 1)), ("for", self.fresh("k"), 2, [("as", x, ("add", ("v", x), ("f", 0.25)))]), ("wr", x)]
        if h == "retype-aug":
            return [("as", x, ("i", 1)), ("aug", x, "add", ("f", 0.5)), ("wr", x)]
        if h == "int-true-division":
            return [("as", x, ("i", r.choice([1, 3, 7]))), ("as", x + "q", ("div", ("v", x), ("i", 2))), ("wr", x + "q")]
        if h == "and-or-value":
            return [("as", x, ("i", 2)), ("as", x + "r", (r.choice(["and", "or"]), ("v", x), ("i", 3))), ("wr", x + "r")]
        if h == "neg-bool":
            return [("as", x, ("b", True)), ("as", x + "n", ("neg", ("v", x))), ("wr", x + "n")]
        if h == "stale-var-type":
            return [("as", x, ("f", 1.5)), ("if", [("lt", ("i", 1), ("i", 0))], [[("as", x, ("i", 1))]], None), ("as", x + "y", ("v", x)), ("wr", x + "y")]
        if h == "branch-order":
            # both orders of the two arm types x both arms executed: four names
            T_, F_ = ("lt", ("i", 0), ("i", 1)), ("lt", ("i", 1), ("i", 0))
            out = []
            for j, (a, b, c) in enumerate([(("i", 1), ("f", 2.5), T_), (("i", 1), ("f", 2.5), F_), (("f", 2.5), ("i", 1), T_), (("f", 2.5), ("i", 1), F_)]):
                out += [("if", [c], [[("as", f"{x}o{j}", a)]], [("as", f"{x}o{j}", b)]), ("wr", f"{x}o{j}")]
            return out
        if h == "loop-last-wins":
            return [("for", self.fresh("k"), 2, [("as", x, ("i", 1)), ("as", x, ("add", ("v", x), ("f", 0.5)))]), ("wr", x)]
        if h == "tuple-retype":
            # `x, prev = 1, x`: prev takes the OLD (float) x; sequentially: prev first, then x
            return [("as", x, ("f", 2.5)), ("tup", x, ("i", 1), x + "p", ("v", x)), ("wr", x + "p"), ("wr", x)]
        if h == "comprehension-shadow":
            # a comprehension variable does not leak: the outer float keeps its type and value
            return [("as", x, ("f", 2.5)), ("comp", x + "l", x), ("as", x + "k", ("v", x)), ("wr", x + "k")]
        if h == "while-new-float":
            n = self.fresh("k")
            return [("as", n, ("i", 0)), ("while", n, r.randint(1, 3), [("as", x, ("mul", ("v", n), ("f", 0.5))), ("aug", n, "add", ("i", 1))]), ("wr", x)]
        if h == "sibling-branch-narrowing":
            # an earlier branch re-assigns a float name with an int; a LATER sibling branch first-assigns a new name from it
            return [("as", x, ("f", 2.5)), ("if", [("lt", ("i", 1), ("i", 0)), ("lt", ("i", 0), ("i", 1))],
                                            [[("as", x, ("i", 1))], [("as", x + "s", ("mul", ("v", x), ("i", 3)))]], None), ("wr", x + "s")]
        if h == "builtin-float-result":
            # K02e: a float operand to abs/max/min — the table still says int; pinned shapes and random float-typed operands
            fe = lambda: self.float_e(sc, 1)
            f = r.choice([("call", "abs", [("neg", ("f", 2.5))]), ("call", "max", [("f", 1.5), ("f", 2.25)]), ("call", "min", [("f", 1.5), ("i", 4)]),
                          ("call", "abs", [fe()]), ("call", "abs", [("neg", fe())]), ("call", "max", [fe(), fe()]), ("call", "min", [fe(), fe()]),
                          ("call", "max", [self.int_e(sc, 1), fe()]), ("call", "min", [fe(), self.int_e(sc, 1)]),
                          ("call", "max", [self.int_e(sc, 1), self.int_e(sc, 1), fe()])])
            return [("as", x, f), ("wr", x)]
        if h == "minmax-two-bools":
            # both operands bool-typed: the macro's ?: is typed bool by the compiler, int by the table; the int store still holds Python's 0/1
            return [("as", x, ("call", r.choice(["min", "max"]), [self.bool_e(sc, 1), self.bool_e(sc, 1)])), ("wr", x)]
        if h == "loop-last-wins-aug":
            return [("for", self.fresh("k"), 2, [("as", x, ("i", 1)), ("aug", x, "add", ("f", 0.5))]), ("wr", x)]
        if h == "bool-aug":
            return [("for", self.fresh("k"), 2, [("as", x, ("b", True)), ("aug", x, "add", ("i", 1))]), ("wr", x)]
        if h == "copy-after-aug":
            return [("as", x, ("f", 0.5)), ("aug", x, "mul", ("i", 2)), ("as", x + "c", ("v", x)), ("wr", x + "c"),
                    ("for", self.fresh("k"), 1, [("as", x + "d", ("i", 0)), ("aug", x + "d", "add", ("v", x))]), ("wr", x + "d")]
        raise ValueError(h)

    def program(self):
        r = self.r
        self.n = 0
        sc = {"int": [], "float": [], "bool": [], "str": []}
        pre = []
        for c, p in (("int", "a"), ("float", "x"), ("bool", "p"), ("str", "s")):
            for j in range(r.randint(0 if c != "int" else 1, 2)):
                n = f"{p}{j}"
                sc[c].append(n)
                pre.append(("as", n, self.expr(c, {k: [] for k in sc})))
        sc0 = {k: list(v) for k, v in sc.items()}      # the names assigned before the body: definitely assigned wherever a hazard is spliced in
        body = self.block(sc, 0, r.randint(2, 7))
        if self.hazard in ("builtin-float-result", "minmax-two-bools"):
            pos = r.randint(0, len(body))
            body = body[:pos] + self.hazard_stmts(sc0) + body[pos:]
        elif self.hazard:
            pos = r.randint(0, len(body))
            body = body[:pos] + self.hazard_stmts(sc) + body[pos:]
        tail = [("wr", n) for c in ("int", "float", "bool", "str") for n in sc[c]]
        main = None
        if not self.straight and r.random() < 0.6:
            sc2 = dict(sc)
            main = self.block(sc2, 1, r.randint(1, 4))
            main += [("wr", n) for c in ("int", "float", "bool", "str") for n in sc2[c]]
        return {"pre": pre + body + tail, "main": main}


# ---- printers
PYOP = {"add": "+", "sub": "-", "mul": "*", "div": "/", "lt": "<", "le": "<=", "eq": "==", "and": "and", "or": "or"}


def py_e(e):
    k = e[0]
    if k == "i": return str(e[1])
    if k == "f": return repr(float(e[1]))
    if k == "b": return "True" if e[1] else "False"
    if k == "s": return '"' + e[1] + '"'
    if k == "v": return e[1]
    if k == "neg": return f"(-{py_e(e[1])})"
    if k == "call": return f"{e[1]}({', '.join(py_e(a) for a in e[2])})"
    if k == "not": return f"(not {py_e(e[1])})"
    if k == "ite": return f"({py_e(e[2])} if {py_e(e[1])} else {py_e(e[3])})"
    return f"({py_e(e[1])} {PYOP[k]} {py_e(e[2])})"


def py_block(block, ind):
    out = []
    pad = "    " * ind
    for s in block:
        k = s[0]
        if k == "as":
            out.append(f"{pad}{s[1]} = {py_e(s[2])}")
        elif k == "aug":
            out.append(f"{pad}{s[1]} {PYOP[s[2]]}= {py_e(s[3])}")
        elif k == "wr":
            out.append(f"{pad}mon.write({s[1]})")
        elif k == "tup":
            out.append(f"{pad}{s[1]}, {s[3]} = {py_e(s[2])}, {py_e(s[4])}")
        elif k == "comp":
            out.append(f"{pad}{s[1]} = [{s[2]} * 2 for {s[2]} in range(3)]")
        elif k == "while":
            out.append(f"{pad}while {s[1]} < {s[2]}:")
            out += py_block(s[3], ind + 1)
        elif k == "if":
            for j, (c, b) in enumerate(zip(s[1], s[2])):
                out.append(f"{pad}{'if' if j == 0 else 'elif'} {py_e(c)}:")
                out += py_block(b, ind + 1)
            if s[3] is not None:
                out.append(f"{pad}else:")
                out += py_block(s[3], ind + 1)
        elif k == "for":
            out.append(f"{pad}for {s[1]} in range({s[2]}):")
            out += py_block(s[3], ind + 1)
    return out or [pad + "pass"]


HEADER = ["from Reduino.Communication import SerialMonitor", "from Reduino.Utils import sleep", "mon = SerialMonitor(9600)"]


def py_source(prog):
    lines = list(HEADER) + py_block(prog["pre"], 0)
    if prog["main"] is not None:
        lines.append("while True:")
        lines += py_block(prog["main"], 1)
    return "\n".join(lines) + "\n"


def sx_e(e):
    k = e[0]
    if k == "i": return f"(i {e[1]})"
    if k == "f": return f"(f {f64hex(e[1])})"
    if k == "b": return f"(b {'T' if e[1] else 'F'})"
    if k == "s": return f"(s {e[1].encode().hex()})"
    if k == "v": return f"(v {e[1]})"
    if k == "call":
        name, args = e[1], [sx_e(a) for a in e[2]]
        if name in ("min", "max"):       # the emitter folds left into nested two-argument macro calls; Python's first-extreme-wins is the same fold
            acc = args[0]
            for a in args[1:]:
                acc = f"({name} {acc} {a})"
            return acc
        return f"({ {'abs': 'abs', 'int': 'toint', 'float': 'tofloat', 'bool': 'tobool'}[name]} {args[0]})"
    if k in ("neg", "not"): return f"({k} {sx_e(e[1])})"
    if k == "ite": return f"(ite {sx_e(e[1])} {sx_e(e[2])} {sx_e(e[3])})"
    return f"({k} {sx_e(e[1])} {sx_e(e[2])})"


def sx_block(block):
    out = []
    for s in block:
        k = s[0]
        if k == "as":
            out.append(f"(as {s[1]} {sx_e(s[2])})")
        elif k == "aug":
            out.append(f"(as {s[1]} ({s[2]} (v {s[1]}) {sx_e(s[3])}))")
        elif k == "if":
            blks = [f"(blk {sx_block(b)})" for b in s[2]] + ([f"(blk {sx_block(s[3])})"] if s[3] is not None else [])
            out.append(f"(if {' '.join(blks)})")
        elif k == "for":
            out.append(f"(loop (as {s[1]} (i 0)) {sx_block(s[3])})")
        elif k == "while":
            out.append(f"(loop {sx_block(s[3])})")
        elif k == "tup":
            out.append(f"(as {s[3]} {sx_e(s[4])}) (as {s[1]} {sx_e(s[2])})")      # the loop variable is an int bound by the for header
    return " ".join(out)


def sx_tree(prog):
    main = f" (main {sx_block(prog['main'])})" if prog["main"] is not None else ""
    return f"(p {sx_block(prog['pre'])}{main})"


def sx_flat(prog):
    """straight-line programs only"""
    return f"(p {sx_block(prog['pre'])})"
