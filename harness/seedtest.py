"""Confirm seeded changes and run the checks against them.

  seedtest.py confirm <Cxx> <variant> <srcdir>   # srcdir has patch.diff demo.py meta.json; verifies in a scratch worktree, stores under /verif/seeded
  seedtest.py run [<Cxx>[/<variant>]] [quick|thorough]   # apply each stored patch to /repo, run ./check, undo, record in seeded/RESULTS.json
"""
from __future__ import annotations

import json
import os
import shutil
import subprocess
import sys
from pathlib import Path

VERIF = Path(__file__).resolve().parent.parent
SEEDED = VERIF / "seeded"
PY = "/venv/bin/python"
REPO = os.environ.get("REDUINO_REPO", "/repo")   # a scratch worktree when several lanes run in parallel (each lane = its own copy of /verif + worktree)


def sh(cmd, cwd=None, env=None, timeout=1800):
    p = subprocess.run(cmd, cwd=cwd, env=env, capture_output=True, text=True, timeout=timeout)
    return p.returncode, (p.stdout + p.stderr)


def confirm(pid, variant, srcdir):
    srcdir = Path(srcdir)
    wt = Path(f"/tmp/seedconfirm-{pid}-{variant}")
    sh(["git", "-C", "/repo", "worktree", "remove", "--force", str(wt)])
    rc, out = sh(["git", "-C", "/repo", "worktree", "add", "--detach", str(wt), "HEAD"])
    assert rc == 0, out
    res = {}
    try:
        env = dict(os.environ, PYTHONPATH=str(wt / "src"))
        env.pop("REDUINO_VERIF", None)
        shutil.copytree(srcdir, wt / "SEED" / variant)
        demo = ["SEED/" + variant + "/demo.py"]
        rc0, o0 = sh([PY, *demo], cwd=wt, env=env)
        res["demo_clean_rc"] = rc0
        rc, out = sh(["git", "-C", str(wt), "apply", str(srcdir / "patch.diff")])
        res["apply_rc"] = rc
        if rc != 0:
            res["apply_err"] = out[-400:]
        else:
            rc1, o1 = sh([PY, "-m", "pytest", "-q", "-p", "no:cacheprovider"], cwd=wt, env=env)
            res["tests_rc"] = rc1
            res["tests_tail"] = o1.strip().splitlines()[-1] if o1.strip() else ""
            rc2, o2 = sh([PY, *demo], cwd=wt, env=env)
            res["demo_patched_rc"] = rc2
            res["demo_patched_tail"] = o2.strip()[-400:]
        ok = res.get("apply_rc") == 0 and res["demo_clean_rc"] == 0 and res.get("tests_rc") == 0 and res.get("demo_patched_rc", 0) != 0
        res["confirmed"] = ok
        if ok:
            dest = SEEDED / pid / variant
            dest.mkdir(parents=True, exist_ok=True)
            for f in ("patch.diff", "demo.py"):
                shutil.copy(srcdir / f, dest / f)
            meta = json.loads((srcdir / "meta.json").read_text())
            meta["confirmed_by_author"] = {k: res[k] for k in ("demo_clean_rc", "tests_rc", "tests_tail", "demo_patched_rc")}
            meta["base_commit"] = sh(["git", "-C", "/repo", "rev-parse", "HEAD"])[1].strip()
            (dest / "meta.json").write_text(json.dumps(meta, indent=1))
    finally:
        sh(["git", "-C", "/repo", "worktree", "remove", "--force", str(wt)])
        shutil.rmtree(wt, ignore_errors=True)
    print(pid, variant, json.dumps(res)[:600])
    return res


def run(selector=None, tier="quick"):
    results_path = SEEDED / "RESULTS.json"
    results = json.loads(results_path.read_text()) if results_path.exists() else {}
    assert sh(["git", "-C", REPO, "status", "--porcelain", "--untracked-files=no"])[1].strip() == "", REPO + " not clean"
    for pdir in sorted(SEEDED.iterdir()):
        if not pdir.is_dir():
            continue
        for vdir in sorted(pdir.iterdir()):
            name = f"{pdir.name}/{vdir.name}"
            if selector and not name.startswith(selector):
                continue
            rc, out = sh(["git", "-C", REPO, "apply", str(vdir / "patch.diff")])
            if rc != 0:
                results[name] = {"applied": False, "err": out[-300:]}
                print(name, "PATCH DOES NOT APPLY")
                continue
            try:
                meta = json.loads((vdir / "meta.json").read_text())
                checks = meta.get("detect_with", [pdir.name])
                r = {}
                for c in checks:
                    rc, out = sh([str(VERIF / "check"), c, tier], cwd=VERIF, timeout=3600)
                    viol = [l for l in out.splitlines() if l.startswith("VIOLATION")]
                    r[c] = {"rc": rc, "violation": viol[:1], "concrete": bool(viol) and "no-failing-input-found" not in viol[0]}
                results[name] = {"applied": True, "tier": tier, "checks": r, "caught": any(v["rc"] == 1 for v in r.values())}
                print(name, json.dumps(results[name]))
            finally:
                sh(["git", "-C", REPO, "checkout", "--", "."])
    results_path.write_text(json.dumps(results, indent=1, sort_keys=True))


if __name__ == "__main__":
    if sys.argv[1] == "confirm":
        confirm(sys.argv[2], sys.argv[3], sys.argv[4])
    else:
        sel = sys.argv[2] if len(sys.argv) > 2 and not sys.argv[2] in ("quick", "thorough") else None
        tier = sys.argv[-1] if sys.argv[-1] in ("quick", "thorough") else "quick"
        run(sel, tier)
