"""Compile emitted sketches against harness/mockcore with host g++ and run setup(); loop() x N (tie S_c / oracle E)."""
from __future__ import annotations

import hashlib
import os
import subprocess
from concurrent.futures import ThreadPoolExecutor
from pathlib import Path

import common

MOCK = common.VERIF / "harness" / "mockcore"
CACHE = common.VERIF / ".work" / "mock"
BASE_FLAGS = ["-std=gnu++17", "-O0", "-ffp-contract=off", "-w", "-I", str(MOCK)]
SAN_FLAGS = ["-fsanitize=address,undefined", "-fno-omit-frame-pointer", "-g"]


def _runner_obj(san: bool, extra: tuple = ()) -> Path:
    h = hashlib.sha1()
    for f in sorted(MOCK.iterdir()):
        h.update(f.read_bytes())
    h.update(repr((san, extra)).encode())
    CACHE.mkdir(parents=True, exist_ok=True)
    obj = CACHE / f"runner-{h.hexdigest()[:12]}.o"
    if not obj.exists():
        tmp = obj.with_suffix(f".{os.getpid()}.tmp.o")
        cmd = ["g++", *BASE_FLAGS, *(SAN_FLAGS if san else []), *extra, "-c", str(MOCK / "runner.cpp"), "-o", str(tmp)]
        p = subprocess.run(cmd, capture_output=True, text=True, timeout=300)
        if p.returncode != 0:
            raise common.ToolFailure("mock core does not compile: " + p.stderr[-1500:])
        os.replace(tmp, obj)
    return obj


class Result:
    __slots__ = ("ok", "compile_error", "trace", "stderr", "rc")

    def __init__(self):
        self.ok = False
        self.compile_error = None
        self.trace = []
        self.stderr = ""
        self.rc = None


def run_one(workdir: Path, idx: int, cpp: str, passes: int, inputs: str, san: bool, syntax_only: bool, extra_src: str | None) -> Result:
    r = Result()
    d = workdir / f"sk{idx}"
    d.mkdir(parents=True, exist_ok=True)
    src = d / "sketch.cpp"
    src.write_text(cpp + ("\n" + extra_src if extra_src else ""))
    try:
        if syntax_only:
            p = subprocess.run(["g++", *BASE_FLAGS, "-fsyntax-only", str(src)], capture_output=True, text=True, timeout=120)
            r.ok = p.returncode == 0
            r.compile_error = None if r.ok else p.stderr[:1500]
            return r
        exe = d / "sk"
        cmd = ["g++", *BASE_FLAGS, *(SAN_FLAGS if san else []), str(src), str(_runner_obj(san)), "-o", str(exe)]
        p = subprocess.run(cmd, capture_output=True, text=True, timeout=300)
        if p.returncode != 0:
            r.compile_error = p.stderr[:1500]
            return r
        inp = d / "inputs.txt"
        inp.write_text(inputs or "")
        env = dict(os.environ, ASAN_OPTIONS="detect_leaks=0:abort_on_error=0:exitcode=77", UBSAN_OPTIONS="halt_on_error=1:exitcode=78:print_stacktrace=0")
        try:
            q = subprocess.run([str(exe), str(passes), str(inp)], capture_output=True, text=True, timeout=20, env=env, errors="replace")
            r.rc = q.returncode
            r.trace = q.stdout.split("\n")
            if r.trace and r.trace[-1] == "":
                r.trace.pop()
            r.stderr = q.stderr[:3000]
            r.ok = q.returncode == 0
        except subprocess.TimeoutExpired:
            r.rc = -999
            r.stderr = "timeout"
        return r
    finally:
        for f in d.iterdir():
            try:
                f.unlink()
            except OSError:
                pass
        try:
            d.rmdir()
        except OSError:
            pass


def run_many(ctx, jobs, san=False, syntax_only=False, extra_src=None):
    """jobs: list of (cpp_text, passes, inputs_text).  Returns list[Result] in order."""
    _runner_obj(san)
    work = ctx.work / "cxx"
    work.mkdir(parents=True, exist_ok=True)
    with ThreadPoolExecutor(max_workers=min(16, os.cpu_count() or 4)) as ex:
        futs = [ex.submit(run_one, work, i, j[0], j[1], j[2], san, syntax_only, extra_src) for i, j in enumerate(jobs)]
        return [f.result() for f in futs]


def transpile(src: str):
    """emit(parse(src)) from the tree under test; returns (cpp, None) or (None, exception)"""
    import importlib
    parser = importlib.import_module("Reduino.transpile.parser")
    emitter = importlib.import_module("Reduino.transpile.emitter")
    try:
        return emitter.emit(parser.parse(src)), None
    except Exception as e:  # noqa: BLE001
        return None, e
