"""Generator for C03's constant-environment model: scripts over str and list names with fold sites (`len(name)`),
in-place list mutation, rebinding, branches decided by a run-time value the transpiler cannot know, loops and a main loop.
One abstract tree -> Python text, S-expression for the Lean model, the list of choices the real execution makes."""
from __future__ import annotations

K = 7                      # run-time value of `k` (returned by a helper, so the transpiler cannot fold it)
HEAD = ("from Reduino.Communication import SerialMonitor\nfrom Reduino.Utils import sleep\nmon = SerialMonitor(9600)\n"
        "def seven():\n    return 7\nk = seven()\n")
PASSES = 2


class CEGen:
    def __init__(self, rng, safe_bias=0.5):
        self.r = rng
        self.safe_bias = safe_bias
        self.v = 50

    def program(self):
        r = self.r
        self.v = 50
        strs = [f"s{i}" for i in range(r.randint(1, 2))]
        lists = [f"xs{i}" for i in range(r.randint(1, 2))]
        # names that may be written inside nested blocks; a "safe" script keeps observed names out of it
        safe = r.random() < self.safe_bias
        nested_ok = set(r.sample(strs + lists, r.randint(0, len(strs + lists))))
        self.observed = set(strs + lists) - nested_ok if safe else set(strs + lists)
        self.nested_ok = nested_ok
        self.strs, self.lists = strs, lists
        top = []
        for s in strs:
            top.append(self.bind(s))
        for x in lists:
            top.append(self.bind(x, dyn=r.random() < 0.25))      # lists are bound once (re-assigning a tracked list with another length is refused)
        top += self.block(0, r.randint(2, 7))
        if r.random() < 0.6:
            top.append(("main", self.block(1, r.randint(1, 4))))
        return top

    def bind(self, x, dyn=False):
        r = self.r
        if x in self.strs:
            s = "".join(r.choice("abcd") for _ in range(r.randint(0, 4)))
            return ("ds", x, s) if dyn else ("bs", x, s)
        xs = [r.randint(0, 9) for _ in range(r.randint(1, 3))]
        return ("dl", x, xs) if dyn else ("bl", x, xs)

    def block(self, depth, n):
        out = []
        for _ in range(n):
            out += self.stmt(depth)
        return out

    def stmt(self, depth):
        r = self.r
        names = self.strs + self.lists
        writable = names if depth == 0 else [n for n in names if n in self.nested_ok]
        k = r.choice(["ob", "ob", "ob", "bind", "dyn", "ap", "aprm", "if", "loop"])
        if depth >= 2 and k in ("if", "loop"):
            k = "ob"
        if k == "ob":
            return [("ob", r.choice(sorted(self.observed) or names))]
        wstr = [n for n in writable if n in self.strs]
        if k == "bind" and wstr:
            return [self.bind(r.choice(wstr))]
        if k == "dyn" and wstr:
            return [self.bind(r.choice(wstr), dyn=True)]
        if k in ("ap", "aprm"):
            ls = [x for x in writable if x in self.lists]
            if ls:
                x = r.choice(ls)
                self.v += 1
                return [("ap", x, self.v)] + ([("rm", x, self.v)] if k == "aprm" else [])
        if k == "if":
            nb = r.randint(1, 3)
            conds = [r.choice([3, 9]) for _ in range(nb)]
            blocks = [self.block(depth + 1, r.randint(1, 3)) for _ in range(nb)]
            els = self.block(depth + 1, r.randint(1, 2)) if r.random() < 0.4 else None
            return [("if", conds, blocks, els)]
        if k == "loop":
            return [("loop", r.randint(0, 3), self.block(depth + 1, r.randint(1, 3)))]
        return [("ob", r.choice(names))]


def py_block(block, ind, strs):
    pad = "    " * ind
    out = []
    for s in block:
        k = s[0]
        if k == "bs":
            out.append(f'{pad}{s[1]} = "{s[2]}"')
        elif k == "ds":
            out.append(f'{pad}{s[1]} = "{s[2]}" + str(k)')
        elif k == "bl":
            out.append(f"{pad}{s[1]} = [{', '.join(map(str, s[2]))}]")
        elif k == "dl":
            out.append(f"{pad}{s[1]} = [{', '.join(['k'] + list(map(str, s[2])))}]")
        elif k == "ap":
            out.append(f"{pad}{s[1]}.append({s[2]})")
        elif k == "rm":
            out.append(f"{pad}{s[1]}.remove({s[2]})")
        elif k == "ob":
            out.append(f"{pad}mon.write(len({s[1]}))")
        elif k == "if":
            for j, (t, b) in enumerate(zip(s[1], s[2])):
                out.append(f"{pad}{'if' if j == 0 else 'elif'} k > {t}:")
                out += py_block(b, ind + 1, strs)
            if s[3] is not None:
                out.append(f"{pad}else:")
                out += py_block(s[3], ind + 1, strs)
        elif k == "loop":
            out.append(f"{pad}for i{ind} in range({s[1]}):")
            out += py_block(s[2], ind + 1, strs)
        elif k == "main":
            out.append(f"{pad}while True:")
            out += py_block(s[1], ind + 1, strs)
    return out or [pad + "sleep(1)"]


def py_source(prog):
    return HEAD + "\n".join(py_block(prog, 0, None)) + "\n"


def sx_block(block):
    out = []
    for s in block:
        k = s[0]
        if k == "bs":
            out.append(f"(bs {s[1]} {s[2].encode().hex()})".replace(" )", ")"))
        elif k == "ds":
            out.append(f"(ds {s[1]} {(s[2] + str(K)).encode().hex()})")
        elif k == "bl":
            out.append(f"(bl {s[1]} {' '.join(map(str, s[2]))})".replace(" )", ")"))
        elif k == "dl":
            out.append(f"(dl {s[1]} {' '.join(map(str, [K] + s[2]))})")
        elif k in ("ap", "rm"):
            out.append(f"({k} {s[1]} {s[2]})")
        elif k == "ob":
            out.append(f"(ob {s[1]})")
        elif k == "if":
            blks = [f"(blk {sx_block(b)})" for b in s[2]] + ([f"(blk {sx_block(s[3])})"] if s[3] is not None else [])
            out.append(f"(if {' '.join(blks)})")
        elif k == "loop":
            out.append(f"(loop {sx_block(s[2])})")
        elif k == "main":
            out.append(f"(main {sx_block(s[1])})")
    return " ".join(out)


def sx_prog(prog):
    return f"(p {sx_block(prog)})"


def choices(block, passes=PASSES):
    """the choices the real execution makes, in the order the model consumes them (pre-order, per execution of each block)"""
    out = []
    for s in block:
        k = s[0]
        if k == "if":
            taken = next((j for j, t in enumerate(s[1]) if K > t), None)
            if taken is None and s[3] is not None:
                taken = len(s[1])
            out.append(len(s[1]) + (1 if s[3] is not None else 0) if taken is None else taken)
            if taken is not None:
                out += choices((s[2] + [s[3]])[taken], passes)
        elif k == "loop":
            out.append(s[1])
            for _ in range(s[1]):
                out += choices(s[2], passes)
        elif k == "main":
            out.append(passes)
            for _ in range(passes):
                out += choices(s[1], passes)
    return out


def nested_write_kind(prog, name):
    """where is `name` written inside a nested block (first hit, depth first)"""
    def walk(block, container):
        for s in block:
            k = s[0]
            if container and k in ("bs", "ds", "bl", "dl") and s[1] == name:
                return f"rebind-in-{container}"
            if container and k in ("ap", "rm") and s[1] == name:
                return f"mutation-in-{container}"
            if k == "if":
                for b in s[2] + ([s[3]] if s[3] is not None else []):
                    r = walk(b, container or "branch")
                    if r:
                        return r
            elif k == "loop":
                r = walk(s[2], container or "loop")
                if r:
                    return r
            elif k == "main":
                r = walk(s[1], container or "main-loop")
                if r:
                    return r
        return None
    return walk(prog, None)
