"""Generator of larger scripts in the documented style (C06, reused by C02/C03): any combination of devices (declared before the
main loop, hoistable kinds also at the top of its body), device calls in every accepted call shape, helper functions,
lists, strings with arbitrary printable literals, control flow, first assignments inside branches/loops.
Programs are Python-valid and terminate (each pass of the main loop too)."""
from __future__ import annotations

import string

import bindprobe

HEADER = ("from Reduino.Actuators import Led, RGBLed, Servo, DCMotor, Buzzer\nfrom Reduino.Sensors import Button, Potentiometer, Ultrasonic\n"
          "from Reduino.Displays import LCD\nfrom Reduino.Communication import SerialMonitor\nfrom Reduino.Utils import sleep\n"
          "from Reduino.Core import pin_mode, digital_write, analog_write, digital_read, analog_read, OUTPUT, INPUT, HIGH, LOW\n")
HOISTABLE = {"Led", "RGBLed", "Servo", "DCMotor", "Button", "Potentiometer", "Ultrasonic"}
NPINS = {"Led": 1, "RGBLed": 3, "Servo": 1, "DCMotor": 3, "Buzzer": 1, "Button": 1, "Potentiometer": 0, "Ultrasonic": 2, "LCD": 0}
GETTERS = {"Led": ["get_state()", "get_brightness()"], "RGBLed": ["get_state()"], "Servo": ["read()", "read_us()"],
           "DCMotor": ["get_speed()", "get_applied_speed()", "is_inverted()"], "Button": ["is_pressed()"], "Potentiometer": ["read()"],
           "Ultrasonic": ["measure_distance()"]}
PRINTABLE = [c for c in string.printable if c not in "\n\r\t\x0b\x0c"]


def py_str(s: str) -> str:
    return '"' + s.replace("\\", "\\\\").replace('"', '\\"') + '"'


class Big:
    def __init__(self, rng, callables=None, strings="plain"):
        self.r = rng
        self.callables = callables if callables is not None else bindprobe.callables()
        self.by_class = {}
        for c, m, ps in self.callables:
            if m != "__init__" and c not in ("Core", "SerialMonitor"):
                self.by_class.setdefault(c, []).append((m, ps))
        self.strings = strings
        self.fresh = 0
        self.features = set()
        self._acc = {}

    # ---------- literals / expressions
    def lit_str(self):
        r = self.r
        if self.strings == "plain":
            return py_str("".join(r.choice("abcxyz 019:") for _ in range(r.randint(0, 6))))
        n = r.randint(0, 8)
        pool = PRINTABLE if r.random() < 0.7 else ['\\', '"', "'", "%", "#", "{", "}", "?", "/", "*"]
        return py_str("".join(r.choice(pool) for _ in range(n)))

    def int_expr(self, sc, d=2):
        r = self.r
        ints = sc["int"]
        if d <= 0 or r.random() < 0.35:
            return r.choice(ints) if ints and r.random() < 0.6 else str(r.randint(0, 20))
        k = r.choice(["bin", "bin", "call", "len", "abs", "idx", "ite", "minmax", "paren"])
        if k == "bin":
            return f"{self.int_expr(sc, d - 1)} {r.choice(['+', '-', '*'])} {self.int_expr(sc, d - 1)}"
        if k == "call" and sc["ifun"]:
            f, n = r.choice(sc["ifun"])
            self.features.add("call-int-helper")
            return f"{f}({', '.join(self.int_expr(sc, 0) for _ in range(n))})"
        if k == "len" and (sc["list"] or sc["str"]):
            self.features.add("len")
            return f"len({r.choice(sc['list'] + sc['str'])})"
        if k == "abs":
            self.features.add("abs")
            return f"abs({self.int_expr(sc, d - 1)})"
        if k == "idx" and sc["list"]:
            self.features.add("index")
            return f"{r.choice(sc['list'])}[0]"
        if k == "ite":
            self.features.add("ifexp")
            return f"({self.int_expr(sc, d - 1)} if {self.bool_expr(sc, d - 1)} else {self.int_expr(sc, d - 1)})"
        if k == "minmax":
            self.features.add("minmax")
            return f"{r.choice(['min', 'max'])}({self.int_expr(sc, d - 1)}, {self.int_expr(sc, d - 1)})"
        return f"({self.int_expr(sc, d - 1)})"

    def float_expr(self, sc, d=2):
        r = self.r
        fl = sc["float"]
        if d <= 0 or r.random() < 0.4:
            return r.choice(fl) if fl and r.random() < 0.6 else r.choice(["0.5", "1.25", "2.0", "3.75", "10.5"])
        k = r.choice(["bin", "mix", "call", "div"])
        if k == "bin":
            return f"{self.float_expr(sc, d - 1)} {r.choice(['+', '-', '*'])} {self.float_expr(sc, d - 1)}"
        if k == "mix":
            return f"{self.float_expr(sc, d - 1)} {r.choice(['+', '*'])} {self.int_expr(sc, 0)}"
        if k == "call" and sc["ffun"]:
            f, n = r.choice(sc["ffun"])
            self.features.add("call-float-helper")
            return f"{f}({', '.join(self.float_expr(sc, 0) for _ in range(n))})"
        return f"{self.float_expr(sc, d - 1)} / {r.choice(['2.0', '4.0', '8.0'])}"

    def bool_expr(self, sc, d=2):
        r = self.r
        if d <= 0 or r.random() < 0.3:
            if sc["bool"] and r.random() < 0.4:
                return r.choice(sc["bool"])
            return f"{self.int_expr(sc, 0)} {r.choice(['<', '<=', '>', '>=', '==', '!='])} {self.int_expr(sc, 0)}"
        k = r.choice(["and", "or", "not", "cmp", "lit"])
        if k in ("and", "or"):
            return f"{self.bool_expr(sc, d - 1)} {k} {self.bool_expr(sc, d - 1)}"
        if k == "not":
            return f"not ({self.bool_expr(sc, d - 1)})"
        if k == "in" and sc["list"]:
            self.features.add("membership")
            return f"{self.int_expr(sc, 0)} in {r.choice(sc['list'])}"
        if k == "lit":
            return r.choice(["True", "False"])
        return f"{self.int_expr(sc, d - 1)} {r.choice(['<', '>', '=='])} {self.int_expr(sc, d - 1)}"

    def str_expr(self, sc, d=1):
        r = self.r
        k = r.choice(["lit", "var", "cat", "fstr", "str"])
        if k == "var" and sc["str"]:
            return r.choice(sc["str"])
        if k == "cat" and d > 0:
            self.features.add("str-concat")
            left = self.str_expr(sc, d - 1)
            return f"{left} + {self.str_expr(sc, d - 1)}"
        if k == "fstr":
            self.features.add("f-string")
            body = "".join(r.choice("abc :=") for _ in range(r.randint(0, 3)))
            names = sc["int"] + sc["str"] + sc["float"][:0]
            if names:
                body += "{" + r.choice(names) + "}"
            return 'f"' + body + '"'
        if k == "str":
            self.features.add("str()")
            return f"str({self.int_expr(sc, 0)})"
        return self.lit_str()

    def any_expr(self, sc):
        k = self.r.choice(["int", "int", "float", "bool", "str"])
        return getattr(self, k + "_expr")(sc)

    # ---------- statements
    def new_name(self, p):
        self.fresh += 1
        return f"{p}{self.fresh}"

    def device_call(self, sc):
        r = self.r
        devs = [d for d in sc["dev"] if d[1] in self.by_class or d[1] in GETTERS]
        if not devs:
            return None
        name, cls = r.choice(devs)
        if cls in GETTERS and (cls not in self.by_class or r.random() < 0.3):
            gt = r.choice(GETTERS[cls])
            if self.call_accepted(cls, gt, getter=True):
                self.features.add("getter:" + cls)
                return f"mon.write({name}.{gt})"
            return None
        for _ in range(6):
            m, ps = r.choice(self.by_class[cls])
            shape = r.choice(bindprobe.shapes(ps, r, max_perm=2))
            vals = {p[0]: r.choice(bindprobe.values_for(cls, m, p[0])) for p in ps}
            names, k, order = shape
            pos_params = [p[0] for p in ps if p[1] == "pos"]
            args = [vals[n] for n in pos_params[:k]] + [f"{n}={vals[n]}" for n in order]
            call = f"{m}({', '.join(args)})"
            if self.call_accepted(cls, call):
                self.features.add(f"call:{cls}.{m}")
                return f"{name}.{call}"
        return None

    def call_accepted(self, cls, call, getter=False):
        """call shapes the transpiler refuses (C08's subject) are not used: this generator wants accepted scripts"""
        key = (cls, call)
        if key not in self._acc:
            import cxx
            ctor = bindprobe.CTOR[cls]
            cpp, _ = cxx.transpile(bindprobe.HEAD + (f"d = {ctor}\nmon.write(d.{call})\n" if getter else f"d = {ctor}\nd.{call}\n"))
            self._acc[key] = cpp is not None
        return self._acc[key]

    def simple(self, sc, in_loop):
        r = self.r
        k = r.choice(["assign", "assign", "aug", "write", "write", "sleep", "dev", "dev", "dev", "list", "swap", "callproc", "core", "new"])
        wr = {t: [n for n in sc[t] if n not in sc["ro"]] for t in ("int", "float", "bool", "str")}     # loop variables are read-only here (C01 K01i)
        if k == "assign":
            t = r.choice(["int", "float", "bool", "str"])
            if wr[t]:
                return [f"{r.choice(wr[t])} = {getattr(self, t + '_expr')(sc)}"]
        if k == "aug" and wr["int"]:
            self.features.add("augassign")
            return [f"{r.choice(wr['int'])} {r.choice(['+=', '-=', '*='])} {self.int_expr(sc, 1)}"]
        if k == "write":
            return [f"mon.write({self.any_expr(sc)})"]
        if k == "sleep":
            return [f"sleep({r.randint(0, 50)})"]
        if k == "dev":
            c = self.device_call(sc)
            if c:
                return [c]
        if k == "list" and sc["list"]:
            xs = r.choice(sc["list"])
            self.features.add("list-mutation")
            v = r.randint(50, 60)
            return r.choice([[f"{xs}.append({self.int_expr(sc, 0)})"], [f"{xs}.append({v})", f"{xs}.remove({v})"], [f"{xs}[0] = {self.int_expr(sc, 0)}"]])
        if k == "swap" and len(wr["int"]) >= 2:
            a, b = r.sample(wr["int"], 2)
            self.features.add("swap")
            return [f"{a}, {b} = {b}, {a}"]
        if k == "callproc" and sc["proc"]:
            f, n = r.choice(sc["proc"])
            self.features.add("call-proc-helper")
            return [f"{f}({', '.join(self.int_expr(sc, 0) for _ in range(n))})"]
        if k == "core":
            self.features.add("core")
            return [r.choice([f"digital_write({r.choice([3, 4])}, {r.choice(['HIGH', 'LOW'])})", f"analog_write(5, {self.int_expr(sc, 0)})",
                              "mon.write(digital_read(7))", "mon.write(analog_read(\"A1\"))"])]
        if k == "new":
            t = r.choice(["int", "float", "bool", "str", "list"])
            n = self.new_name({"int": "n", "float": "f", "bool": "g", "str": "w", "list": "l"}[t])
            self.features.add("first-assign-nested" if sc["depth"] > 0 else "first-assign-top")
            if t == "list":
                self.features.add("list")
                e = r.choice([f"[{', '.join(str(r.randint(0, 9)) for _ in range(r.randint(1, 4)))}]", f"[i * {r.randint(1, 3)} for i in range({r.randint(1, 4)})]"])
            else:
                e = getattr(self, t + "_expr")(sc)
            sc[t] = sc[t] + [n]
            return [f"{n} = {e}", f"mon.write({'len(' + n + ')' if t == 'list' else n})"]
        return [f"mon.write({self.int_expr(sc, 1)})"]

    def block(self, sc, depth, in_loop, n):
        out = []
        sc = dict(sc, depth=depth)
        for _ in range(n):
            out += self.stmt(sc, depth, in_loop)
        return out

    def stmt(self, sc, depth, in_loop):
        r = self.r
        if depth >= 3 or r.random() < 0.6:
            return self.simple(sc, in_loop)
        k = r.choice(["if", "if", "ifelse", "elif", "while", "for", "try", "brk"])      # `for e in xs` is a known finding (header dropped)
        ind = lambda ls: ["    " + l for l in ls]
        sub = lambda lp=in_loop: ind(self.block(dict(sc), depth + 1, lp, r.randint(1, 3)))
        if k == "if":
            return [f"if {self.bool_expr(sc)}:"] + sub()
        if k == "ifelse":
            return [f"if {self.bool_expr(sc)}:"] + sub() + ["else:"] + sub()
        if k == "elif":
            self.features.add("elif")
            return [f"if {self.bool_expr(sc)}:"] + sub() + [f"elif {self.bool_expr(sc)}:"] + sub() + ["else:"] + sub()
        if k == "while":
            c = self.new_name("k")
            self.features.add("while")
            body = ind([f"{c} += 1"]) + sub(True)
            return [f"{c} = 0", f"while {c} < {r.randint(1, 3)}:"] + body
        if k == "for":
            i = self.new_name("i")
            self.features.add("for-range")
            sc2 = dict(sc, int=sc["int"] + [i], ro=sc["ro"] + [i])
            return [f"for {i} in range({r.randint(0, 3)}):"] + ind(self.block(sc2, depth + 1, True, r.randint(1, 3)))
        if k == "for3":
            i = self.new_name("i")
            self.features.add("for-range3")
            sc2 = dict(sc, int=sc["int"] + [i])
            return [f"for {i} in range({r.randint(0, 2)}, {r.randint(3, 8)}, {r.randint(1, 3)}):"] + ind(self.block(sc2, depth + 1, True, r.randint(1, 2)))
        if k == "forlist" and sc["list"]:
            e = self.new_name("e")
            self.features.add("for-list")
            sc2 = dict(sc, int=sc["int"] + [e], list=[])      # no mutation of a list while iterating over it
            return [f"for {e} in {r.choice(sc['list'])}:"] + ind(self.block(sc2, depth + 1, True, r.randint(1, 2)))
        if k == "try":
            self.features.add("try")
            return ["try:"] + sub() + ["except:"] + sub()
        if k == "brk" and in_loop:
            self.features.add("break/continue")
            return [f"if {self.bool_expr(sc, 1)}:"] + ind([r.choice(["break", "break"])])
        return self.simple(sc, in_loop)

    def program(self):
        r = self.r
        self.fresh = 0
        self.features = set()
        lines = [HEADER.rstrip("\n"), "mon = SerialMonitor(9600)"]
        sc = {"int": [], "float": [], "bool": [], "str": [], "list": [], "dev": [], "ifun": [], "ffun": [], "proc": [], "depth": 0, "ro": []}
        # helper functions
        if r.random() < 0.6:
            lines += ["def addmul(u, v):", "    return u * 2 + v"]
            sc["ifun"].append(("addmul", 2))
        if r.random() < 0.4:
            lines += ["def clampi(u):", "    if u > 100:", "        return 100", "    if u < 0:", "        return 0", "    return u"]
            sc["ifun"].append(("clampi", 1))
        if r.random() < 0.4:
            lines += ["def half(u):", "    return u / 2.0"]
            sc["ffun"].append(("half", 1))
        if r.random() < 0.4:
            lines += ["def report(u):", "    mon.write(u)", "    mon.write(u + 1)"]
            sc["proc"].append(("report", 1))
        # scalars
        for n in r.sample(["a", "b", "c"], r.randint(1, 3)):
            lines.append(f"{n} = {r.randint(0, 9)}")
            sc["int"].append(n)
        for n in r.sample(["x", "y"], r.randint(0, 2)):
            lines.append(f"{n} = {r.choice(['0.5', '1.5', '2.25'])}")
            sc["float"].append(n)
        for n in r.sample(["p", "q"], r.randint(0, 2)):
            lines.append(f"{n} = {r.choice(['True', 'False'])}")
            sc["bool"].append(n)
        for n in r.sample(["s", "t"], r.randint(0, 2)):
            lines.append(f"{n} = {self.lit_str()}")
            sc["str"].append(n)
        if r.random() < 0.6:
            lines.append(f"xs = [{', '.join(str(r.randint(0, 9)) for _ in range(r.randint(1, 5)))}]")
            sc["list"].append("xs")
            self.features.add("list")
        # devices
        pins = list(range(2, 14))
        r.shuffle(pins)
        apins = ["A0", "A2", "A3"]
        loop_decls = []
        for cls in r.sample(list(NPINS), r.randint(0, 5)):
            if len(pins) < NPINS[cls]:
                continue
            name = self.new_name("d")
            ps = [pins.pop() for _ in range(NPINS[cls])]
            if cls == "Potentiometer":
                ctor = f"Potentiometer(\"{apins.pop()}\")"
            elif cls == "LCD":
                ctor = r.choice(["LCD(i2c_addr=0x27, cols=16, rows=2)", "LCD(rs=12, en=11, d4=5, d5=4, d6=3, d7=2, cols=16, rows=2)"]) if len(pins) >= 12 else "LCD(i2c_addr=0x27, cols=16, rows=2)"
                if "rs=" in ctor:
                    pins = []
            else:
                ctor = f"{cls}({', '.join(map(str, ps))})"
            self.features.add("device:" + cls)
            if cls in HOISTABLE and r.random() < 0.3:
                loop_decls.append(f"{name} = {ctor}")
                self.features.add("declared-in-loop:" + cls)
                sc_dev_late = (name, cls)
                sc.setdefault("late", []).append(sc_dev_late)
            else:
                lines.append(f"{name} = {ctor}")
                sc["dev"].append((name, cls))
        lines += self.block(sc, 0, False, r.randint(2, 8))
        if r.random() < 0.85:
            lines.append("while True:")
            sc2 = dict(sc, dev=sc["dev"] + sc.get("late", []))
            body = loop_decls + self.block(sc2, 1, False, r.randint(1, 8))
            lines += ["    " + l for l in body]
        return "\n".join(lines) + "\n"
