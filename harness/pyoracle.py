"""Run a DSL script under CPython against the real host modules, recording the observable events.

The top-level `while True:` is executed for N passes (header rewritten to a bounded for).  Events: ('w', text) for
SerialMonitor.write, ('d', ms) for sleep, plus whatever device recorders the caller installs."""
from __future__ import annotations

import importlib
import re
import sys

import common


class StepLimit(Exception):
    pass


def run_script(src: str, passes: int, max_lines: int = 200000, extra_patch=None):
    """returns (events, error) — error is None or the exception instance raised by the script"""
    common.fresh_import()
    comm = importlib.import_module("Reduino.Communication")
    utils = importlib.import_module("Reduino.Utils")
    events = []
    orig_write = comm.SerialMonitor.write
    orig_sleep = utils.sleep

    def write(self, value):
        r = orig_write(self, value)
        events.append(("w", r))
        return r

    def sleep(duration, **kw):
        orig_sleep(duration, sleep_func=lambda s: None)
        events.append(("d", duration))

    comm.SerialMonitor.write = write
    utils.sleep = sleep
    act = importlib.import_module("Reduino.Actuators")
    act.sleep = sleep
    if extra_patch:
        extra_patch(events)
    lines = src.split("\n")
    out = []
    for ln in lines:
        if re.match(r"^while\s+True\s*:\s*(#.*)?$", ln):
            out.append(f"for __pass in range({passes}):")
        elif re.match(r"^\s*(from\s+Reduino\s+import\s+target|target\s*\()", ln):
            out.append("pass")
        else:
            out.append(ln)
    code = "\n".join(out)
    count = [0]

    def tracer(frame, event, arg):
        if event == "line":
            count[0] += 1
            if count[0] > max_lines:
                raise StepLimit()
        return tracer

    g = {"__name__": "__reduino_script__"}
    err = None
    old_digits = sys.get_int_max_str_digits()
    sys.set_int_max_str_digits(0)          # str() of a huge int is Python semantics too; the 4300-digit guard is an interpreter setting
    try:
        compiled = compile(code, "<script>", "exec")
        sys.settrace(tracer)
        try:
            exec(compiled, g)
        finally:
            sys.settrace(None)
    except StepLimit as e:
        err = e
    except Exception as e:  # noqa: BLE001
        err = e
    finally:
        comm.SerialMonitor.write = orig_write
        utils.sleep = orig_sleep
        sys.set_int_max_str_digits(old_digits)
    return events, err


def fw_events(trace):
    """serial lines and delays of a firmware trace in the same vocabulary"""
    ev = []
    for l in trace:
        if l.startswith("println x"):
            ev.append(("w", bytes.fromhex(l.split(" ")[1][1:]).decode("utf-8", "replace")))
        elif l.startswith("println g"):
            ev.append(("w", "float:" + l.split(" ")[1]))
        elif l.startswith("println h"):
            ev.append(("w", "double:" + l.split(" ")[1]))
        elif l.startswith("delay "):
            ev.append(("d", int(l.split(" ")[1])))
    return ev
