"""Implementation side of tie H: drive the real host classes with the same request lines the model gets.

Request line grammar is the driver's: <class>|<ctor args>|<op>|<op>…  — values i<int> / f<hex>; a leading
`b` marks a bool so that the real call receives True/False while the model receives 1/0."""
from __future__ import annotations

import struct

from common import enc, f64, showb


def dec(tok: str):
    if tok.startswith("b"):
        return bool(int(tok[1:]))
    if tok.startswith("i"):
        return int(tok[1:])
    if tok.startswith("f"):
        return struct.unpack(">d", bytes.fromhex(tok[1:]))[0]
    raise ValueError(tok)


def model_line(line: str) -> str:
    """bool tokens become ints on the model side"""
    out = []
    for field in line.split("|"):
        out.append(" ".join(("i" + t[1:]) if (t[:1] == "b" and t[1:].lstrip("-").isdigit()) else t for t in field.split(" ")))
    return "|".join(out)


def vals(l):
    return ",".join(enc(v) for v in l)


def excname(e: BaseException) -> str:
    return "raise:" + type(e).__name__


class SleepRec:
    """stands in for `Reduino.Actuators.sleep`: records the requested milliseconds instead of waiting.  It goes through the REAL
    `Reduino.Utils.sleep` (with a no-op `sleep_func`), so whatever that function refuses (negative durations) is refused here too —
    a class that leaves its own validation to it behaves under the harness as it does in production."""

    def __init__(self, real=None):
        self.calls = []
        self.real = real

    def __call__(self, *a, **k):
        if self.real is not None:
            self.real(*a, sleep_func=lambda seconds: None)
        self.calls.append(a[0] if a else None)

    def take(self):
        c, self.calls = self.calls, []
        return c


def run_led(mods, ops):
    Led = mods["Led"]
    rec = mods["rec"]
    obj = Led()
    outs = []
    for o in ops:
        ws = o.split()
        rec.take()
        try:
            k = ws[0]
            a = [dec(t) for t in ws[1:]]
            if k == "on": obj.on()
            elif k == "off": obj.off()
            elif k == "toggle": obj.toggle()
            elif k == "sb": obj.set_brightness(a[0])
            elif k == "blink": obj.blink(a[0], a[1])
            elif k == "fi": obj.fade_in(a[0], a[1])
            elif k == "fo": obj.fade_out(a[0], a[1])
            elif k == "fp": obj.flash_pattern(a[1:], a[0])
            else: raise AssertionError(k)
            r = "ok"
        except (ValueError, TypeError, RuntimeError, ZeroDivisionError) as e:
            r = excname(e)
        outs.append(f"{r} b={obj.get_brightness()} s={showb(obj.get_state())} sl={vals(rec.take())}")
    return "|".join(outs), obj


def col(c):
    return ",".join(str(int(x)) for x in c)


def run_rgb(mods, ctor, ops):
    base = mods["RGBLed"]
    rec = mods["rec"]
    trace = []

    class Traced(base):
        def set_color(self, red, green, blue):
            super().set_color(red, green, blue)
            trace.append(self.get_color())

    try:
        obj = Traced(*[dec(t) for t in ctor.split()])
    except (ValueError, TypeError) as e:
        return excname(e), None
    outs = ["ok"]
    for o in ops:
        ws = o.split()
        rec.take()
        trace.clear()
        try:
            k = ws[0]
            a = [dec(t) for t in ws[1:]]
            if k == "sc": obj.set_color(*a)
            elif k == "on": obj.on(*a)
            elif k == "off": obj.off()
            elif k == "fade": obj.fade(a[0], a[1], a[2], a[3], a[4])
            elif k == "blink": obj.blink(a[0], a[1], a[2], a[3], a[4])
            else: raise AssertionError(k)
            r = "ok"
        except (ValueError, TypeError, RuntimeError, ZeroDivisionError) as e:
            r = excname(e)
        outs.append(f"{r} c={col(obj.get_color())} s={showb(obj.get_state())} sl={vals(rec.take())} tr={';'.join(col(c) for c in trace)}")
    return "|".join(outs), obj


def run_servo(mods, ctor, ops):
    Servo = mods["Servo"]
    a = [dec(t) for t in ctor.split()]
    try:
        obj = Servo(9, min_angle=a[0], max_angle=a[1], min_pulse_us=a[2], max_pulse_us=a[3])
    except (ValueError, TypeError) as e:
        return excname(e), None
    sh = lambda r: f"{r} a={f64(obj.read())} p={f64(obj.read_us())}"
    outs = [sh("ok")]
    for o in ops:
        ws = o.split()
        try:
            v = dec(ws[1])
            if ws[0] == "w": obj.write(v)
            elif ws[0] == "wu": obj.write_us(v)
            else: raise AssertionError(ws)
            r = "ok"
        except (ValueError, TypeError, RuntimeError, ZeroDivisionError) as e:
            r = excname(e)
        outs.append(sh(r))
    return "|".join(outs), obj


def run_motor(mods, ctor, ops):
    base = mods["DCMotor"]
    rec = mods["rec"]
    trace = []

    class Traced(base):
        def set_speed(self, value):
            super().set_speed(value)
            trace.append(self.get_speed())

    try:
        obj = Traced(*[dec(t) for t in ctor.split()])
    except (ValueError, TypeError) as e:
        return excname(e), None
    outs = ["ok"]
    for o in ops:
        ws = o.split()
        rec.take()
        trace.clear()
        try:
            k = ws[0]
            a = [dec(t) for t in ws[1:]]
            if k == "ss": obj.set_speed(a[0])
            elif k == "bw": obj.backward(a[0])
            elif k == "stop": obj.stop()
            elif k == "coast": obj.coast()
            elif k == "inv": obj.invert()
            elif k == "ramp": obj.ramp(a[0], a[1])
            elif k == "rf": obj.run_for(a[0], a[1])
            else: raise AssertionError(k)
            r = "ok"
        except (ValueError, TypeError, RuntimeError, ZeroDivisionError) as e:
            r = excname(e)
        outs.append(f"{r} sp={f64(obj.get_speed())} ap={f64(obj.get_applied_speed())} inv={showb(obj.is_inverted())} "
                    f"m={obj.get_mode()} sl={vals(rec.take())} tr={','.join(f64(x) for x in trace)}")
    return "|".join(outs), obj


def load_actuators():
    """import the real classes from the tree under test and install the sleep recorder"""
    import importlib
    import common
    common.fresh_import()
    act = importlib.import_module("Reduino.Actuators")
    rec = SleepRec(getattr(act, "sleep", None))
    act.sleep = rec
    return {"Led": act.Led, "RGBLed": act.RGBLed, "Servo": act.Servo, "DCMotor": act.DCMotor, "rec": rec, "pkg": act}


def run_line(mods, line: str) -> str:
    f = line.split("|")
    if f[0] == "led":
        return run_led(mods, f[2:])[0]
    if f[0] == "rgb":
        return run_rgb(mods, f[1], f[2:])[0]
    if f[0] == "servo":
        return run_servo(mods, f[1], f[2:])[0]
    if f[0] == "motor":
        return run_motor(mods, f[1], f[2:])[0]
    raise ValueError(line)
