"""pytolean — translate a SMALL, explicitly delimited subset of Python function definitions to Lean 4 text.

The source is obtained with `inspect.getsource` from the imported function object and read with `ast.parse` (no text
scraping).  The translation is literal: nothing is simplified, no invariant is used; what the loop means is proved in
lean/Reduino/GenOb/Layout.lean against the hand-written model.

THE SUBSET  (anything else raises `Unsupported(<ast node kind>, <line in the function>)`)

  def f(p):                         exactly one positional parameter, a `str` (annotations are ignored, no defaults,
      "docstring"                    no decorators); strings are `List Char`
      v1 = False | True | <int >= 0>     initialisers: one state field per local; bool -> Bool, int -> Nat
      ...
      for ch in p:                  | for idx, ch in enumerate(p):        at most one loop, over the parameter
          <statements>
      return <result>

  statements (loop body only)
      v = <bool expr>               v a Bool local initialised before the loop
      v += <int literal >= 0>       v a Nat local initialised before the loop
      if <bool expr>: ... [elif ...] [else: ...]
      continue                      next iteration with the current state
      break                         leave the loop with the current state
      return <result>               leave the function
  bool expr     v | True | False | not e | e and e | e or e | ch == "<one char>" | ch != "<one char>"
  result        v (Nat local) | <str expr>
  str expr      p | p[:idx] | <str expr>.rstrip() | <str expr>.replace("<one char>", "<literal>")
  a function without a loop is a single `return <str expr>`

WHAT IS GENERATED  for a function with a loop named `_indent_of` (Lean name `indentOf`):

  structure indentOf.State           one field per local, in order of initialisation
  def indentOf.go [(p : List Char)] (st : State) [(idx : Nat)] : List Char → Exit State ρ
      structural recursion on the characters still to be read; with `enumerate`, `idx` counts the characters read and the
      parameter `p` is passed along for `p[:idx]`;
      falling off the end of the body and `continue` = `go p st' (idx + 1) rest`; `break` = `.fell st'`;
      `return e` = `.ret e`; the list running out = `.fell st`.  Assignments are carried by substitution into a
      `{ st with f := e }` at the point where the state escapes; an `if` that falls through duplicates the statements
      that follow it into both branches.
  def indentOf (p : List Char) : ρ   := match go p <initial state> 0 p with | .ret v => v | .fell st => <final return>

MEANING OF THE PYTHON PRIMITIVES (trusted, see DESIGN.md W20): str = List Char; `p[:idx]` with 0 <= idx = `List.take`;
`.rstrip()` = `Reduino.Lang.Layout.rstrip`; `.replace(c, s)` with a one-character pattern = `Reduino.Lang.Esc.replaceChar`;
Python's unbounded non-negative int with `+=` of a non-negative literal = Nat.
"""
from __future__ import annotations

import ast
import inspect
import textwrap


class Unsupported(Exception):
    def __init__(self, kind: str, line: int, why: str = "", func: str = ""):
        self.kind, self.line, self.why, self.func = kind, line, why, func
        super().__init__(f"Unsupported({kind}, line {line})" + (f" in {func}" if func else "") + (f": {why}" if why else ""))


LEAN_KEYWORDS = {
    "at", "from", "end", "then", "else", "if", "do", "in", "let", "have", "show", "fun", "match", "with", "where", "by", "open", "section", "namespace",
    "def", "theorem", "instance", "structure", "class", "inductive", "import", "variable", "universe", "return", "for", "mut", "Type", "Prop", "Sort",
    "deriving", "extends", "using", "calc", "example", "abbrev", "private", "protected", "mutual", "set_option",
}
# names the generated text binds itself: a Python local of that name would be captured
RESERVED = {"st", "rest", "v", "Exit", "List", "Char", "Nat", "Bool", "true", "false"}

RSTRIP = "Reduino.Lang.Layout.rstrip"
REPLACE_CHAR = "Reduino.Lang.Esc.replaceChar"


def lean_ident(name: str) -> str:
    if not name.isidentifier() or not name.isascii():
        raise Unsupported("Name", 0, f"identifier {name!r}")
    if name in RESERVED:
        raise Unsupported("Name", 0, f"identifier {name!r} collides with a name the translator binds")
    return f"«{name}»" if name in LEAN_KEYWORDS else name


def lean_name_of(pyname: str) -> str:
    """`_strip_inline_comment` -> `stripInlineComment`"""
    parts = [p for p in pyname.split("_") if p]
    if not parts:
        raise Unsupported("FunctionDef", 0, f"function name {pyname!r}")
    return lean_ident(parts[0] + "".join(p[:1].upper() + p[1:] for p in parts[1:]))


def lean_char(ch: str) -> str:
    table = {"\\": "'\\\\'", "'": "'\\''", "\n": "'\\n'", "\t": "'\\t'", "\r": "'\\r'"}
    if ch in table:
        return table[ch]
    o = ord(ch)
    if 32 <= o < 127:
        return f"'{ch}'"
    if 0xD800 <= o <= 0xDFFF:
        raise Unsupported("Constant", 0, "surrogate code point is not a Lean Char")
    return f"(Char.ofNat {o})"


def lean_chars(s: str) -> str:
    return "[" + ", ".join(lean_char(c) for c in s) + "]"


class _Fn:
    """translation of one function definition"""

    def __init__(self, node: ast.FunctionDef, pyname: str):
        self.node = node
        self.pyname = pyname
        self.name = lean_name_of(pyname)
        self.fields: list[tuple[str, str, str]] = []   # (python name, Lean type, initial value)
        self.param = None
        self.ch = None
        self.idx = None
        self.in_loop = False
        self.result_type = None

    # ------------------------------------------------------------------------------------------ errors
    def bad(self, node, why=""):
        return Unsupported(type(node).__name__, getattr(node, "lineno", 0), why, self.pyname)

    # ------------------------------------------------------------------------------------------ helpers
    def ftype(self, name):
        for n, t, _ in self.fields:
            if n == name:
                return t
        return None

    def result(self, ty, node):
        if self.result_type is None:
            self.result_type = ty
        elif self.result_type != ty:
            raise self.bad(node, f"returns both {self.result_type} and {ty}")

    def one_char(self, node):
        if not (isinstance(node, ast.Constant) and isinstance(node.value, str) and len(node.value) == 1):
            raise self.bad(node, "a one-character string literal is required here")
        try:
            return lean_char(node.value)
        except Unsupported as e:
            raise self.bad(node, e.why) from None

    # ------------------------------------------------------------------------------------------ expressions
    def bool_expr(self, e, env) -> str:
        """-> Lean term of type Bool (parenthesised where needed)"""
        if isinstance(e, ast.Constant) and isinstance(e.value, bool):
            return "true" if e.value else "false"
        if isinstance(e, ast.Name) and isinstance(e.ctx, ast.Load):
            if self.ftype(e.id) == "Bool":
                return env[e.id]
            raise self.bad(e, f"{e.id!r} is not a bool local")
        if isinstance(e, ast.UnaryOp) and isinstance(e.op, ast.Not):
            return "!" + self.atom(self.bool_expr(e.operand, env))
        if isinstance(e, ast.BoolOp) and isinstance(e.op, (ast.And, ast.Or)):
            op = " && " if isinstance(e.op, ast.And) else " || "
            parts = [self.bool_expr(v, env) for v in e.values]
            return "(" + op.join(parts) + ")"
        if isinstance(e, ast.Compare):
            if len(e.ops) != 1 or not isinstance(e.ops[0], (ast.Eq, ast.NotEq)):
                raise self.bad(e, "only `ch == c` / `ch != c`")
            left, right = e.left, e.comparators[0]
            if isinstance(right, ast.Name):
                left, right = right, left
            if not (self.in_loop and isinstance(left, ast.Name) and left.id == self.ch):
                raise self.bad(e, "one side of the comparison must be the loop character")
            return f"({lean_ident(self.ch)} {'==' if isinstance(e.ops[0], ast.Eq) else '!='} {self.one_char(right)})"
        raise self.bad(e, "not a bool expression of the subset")

    @staticmethod
    def atom(t: str) -> str:
        return t if t.startswith("(") or t.startswith("!") or all(c.isalnum() or c in "._«»" for c in t) else f"({t})"

    def str_expr(self, e) -> str:
        """-> Lean term of type List Char"""
        if isinstance(e, ast.Name) and isinstance(e.ctx, ast.Load) and e.id == self.param:
            return lean_ident(self.param)
        if isinstance(e, ast.Subscript) and isinstance(e.ctx, ast.Load):
            s = e.slice
            if (isinstance(e.value, ast.Name) and e.value.id == self.param and isinstance(s, ast.Slice) and s.lower is None and s.step is None
                    and isinstance(s.upper, ast.Name) and self.in_loop and self.idx is not None and s.upper.id == self.idx):
                return f"({lean_ident(self.param)}.take {lean_ident(self.idx)})"
            raise self.bad(e, "only `<parameter>[:<enumerate index>]`")
        if isinstance(e, ast.Call) and isinstance(e.func, ast.Attribute) and not e.keywords:
            recv = self.str_expr(e.func.value)
            if e.func.attr == "rstrip" and not e.args:
                return f"({RSTRIP} {recv})"
            if e.func.attr == "replace" and len(e.args) == 2:
                pat = self.one_char(e.args[0])
                by = e.args[1]
                if not (isinstance(by, ast.Constant) and isinstance(by.value, str)):
                    raise self.bad(by, "the replacement must be a string literal")
                try:
                    return f"({REPLACE_CHAR} {pat} {lean_chars(by.value)} {recv})"
                except Unsupported as u:
                    raise self.bad(by, u.why) from None
            raise self.bad(e, f"method .{e.func.attr}() with {len(e.args)} argument(s)")
        raise self.bad(e, "not a string expression of the subset")

    def result_expr(self, e, env) -> str:
        if isinstance(e, ast.Name) and self.ftype(e.id) == "Nat":
            self.result("Nat", e)
            return env[e.id]
        t = self.str_expr(e)
        self.result("List Char", e)
        return t

    # ------------------------------------------------------------------------------------------ statements of the loop body
    def recurse(self, env) -> str:
        args = [self.state(env)]
        if self.idx is not None:
            args = [lean_ident(self.param)] + args + [f"({lean_ident(self.idx)} + 1)"]
        return f"{self.name}.go " + " ".join(args) + " rest"

    def state(self, env) -> str:
        changed = [(n, env[n]) for n, _, _ in self.fields if env[n] != f"st.{lean_ident(n)}"]
        if not changed:
            return "st"
        return "{ st with " + ", ".join(f"{lean_ident(n)} := {t}" for n, t in changed) + " }"

    def body(self, stmts, env, ind) -> list[str]:
        """-> lines of a Lean term of type `Exit State ρ`: what the rest of this iteration (statements `stmts`, then the
        next iteration) does from the symbolic state `env`"""
        pad = "  " * ind
        if not stmts:
            return [pad + self.recurse(env)]
        s, tail = stmts[0], stmts[1:]
        if isinstance(s, ast.Continue):
            return [pad + self.recurse(env)]
        if isinstance(s, ast.Break):
            return [pad + f".fell {self.atom_state(env)}"]
        if isinstance(s, ast.Return):
            if s.value is None:
                raise self.bad(s, "bare return")
            return [pad + f".ret {self.result_expr(s.value, env)}"]
        if isinstance(s, ast.Assign):
            if len(s.targets) != 1 or not isinstance(s.targets[0], ast.Name):
                raise self.bad(s, "single-name assignment only")
            name = s.targets[0].id
            if self.ftype(name) != "Bool":
                raise self.bad(s, f"{name!r} is not a bool local initialised before the loop")
            env = dict(env)
            env[name] = self.bool_expr(s.value, env)
            return self.body(tail, env, ind)
        if isinstance(s, ast.AugAssign):
            if not (isinstance(s.target, ast.Name) and isinstance(s.op, ast.Add) and self.ftype(s.target.id) == "Nat"):
                raise self.bad(s, "only `<int local> += <literal>`")
            if not (isinstance(s.value, ast.Constant) and type(s.value.value) is int and s.value.value >= 0):
                raise self.bad(s.value, "a non-negative int literal is required here")
            env = dict(env)
            env[s.target.id] = f"{env[s.target.id]} + {s.value.value}"
            return self.body(tail, env, ind)
        if isinstance(s, ast.If):
            cond = self.bool_expr(s.test, env)
            then = self.body(list(s.body) + tail, env, ind + 1)
            other = self.body(list(s.orelse) + tail, env, ind + 1)
            out = [pad + f"if {self.unparen(cond)} then"] + then
            # `else if` chains stay flat
            first = other[0].strip()
            if first.startswith("if ") and other[0].startswith("  " * (ind + 1) + "if "):
                out.append(pad + "else " + first)
                out += [l[2:] for l in other[1:]]
            else:
                out.append(pad + "else")
                out += other
            return out
        raise self.bad(s, "not a statement of the subset")

    def atom_state(self, env) -> str:
        return self.state(env)

    @staticmethod
    def unparen(t: str) -> str:
        """drop one pair of parentheses that encloses the whole term"""
        if not (t.startswith("(") and t.endswith(")")):
            return t
        depth = 0
        for k, c in enumerate(t):
            depth += (c == "(") - (c == ")")
            if depth == 0 and k < len(t) - 1:
                return t
        return t[1:-1]

    # ------------------------------------------------------------------------------------------ the function
    def translate(self) -> str:
        f = self.node
        a = f.args
        if f.decorator_list:
            raise self.bad(f.decorator_list[0], "decorator")
        if isinstance(f, ast.AsyncFunctionDef) or a.posonlyargs or a.kwonlyargs or a.vararg or a.kwarg or a.defaults or len(a.args) != 1:
            raise self.bad(f, "exactly one plain parameter")
        self.param = a.args[0].arg
        stmts = list(f.body)
        if stmts and isinstance(stmts[0], ast.Expr) and isinstance(stmts[0].value, ast.Constant) and isinstance(stmts[0].value.value, str):
            stmts = stmts[1:]                      # docstring
        doc = f"/-- `{self.pyname}` (translated) -/"
        # ---- no loop: a single `return <str expr>`
        if len(stmts) == 1 and isinstance(stmts[0], ast.Return):
            if stmts[0].value is None:
                raise self.bad(stmts[0], "bare return")
            t = self.str_expr(stmts[0].value)
            return f"{doc}\ndef {self.name} ({lean_ident(self.param)} : List Char) : List Char :=\n  {self.unparen(t)}\n"
        # ---- initialisers
        k = 0
        while k < len(stmts) and isinstance(stmts[k], ast.Assign):
            s = stmts[k]
            if len(s.targets) != 1 or not isinstance(s.targets[0], ast.Name) or not isinstance(s.value, ast.Constant):
                raise self.bad(s, "initialiser must be `<name> = <bool or int literal>`")
            name, val = s.targets[0].id, s.value.value
            if name == self.param or self.ftype(name) is not None:
                raise self.bad(s, f"{name!r} initialised twice or shadows the parameter")
            if isinstance(val, bool):
                self.fields.append((name, "Bool", "true" if val else "false"))
            elif type(val) is int and val >= 0:
                self.fields.append((name, "Nat", str(val)))
            else:
                raise self.bad(s.value, "initial value must be a bool or a non-negative int literal")
            k += 1
        if k + 2 != len(stmts) or not isinstance(stmts[k], ast.For) or not isinstance(stmts[k + 1], ast.Return):
            raise self.bad(stmts[k] if k < len(stmts) else f, "expected: initialisers, one `for` loop, one `return`")
        if not self.fields:
            raise self.bad(stmts[k], "a loop without state")
        loop, final = stmts[k], stmts[k + 1]
        if loop.orelse:
            raise self.bad(loop, "for ... else")
        # ---- loop header
        it, tg = loop.iter, loop.target
        if isinstance(it, ast.Name) and it.id == self.param and isinstance(tg, ast.Name):
            self.ch = tg.id
        elif (isinstance(it, ast.Call) and isinstance(it.func, ast.Name) and it.func.id == "enumerate" and len(it.args) == 1 and not it.keywords
              and isinstance(it.args[0], ast.Name) and it.args[0].id == self.param
              and isinstance(tg, ast.Tuple) and len(tg.elts) == 2 and all(isinstance(x, ast.Name) for x in tg.elts)):
            self.idx, self.ch = tg.elts[0].id, tg.elts[1].id
        else:
            raise self.bad(loop, "only `for ch in <parameter>` / `for i, ch in enumerate(<parameter>)`")
        names = [self.param, self.ch] + ([self.idx] if self.idx else []) + [n for n, _, _ in self.fields]
        if len(set(names)) != len(names):
            raise self.bad(loop, "loop variables shadow other names")
        # ---- body and final return
        env0 = {n: f"st.{lean_ident(n)}" for n, _, _ in self.fields}
        self.in_loop = True
        cons = self.body(list(loop.body), env0, 2)
        self.in_loop = False
        if final.value is None:
            raise self.bad(final, "bare return")
        fin = self.result_expr(final.value, env0)
        rho = self.result_type
        p, ch = lean_ident(self.param), lean_ident(self.ch)
        idx_b = f" ({lean_ident(self.idx)} : Nat)" if self.idx else ""
        p_b = f" ({p} : List Char)" if self.idx else ""
        rho_a = rho if " " not in rho else f"({rho})"
        out = [f"structure {self.name}.State where"]
        out += [f"  {lean_ident(n)} : {t}" for n, t, _ in self.fields]
        out += ["", f"/-- the loop of `{self.pyname}`: the state before the characters still to be read ↦ how the loop is left -/",
                f"def {self.name}.go{p_b} (st : {self.name}.State){idx_b} : List Char → Exit {self.name}.State {rho_a}",
                "  | [] => .fell st", f"  | {ch} :: rest =>"]
        out += cons
        init = "{ " + ", ".join(f"{lean_ident(n)} := {v}" for n, _, v in self.fields) + " }"
        st_used = "st" if "st." in fin else "_"
        out += ["", doc, f"def {self.name} ({p} : List Char) : {rho} :=",
                f"  match {self.name}.go{' ' + p if self.idx else ''} {init}{' 0' if self.idx else ''} {p} with",
                "  | .ret v => v", f"  | .fell {st_used} => {fin}", ""]
        return "\n".join(out)


HEADER = """/-- how a translated loop is left: by `return v`, or by `break` / exhaustion with the state `st` -/
inductive Exit (σ ρ : Type) where
  | ret (v : ρ)
  | fell (st : σ)
"""


def function_ast(fn) -> ast.FunctionDef:
    src = textwrap.dedent(inspect.getsource(fn))
    mod = ast.parse(src)
    if len(mod.body) != 1 or not isinstance(mod.body[0], ast.FunctionDef):
        raise Unsupported(type(mod.body[0]).__name__ if mod.body else "Module", 1, "not a plain function definition", getattr(fn, "__name__", "?"))
    return mod.body[0]


def translate_function(fn) -> str:
    """Lean text (structure + go + wrapper, or a single def) of the Python function object `fn`"""
    if not inspect.isfunction(fn):
        raise Unsupported(type(fn).__name__, 0, "not a Python function", getattr(fn, "__name__", "?"))
    return _Fn(function_ast(fn), fn.__name__).translate()


def translate_source(src: str, name: str | None = None) -> str:
    """same, from source text (used by the self-tests)"""
    mod = ast.parse(textwrap.dedent(src))
    defs = [n for n in mod.body if isinstance(n, ast.FunctionDef) and (name is None or n.name == name)]
    if len(defs) != 1:
        raise Unsupported("Module", 1, "expected exactly one function definition")
    return _Fn(defs[0], defs[0].name).translate()


def module_text(namespace: str, functions, imports=()):
    """-> (Lean text, [Unsupported]).  A function outside the subset is left out of the text (a comment says why), so that exactly the
    obligations about it stop building; the caller reports the errors."""
    texts, errors = [], []
    for fn in functions:
        try:
            texts.append(translate_function(fn))
        except Unsupported as e:
            errors.append(e)
            texts.append(f"-- NOT TRANSLATED: `{getattr(fn, '__name__', '?')}` is outside the subset of harness/pytolean.py: {e}\n")
    lines = [f"import {m}" for m in imports]
    lines += [f"namespace {namespace}", ""]
    if any(" Exit " in t for t in texts):
        lines.append(HEADER)
    lines += texts
    lines += [f"end {namespace}", ""]
    return "\n".join(lines), errors


# ------------------------------------------------------------------------------------------------ self-test
_REJECTED = {
    "While": "def f(s):\n    i = 0\n    while i < 3:\n        i += 1\n    return i\n",
    "AugAssign": "def f(s):\n    i = 0\n    for c in s:\n        i -= 1\n    return i\n",
    "Constant": "def f(s):\n    i = 0\n    for c in s:\n        if c == 'ab':\n            i += 1\n    return i\n",
    "For": "def f(s):\n    i = 0\n    for c in s:\n        i += 1\n    else:\n        i += 2\n    return i\n",
    "Assign": "def f(s):\n    i = 0\n    for c in s:\n        j = True\n    return i\n",
    "Name": "def f(s):\n    st = 0\n    for c in s:\n        st += 1\n    return st\n",
    "Compare": "def f(s):\n    i = 0\n    for c in s:\n        if c in ' \\t':\n            i += 1\n    return i\n",
    "Call": "def f(s):\n    return s.strip()\n",
    "Subscript": "def f(s):\n    b = False\n    for k, c in enumerate(s):\n        if c == '#':\n            return s[k:]\n    return s\n",
    "FunctionDef": "def f(s, t):\n    return s\n",
    "Name ": "def f(s):\n    i = 0\n    b = False\n    for c in s:\n        if b:\n            return s\n        i += 1\n    return i\n",
    "Assign ": "def f(s):\n    i = -1\n    for c in s:\n        i += 1\n    return i\n",
}


def selftest(quiet: bool = False) -> int:
    import builtins
    print = (lambda *a, **k: None) if quiet else builtins.print
    bad = 0
    for kind, src in _REJECTED.items():
        try:
            translate_source(src)
            print("selftest: ACCEPTED a function outside the subset:", kind)
            bad += 1
        except Unsupported as e:
            if e.kind != kind.strip():
                print(f"selftest: {kind}: refused as {e}")
                bad += 1
    ok = translate_source("def count(s):\n    n = 0\n    q = False\n    for c in s:\n        if c == '\"':\n            q = not q\n            continue\n        if q or c != ' ':\n            n += 2\n    return n\n")
    if "{ st with n := st.n + 2 }" not in ok or "{ st with q := !st.q }" not in ok:
        print("selftest: unexpected translation\n" + ok)
        bad += 1
    print("selftest:", "ok" if not bad else f"{bad} problem(s)")
    return 1 if bad else 0


if __name__ == "__main__":
    import sys
    sys.exit(selftest())
