"""pytolean — translate a SMALL, explicitly delimited subset of Python function definitions to Lean 4 text.

The source is obtained with `inspect.getsource` from the imported function object and read with `ast.parse` (no text
scraping).  The translation is literal: nothing is simplified, no invariant is used; what the code means is proved in
lean/Reduino/GenOb/{Layout,Escape,Utils}.lean against the hand-written models.

A function is read as one of three SHAPES, named by the generator in harness/extract.py (`translate_function(fn, shape)`):
  "str"    a scan over the characters of one string          (W20: `_indent_of`, `_strip_inline_comment`, `_escape_string_literal`)
  "num"    straight-line arithmetic over Python numbers      (W21: `Utils.map`, `Utils.sleep`)
  "lines"  an index loop `while i < len(lines)` over a list of lines   (W21: `_collect_block`)
The subsets of "num" and "lines" are spelled out after that of "str", at the end of this docstring.

THE SUBSET, shape "str"  (anything else raises `Unsupported(<ast node kind>, <line in the function>)`)

  def f(p):                         exactly one positional parameter, a `str` (annotations are ignored, no defaults,
      "docstring"                    no decorators); strings are `List Char`
      v1 = False | True | <int >= 0>     initialisers: one state field per local; bool -> Bool, int -> Nat
      ...
      for ch in p:                  | for idx, ch in enumerate(p):        at most one loop, over the parameter
          <statements>
      return <result>

  statements (loop body only)
      v = <bool expr>               v a Bool local initialised before the loop
      v += <int literal >= 0>       v a Nat local initialised before the loop
      if <bool expr>: ... [elif ...] [else: ...]
      continue                      next iteration with the current state
      break                         leave the loop with the current state
      return <result>               leave the function
  bool expr     v | True | False | not e | e and e | e or e | ch == "<one char>" | ch != "<one char>"
  result        v (Nat local) | <str expr>
  str expr      p | p[:idx] | <str expr>.rstrip() | <str expr>.replace("<one char>", "<literal>")
  a function without a loop is a single `return <str expr>`

WHAT IS GENERATED  for a function with a loop named `_indent_of` (Lean name `indentOf`):

  structure indentOf.State           one field per local, in order of initialisation
  def indentOf.go [(p : List Char)] (st : State) [(idx : Nat)] : List Char → Exit State ρ
      structural recursion on the characters still to be read; with `enumerate`, `idx` counts the characters read and the
      parameter `p` is passed along for `p[:idx]`;
      falling off the end of the body and `continue` = `go p st' (idx + 1) rest`; `break` = `.fell st'`;
      `return e` = `.ret e`; the list running out = `.fell st`.  Assignments are carried by substitution into a
      `{ st with f := e }` at the point where the state escapes; an `if` that falls through duplicates the statements
      that follow it into both branches.
  def indentOf (p : List Char) : ρ   := match go p <initial state> 0 p with | .ret v => v | .fell st => <final return>

MEANING OF THE PYTHON PRIMITIVES (trusted, see DESIGN.md W20): str = List Char; `p[:idx]` with 0 <= idx = `List.take`;
`.rstrip()` = `Reduino.Lang.Layout.rstrip`; `.replace(c, s)` with a one-character pattern = `Reduino.Lang.Esc.replaceChar`;
Python's unbounded non-negative int with `+=` of a non-negative literal = Nat.

THE SUBSET, shape "num"  (W21)

  def f(p1, ..., pn, *, hook=None):      n >= 1 positional parameters without defaults: Python numbers, the model's `Val α` (int | float over the
      "docstring"                        carrier α); keyword-only parameters must default to None (effect hooks); annotations ignored
      if <cmp>: raise <E>(...)           E in ValueError | TypeError | RuntimeError | ZeroDivisionError; no else   ->  `if c then .error .e else <rest>`
      v = <num expr>                     each local assigned once, never a parameter                                ->  `let v := e` / <rest>
      h = <hook> or <dotted name>        at most once: h is THE EFFECT of the function; no Lean text
      return <num expr>  |  h(<num expr>)     the last statement: `.ok e` — for `h(e)` the result of the translated function is the value handed to the effect
  num expr   parameter | local | int literal (`Val.int n`) | float literal with an integral value, |x| < 2^53 (`Val.flt (Num.ofInt n)`) | -e (`Val.neg`)
             | e + e | e - e | e * e | e / e  (`Val.add/sub/mul/div`) | float(e) (`Val.toFloat`)
             `a / d` only where d is a non-zero literal, or `x - y` after a guard `if x == y: raise ...` (or `y == x`) has been passed: Python raises
             ZeroDivisionError on a zero divisor, `Val.div` does not
  cmp        a == b (`Reduino.Host.Utils.veq`, numbers without NaN) | a != b | a < b (`Val.lt`) | a <= b (`Val.le`) | a > b | a >= b (operands swapped)
  generated  `def f (p1 ... pn : Val α) : Except Exc (Val α)` under `variable {α} [Num α] [LT α] [LE α] … [Div α] [Neg α]` — generic in the float carrier
             exactly as the model is, so the obligation `Gen.Utils.f … = Host.Utils.f …` covers the ordered field of the theorems AND the IEEE `Float` of the driver

THE SUBSET, shape "lines"  (W21)

  def f(lines, n1, ...):                 `lines` (the parameter under `len(...)` in the loop test): a list of str = `List (List Char)`; the others: ints >= 0 = Nat
      c = <nat expr>                     a local the loop does not change: a constant (`let` in the wrapper, a parameter of `f.go`)
      i = <nat expr>                     a local the loop changes with `+=`: a Nat state field; one of them is the loop index
      acc = []   |  acc: List[str] = []  a local the loop `.append`s to: a `List (List Char)` state field
      while i < len(lines):              exactly this test, no else;  then one `return <local> | <local>, <local>, ...`
  loop body  acc.append(<line>) | i += <int literal >= 0> | if <bool>: ... [elif ...] [else: ...] | continue | break | return <result>
  line       lines[i] inside the loop, and only while `i` has not been advanced in this iteration (= `cur`, the head of the lines still to be read);
             lines[<nat expr>] before the loop (= `lines.getD k []`: an index out of range raises IndexError in Python, reads the empty line here)
  nat expr   parameter | constant | Nat local | int literal >= 0 | e + e | g(<line>) with g a shape-"str" function returning a Nat local, translated
             EARLIER IN THE SAME MODULE (the call goes to the translated g: `_indent_of` -> `indentOf`); a callee that was not translated leaves the caller out
  bool       not <line>.strip() (`(Reduino.Lang.Layout.strip l).isEmpty`) | <line>.strip() | not b | b and b | b or b | <nat> <op> <nat>, op in <= < >= > == !=
  checked    every path to the next iteration (falling off the body, `continue`) advances the index by EXACTLY one — so that `while i < len(lines)` with
             `lines[i]` is the structural recursion `f.go … : List (List Char) → Exit State ρ` on `lines[i:]`, started on `lines.drop <initial i>`;
             no parameter is assigned, appended to or otherwise changed in the loop
  generated  `structure f.State` (state fields in order of initialisation), `def f.go (c : Nat)… (st : f.State) : List (List Char) → Exit f.State ρ`,
             `def f (lines : List (List Char)) (n1 … : Nat) : ρ := let c := …; match f.go c… <initial state> (lines.drop <i0>) with | .ret v => v | .fell st => <final return>`
  meaning of the primitives (trusted): list of str = `List (List Char)`; `acc.append(x)` = `acc ++ [x]`; `.strip()` = `Lang.Layout.strip` (the six ASCII blanks, as `.rstrip()`);
  ints are non-negative (`start` is an index; `lines[-1]` is outside the tie)
"""
from __future__ import annotations

import ast
import inspect
import textwrap


class Unsupported(Exception):
    def __init__(self, kind: str, line: int, why: str = "", func: str = ""):
        self.kind, self.line, self.why, self.func = kind, line, why, func
        super().__init__(f"Unsupported({kind}, line {line})" + (f" in {func}" if func else "") + (f": {why}" if why else ""))


LEAN_KEYWORDS = {
    "at", "from", "end", "then", "else", "if", "do", "in", "let", "have", "show", "fun", "match", "with", "where", "by", "open", "section", "namespace",
    "def", "theorem", "instance", "structure", "class", "inductive", "import", "variable", "universe", "return", "for", "mut", "Type", "Prop", "Sort",
    "deriving", "extends", "using", "calc", "example", "abbrev", "private", "protected", "mutual", "set_option",
}
# names the generated text binds itself: a Python local of that name would be captured
RESERVED = {"st", "rest", "v", "Exit", "List", "Char", "Nat", "Bool", "true", "false"}

RSTRIP = "Reduino.Lang.Layout.rstrip"
REPLACE_CHAR = "Reduino.Lang.Esc.replaceChar"


def lean_ident(name: str) -> str:
    if not name.isidentifier() or not name.isascii():
        raise Unsupported("Name", 0, f"identifier {name!r}")
    if name in RESERVED:
        raise Unsupported("Name", 0, f"identifier {name!r} collides with a name the translator binds")
    return f"«{name}»" if name in LEAN_KEYWORDS else name


def lean_name_of(pyname: str) -> str:
    """`_strip_inline_comment` -> `stripInlineComment`"""
    parts = [p for p in pyname.split("_") if p]
    if not parts:
        raise Unsupported("FunctionDef", 0, f"function name {pyname!r}")
    return lean_ident(parts[0] + "".join(p[:1].upper() + p[1:] for p in parts[1:]))


def lean_char(ch: str) -> str:
    table = {"\\": "'\\\\'", "'": "'\\''", "\n": "'\\n'", "\t": "'\\t'", "\r": "'\\r'"}
    if ch in table:
        return table[ch]
    o = ord(ch)
    if 32 <= o < 127:
        return f"'{ch}'"
    if 0xD800 <= o <= 0xDFFF:
        raise Unsupported("Constant", 0, "surrogate code point is not a Lean Char")
    return f"(Char.ofNat {o})"


def lean_chars(s: str) -> str:
    return "[" + ", ".join(lean_char(c) for c in s) + "]"


class _Fn:
    """translation of one function definition"""

    def __init__(self, node: ast.FunctionDef, pyname: str):
        self.node = node
        self.pyname = pyname
        self.name = lean_name_of(pyname)
        self.fields: list[tuple[str, str, str]] = []   # (python name, Lean type, initial value)
        self.param = None
        self.ch = None
        self.idx = None
        self.in_loop = False
        self.result_type = None

    # ------------------------------------------------------------------------------------------ errors
    def bad(self, node, why=""):
        return Unsupported(type(node).__name__, getattr(node, "lineno", 0), why, self.pyname)

    # ------------------------------------------------------------------------------------------ helpers
    def ftype(self, name):
        for n, t, _ in self.fields:
            if n == name:
                return t
        return None

    def result(self, ty, node):
        if self.result_type is None:
            self.result_type = ty
        elif self.result_type != ty:
            raise self.bad(node, f"returns both {self.result_type} and {ty}")

    def one_char(self, node):
        if not (isinstance(node, ast.Constant) and isinstance(node.value, str) and len(node.value) == 1):
            raise self.bad(node, "a one-character string literal is required here")
        try:
            return lean_char(node.value)
        except Unsupported as e:
            raise self.bad(node, e.why) from None

    # ------------------------------------------------------------------------------------------ expressions
    def bool_expr(self, e, env) -> str:
        """-> Lean term of type Bool (parenthesised where needed)"""
        if isinstance(e, ast.Constant) and isinstance(e.value, bool):
            return "true" if e.value else "false"
        if isinstance(e, ast.Name) and isinstance(e.ctx, ast.Load):
            if self.ftype(e.id) == "Bool":
                return env[e.id]
            raise self.bad(e, f"{e.id!r} is not a bool local")
        if isinstance(e, ast.UnaryOp) and isinstance(e.op, ast.Not):
            return "!" + self.atom(self.bool_expr(e.operand, env))
        if isinstance(e, ast.BoolOp) and isinstance(e.op, (ast.And, ast.Or)):
            op = " && " if isinstance(e.op, ast.And) else " || "
            parts = [self.bool_expr(v, env) for v in e.values]
            return "(" + op.join(parts) + ")"
        if isinstance(e, ast.Compare):
            if len(e.ops) != 1 or not isinstance(e.ops[0], (ast.Eq, ast.NotEq)):
                raise self.bad(e, "only `ch == c` / `ch != c`")
            left, right = e.left, e.comparators[0]
            if isinstance(right, ast.Name):
                left, right = right, left
            if not (self.in_loop and isinstance(left, ast.Name) and left.id == self.ch):
                raise self.bad(e, "one side of the comparison must be the loop character")
            return f"({lean_ident(self.ch)} {'==' if isinstance(e.ops[0], ast.Eq) else '!='} {self.one_char(right)})"
        raise self.bad(e, "not a bool expression of the subset")

    @staticmethod
    def atom(t: str) -> str:
        return t if t.startswith("(") or t.startswith("!") or all(c.isalnum() or c in "._«»" for c in t) else f"({t})"

    def str_expr(self, e) -> str:
        """-> Lean term of type List Char"""
        if isinstance(e, ast.Name) and isinstance(e.ctx, ast.Load) and e.id == self.param:
            return lean_ident(self.param)
        if isinstance(e, ast.Subscript) and isinstance(e.ctx, ast.Load):
            s = e.slice
            if (isinstance(e.value, ast.Name) and e.value.id == self.param and isinstance(s, ast.Slice) and s.lower is None and s.step is None
                    and isinstance(s.upper, ast.Name) and self.in_loop and self.idx is not None and s.upper.id == self.idx):
                return f"({lean_ident(self.param)}.take {lean_ident(self.idx)})"
            raise self.bad(e, "only `<parameter>[:<enumerate index>]`")
        if isinstance(e, ast.Call) and isinstance(e.func, ast.Attribute) and not e.keywords:
            recv = self.str_expr(e.func.value)
            if e.func.attr == "rstrip" and not e.args:
                return f"({RSTRIP} {recv})"
            if e.func.attr == "replace" and len(e.args) == 2:
                pat = self.one_char(e.args[0])
                by = e.args[1]
                if not (isinstance(by, ast.Constant) and isinstance(by.value, str)):
                    raise self.bad(by, "the replacement must be a string literal")
                try:
                    return f"({REPLACE_CHAR} {pat} {lean_chars(by.value)} {recv})"
                except Unsupported as u:
                    raise self.bad(by, u.why) from None
            raise self.bad(e, f"method .{e.func.attr}() with {len(e.args)} argument(s)")
        raise self.bad(e, "not a string expression of the subset")

    def result_expr(self, e, env) -> str:
        if isinstance(e, ast.Name) and self.ftype(e.id) == "Nat":
            self.result("Nat", e)
            return env[e.id]
        t = self.str_expr(e)
        self.result("List Char", e)
        return t

    # ------------------------------------------------------------------------------------------ statements of the loop body
    def recurse(self, env) -> str:
        args = [self.state(env)]
        if self.idx is not None:
            args = [lean_ident(self.param)] + args + [f"({lean_ident(self.idx)} + 1)"]
        return f"{self.name}.go " + " ".join(args) + " rest"

    def state(self, env) -> str:
        changed = [(n, env[n]) for n, _, _ in self.fields if env[n] != f"st.{lean_ident(n)}"]
        if not changed:
            return "st"
        return "{ st with " + ", ".join(f"{lean_ident(n)} := {t}" for n, t in changed) + " }"

    def body(self, stmts, env, ind) -> list[str]:
        """-> lines of a Lean term of type `Exit State ρ`: what the rest of this iteration (statements `stmts`, then the
        next iteration) does from the symbolic state `env`"""
        pad = "  " * ind
        if not stmts:
            return [pad + self.recurse(env)]
        s, tail = stmts[0], stmts[1:]
        if isinstance(s, ast.Continue):
            return [pad + self.recurse(env)]
        if isinstance(s, ast.Break):
            return [pad + f".fell {self.atom_state(env)}"]
        if isinstance(s, ast.Return):
            if s.value is None:
                raise self.bad(s, "bare return")
            return [pad + f".ret {self.result_expr(s.value, env)}"]
        if isinstance(s, ast.Assign):
            if len(s.targets) != 1 or not isinstance(s.targets[0], ast.Name):
                raise self.bad(s, "single-name assignment only")
            name = s.targets[0].id
            if self.ftype(name) != "Bool":
                raise self.bad(s, f"{name!r} is not a bool local initialised before the loop")
            env = dict(env)
            env[name] = self.bool_expr(s.value, env)
            return self.body(tail, env, ind)
        if isinstance(s, ast.AugAssign):
            if not (isinstance(s.target, ast.Name) and isinstance(s.op, ast.Add) and self.ftype(s.target.id) == "Nat"):
                raise self.bad(s, "only `<int local> += <literal>`")
            if not (isinstance(s.value, ast.Constant) and type(s.value.value) is int and s.value.value >= 0):
                raise self.bad(s.value, "a non-negative int literal is required here")
            env = dict(env)
            env[s.target.id] = f"{env[s.target.id]} + {s.value.value}"
            return self.body(tail, env, ind)
        if isinstance(s, ast.If):
            cond = self.bool_expr(s.test, env)
            then = self.body(list(s.body) + tail, env, ind + 1)
            other = self.body(list(s.orelse) + tail, env, ind + 1)
            out = [pad + f"if {self.unparen(cond)} then"] + then
            # `else if` chains stay flat
            first = other[0].strip()
            if first.startswith("if ") and other[0].startswith("  " * (ind + 1) + "if "):
                out.append(pad + "else " + first)
                out += [l[2:] for l in other[1:]]
            else:
                out.append(pad + "else")
                out += other
            return out
        raise self.bad(s, "not a statement of the subset")

    def atom_state(self, env) -> str:
        return self.state(env)

    @staticmethod
    def unparen(t: str) -> str:
        """drop one pair of parentheses that encloses the whole term"""
        if not (t.startswith("(") and t.endswith(")")):
            return t
        depth = 0
        for k, c in enumerate(t):
            depth += (c == "(") - (c == ")")
            if depth == 0 and k < len(t) - 1:
                return t
        return t[1:-1]

    # ------------------------------------------------------------------------------------------ the function
    def translate(self) -> str:
        f = self.node
        a = f.args
        if f.decorator_list:
            raise self.bad(f.decorator_list[0], "decorator")
        if isinstance(f, ast.AsyncFunctionDef) or a.posonlyargs or a.kwonlyargs or a.vararg or a.kwarg or a.defaults or len(a.args) != 1:
            raise self.bad(f, "exactly one plain parameter")
        self.param = a.args[0].arg
        stmts = list(f.body)
        if stmts and isinstance(stmts[0], ast.Expr) and isinstance(stmts[0].value, ast.Constant) and isinstance(stmts[0].value.value, str):
            stmts = stmts[1:]                      # docstring
        doc = f"/-- `{self.pyname}` (translated) -/"
        # ---- no loop: a single `return <str expr>`
        if len(stmts) == 1 and isinstance(stmts[0], ast.Return):
            if stmts[0].value is None:
                raise self.bad(stmts[0], "bare return")
            t = self.str_expr(stmts[0].value)
            return f"{doc}\ndef {self.name} ({lean_ident(self.param)} : List Char) : List Char :=\n  {self.unparen(t)}\n"
        # ---- initialisers
        k = 0
        while k < len(stmts) and isinstance(stmts[k], ast.Assign):
            s = stmts[k]
            if len(s.targets) != 1 or not isinstance(s.targets[0], ast.Name) or not isinstance(s.value, ast.Constant):
                raise self.bad(s, "initialiser must be `<name> = <bool or int literal>`")
            name, val = s.targets[0].id, s.value.value
            if name == self.param or self.ftype(name) is not None:
                raise self.bad(s, f"{name!r} initialised twice or shadows the parameter")
            if isinstance(val, bool):
                self.fields.append((name, "Bool", "true" if val else "false"))
            elif type(val) is int and val >= 0:
                self.fields.append((name, "Nat", str(val)))
            else:
                raise self.bad(s.value, "initial value must be a bool or a non-negative int literal")
            k += 1
        if k + 2 != len(stmts) or not isinstance(stmts[k], ast.For) or not isinstance(stmts[k + 1], ast.Return):
            raise self.bad(stmts[k] if k < len(stmts) else f, "expected: initialisers, one `for` loop, one `return`")
        if not self.fields:
            raise self.bad(stmts[k], "a loop without state")
        loop, final = stmts[k], stmts[k + 1]
        if loop.orelse:
            raise self.bad(loop, "for ... else")
        # ---- loop header
        it, tg = loop.iter, loop.target
        if isinstance(it, ast.Name) and it.id == self.param and isinstance(tg, ast.Name):
            self.ch = tg.id
        elif (isinstance(it, ast.Call) and isinstance(it.func, ast.Name) and it.func.id == "enumerate" and len(it.args) == 1 and not it.keywords
              and isinstance(it.args[0], ast.Name) and it.args[0].id == self.param
              and isinstance(tg, ast.Tuple) and len(tg.elts) == 2 and all(isinstance(x, ast.Name) for x in tg.elts)):
            self.idx, self.ch = tg.elts[0].id, tg.elts[1].id
        else:
            raise self.bad(loop, "only `for ch in <parameter>` / `for i, ch in enumerate(<parameter>)`")
        names = [self.param, self.ch] + ([self.idx] if self.idx else []) + [n for n, _, _ in self.fields]
        if len(set(names)) != len(names):
            raise self.bad(loop, "loop variables shadow other names")
        # ---- body and final return
        env0 = {n: f"st.{lean_ident(n)}" for n, _, _ in self.fields}
        self.in_loop = True
        cons = self.body(list(loop.body), env0, 2)
        self.in_loop = False
        if final.value is None:
            raise self.bad(final, "bare return")
        fin = self.result_expr(final.value, env0)
        rho = self.result_type
        p, ch = lean_ident(self.param), lean_ident(self.ch)
        idx_b = f" ({lean_ident(self.idx)} : Nat)" if self.idx else ""
        p_b = f" ({p} : List Char)" if self.idx else ""
        rho_a = rho if " " not in rho else f"({rho})"
        out = [f"structure {self.name}.State where"]
        out += [f"  {lean_ident(n)} : {t}" for n, t, _ in self.fields]
        out += ["", f"/-- the loop of `{self.pyname}`: the state before the characters still to be read ↦ how the loop is left -/",
                f"def {self.name}.go{p_b} (st : {self.name}.State){idx_b} : List Char → Exit {self.name}.State {rho_a}",
                "  | [] => .fell st", f"  | {ch} :: rest =>"]
        out += cons
        init = "{ " + ", ".join(f"{lean_ident(n)} := {v}" for n, _, v in self.fields) + " }"
        st_used = "st" if "st." in fin else "_"
        out += ["", doc, f"def {self.name} ({p} : List Char) : {rho} :=",
                f"  match {self.name}.go{' ' + p if self.idx else ''} {init}{' 0' if self.idx else ''} {p} with",
                "  | .ret v => v", f"  | .fell {st_used} => {fin}", ""]
        return "\n".join(out)


# ================================================================================================ numeric functions (W21)
EXC = {"ValueError": ".valueError", "TypeError": ".typeError", "RuntimeError": ".runtimeError", "ZeroDivisionError": ".zeroDiv"}
VEQ = "Reduino.Host.Utils.veq"
NUM_RESERVED = {"α", "Val", "Num", "Except", "Exc", "Reduino"}
NUM_VARIABLES = ("variable {α : Type} [Num α] [LT α] [LE α] [DecidableLT α] [DecidableLE α]\n"
                 "variable [Add α] [Sub α] [Mul α] [Div α] [Neg α]\n")


class _NumFn:
    """translation of one straight-line function over Python numbers (shape "num", see the module docstring)"""

    def __init__(self, node: ast.FunctionDef, pyname: str):
        self.node, self.pyname = node, pyname
        self.name = lean_name_of(pyname)
        self.params: list[str] = []
        self.hooks: set[str] = set()        # keyword-only parameters with default None
        self.locals: list[str] = []
        self.effect = None                  # the local bound to `<hook> or <dotted name>`
        self.distinct: set[frozenset] = set()   # {x, y} after a passed guard `if x == y: raise`

    def bad(self, node, why=""):
        return Unsupported(type(node).__name__, getattr(node, "lineno", 0), why, self.pyname)

    def ident(self, name, node):
        if name in NUM_RESERVED:
            raise self.bad(node, f"identifier {name!r} collides with a name the translator binds")
        try:
            return lean_ident(name)
        except Unsupported as u:
            raise self.bad(node, u.why) from None

    # ---- expressions -> Lean term of type `Val α`
    def num(self, e) -> str:
        if isinstance(e, ast.Name) and isinstance(e.ctx, ast.Load):
            if e.id in self.params or e.id in self.locals:
                return self.ident(e.id, e)
            raise self.bad(e, f"{e.id!r} is not a number parameter or a local assigned before")
        if isinstance(e, ast.Constant):
            v = e.value
            if type(v) is int:
                return f"(Val.int {v})" if v >= 0 else f"(Val.int ({v}))"
            if type(v) is float and v == v and abs(v) < 2.0 ** 53 and v == int(v):
                return f"(Val.flt (Num.ofInt {int(v)}))" if v >= 0 else f"(Val.flt (Num.ofInt ({int(v)})))"
            raise self.bad(e, "only int literals and float literals with an integral value")
        if isinstance(e, ast.UnaryOp) and isinstance(e.op, ast.USub):
            return f"(Val.neg {self.num(e.operand)})"
        if isinstance(e, ast.BinOp):
            ops = {ast.Add: "Val.add", ast.Sub: "Val.sub", ast.Mult: "Val.mul", ast.Div: "Val.div"}
            if type(e.op) not in ops:
                raise self.bad(e, "only + - * /")
            if isinstance(e.op, ast.Div):
                self.nonzero(e.right, e)
            return f"({ops[type(e.op)]} {self.num(e.left)} {self.num(e.right)})"
        if (isinstance(e, ast.Call) and isinstance(e.func, ast.Name) and e.func.id == "float" and len(e.args) == 1 and not e.keywords
                and "float" not in self.params and "float" not in self.locals):
            return f"(Val.toFloat {self.num(e.args[0])})"
        raise self.bad(e, "not a numeric expression of the subset")

    def nonzero(self, d, at):
        """the divisor must be known to be non-zero: Python raises ZeroDivisionError there, `Val.div` does not"""
        if isinstance(d, ast.Constant) and type(d.value) in (int, float) and d.value != 0:
            return
        if (isinstance(d, ast.BinOp) and isinstance(d.op, ast.Sub) and isinstance(d.left, ast.Name) and isinstance(d.right, ast.Name)
                and frozenset((d.left.id, d.right.id)) in self.distinct):
            return
        raise self.bad(at, "the divisor is neither a non-zero literal nor `x - y` after a guard `if x == y: raise ...`")

    def cond(self, e) -> str:
        if isinstance(e, ast.Compare) and len(e.ops) == 1:
            a, b = self.num(e.left), self.num(e.comparators[0])
            op = type(e.ops[0])
            table = {ast.Eq: f"{VEQ} {a} {b}", ast.NotEq: f"!{VEQ} {a} {b}", ast.Lt: f"Val.lt {a} {b}", ast.LtE: f"Val.le {a} {b}",
                     ast.Gt: f"Val.lt {b} {a}", ast.GtE: f"Val.le {b} {a}"}
            if op in table:
                return table[op]
        raise self.bad(e, "only a single comparison `a <op> b` with == != < <= > >=")

    # ---- statements -> lines of a Lean term of type `Except Exc (Val α)`
    def block(self, stmts, ind) -> list[str]:
        pad = "  " * ind
        if not stmts:
            raise self.bad(self.node, "the function ends without `return <expr>` or a call of its effect")
        s, tail = stmts[0], stmts[1:]
        if isinstance(s, ast.If):
            r = s.body[0] if len(s.body) == 1 else None
            if s.orelse or not isinstance(r, ast.Raise) or r.cause is not None:
                raise self.bad(s, "only `if <comparison>: raise <Error>(...)` without else")
            exc = r.exc.func if isinstance(r.exc, ast.Call) else r.exc
            if not (isinstance(exc, ast.Name) and exc.id in EXC):
                raise self.bad(r, "raises something other than " + "/".join(EXC))
            c = self.cond(s.test)
            cmp = s.test
            if isinstance(cmp.ops[0], ast.Eq) and isinstance(cmp.left, ast.Name) and isinstance(cmp.comparators[0], ast.Name):
                self.distinct.add(frozenset((cmp.left.id, cmp.comparators[0].id)))
            return [pad + f"if {c} then .error {EXC[exc.id]}", pad + "else"] + self.block(tail, ind + 1)
        if isinstance(s, ast.Assign):
            if len(s.targets) != 1 or not isinstance(s.targets[0], ast.Name):
                raise self.bad(s, "single-name assignment only")
            name = s.targets[0].id
            if name in self.params or name in self.hooks or name in self.locals or name == self.effect:
                raise self.bad(s, f"{name!r} is assigned twice or shadows a parameter")
            v = s.value
            if (isinstance(v, ast.BoolOp) and isinstance(v.op, ast.Or) and len(v.values) == 2 and isinstance(v.values[0], ast.Name)
                    and v.values[0].id in self.hooks and self.dotted(v.values[1]) and self.effect is None):
                self.effect = name          # `<hook> or <default callable>`: the effect; no Lean text
                return self.block(tail, ind)
            t = self.num(v)
            self.locals.append(name)
            return [pad + f"let {self.ident(name, s)} := {_Fn.unparen(t)}"] + self.block(tail, ind)
        if isinstance(s, ast.Return):
            if s.value is None or tail:
                raise self.bad(s, "`return <expr>` must be the last statement")
            return [pad + f".ok {self.num(s.value)}"]
        if isinstance(s, ast.Expr) and isinstance(s.value, ast.Call):
            c = s.value
            if not (isinstance(c.func, ast.Name) and c.func.id == self.effect and len(c.args) == 1 and not c.keywords and not tail):
                raise self.bad(s, "only one call `<effect>(<expr>)`, as the last statement")
            return [pad + f".ok {self.num(c.args[0])}"]
        raise self.bad(s, "not a statement of the subset")

    @staticmethod
    def dotted(e) -> bool:
        while isinstance(e, ast.Attribute):
            e = e.value
        return isinstance(e, ast.Name)

    def translate(self) -> str:
        f, a = self.node, self.node.args
        if f.decorator_list:
            raise self.bad(f.decorator_list[0], "decorator")
        if isinstance(f, ast.AsyncFunctionDef) or a.posonlyargs or a.vararg or a.kwarg or a.defaults or not a.args:
            raise self.bad(f, "plain positional parameters without defaults (and keyword-only hooks `=None`)")
        for k, d in zip(a.kwonlyargs, a.kw_defaults):
            if not (isinstance(d, ast.Constant) and d.value is None):
                raise self.bad(k, "a keyword-only parameter must default to None")
            self.hooks.add(k.arg)
        self.params = [x.arg for x in a.args]
        if len(set(self.params) | self.hooks) != len(self.params) + len(self.hooks):
            raise self.bad(f, "duplicate parameter")
        stmts = list(f.body)
        if stmts and isinstance(stmts[0], ast.Expr) and isinstance(stmts[0].value, ast.Constant) and isinstance(stmts[0].value.value, str):
            stmts = stmts[1:]
        body = self.block(stmts, 1)
        ps = " ".join(self.ident(p, f) for p in self.params)
        return "\n".join([f"/-- `{self.pyname}` (translated) -/", f"def {self.name} ({ps} : Val α) : Except Exc (Val α) :="] + body + [""])



# ================================================================================================ index loops over a list of lines (W21)
STRIP = "Reduino.Lang.Layout.strip"
CUR = "cur"


class _LinesFn(_Fn):
    """translation of one function that walks a list of lines with `while i < len(lines)` (shape "lines", see the module docstring)"""

    def __init__(self, node: ast.FunctionDef, pyname: str, known=None):
        super().__init__(node, pyname)
        self.known = known or {}            # python name -> (Lean name, result type) of the `str` functions translated before, same module
        self.lines = None                   # the list parameter
        self.nats: list[str] = []           # the other parameters: non-negative ints
        self.consts: list[tuple[str, str, str]] = []   # locals the loop does not change: (name, type, term)

    def ident(self, name, node):
        if name == CUR:
            raise self.bad(node, f"identifier {name!r} collides with a name the translator binds")
        try:
            return lean_ident(name)
        except Unsupported as u:
            raise self.bad(node, u.why) from None

    def ctype(self, name):
        for n, t, _ in self.consts:
            if n == name:
                return t
        return None

    # ---- expressions
    def line_expr(self, e, env) -> str:
        """-> Lean term of type List Char: `lines[i]` at the loop index (not yet advanced), `lines[<nat>]` before the loop"""
        if isinstance(e, ast.Subscript) and isinstance(e.ctx, ast.Load) and isinstance(e.value, ast.Name) and e.value.id == self.lines and not isinstance(e.slice, ast.Slice):
            if self.in_loop:
                if isinstance(e.slice, ast.Name) and e.slice.id == self.idx and env.get(self.idx) == f"st.{lean_ident(self.idx)}":
                    return CUR
                raise self.bad(e, "inside the loop only `<lines>[<index>]`, read before the index is advanced")
            return f"({self.ident(self.lines, e)}.getD {self.atom(self.nat_expr(e.slice, env))} [])"
        raise self.bad(e, "not a line expression of the subset")

    def nat_expr(self, e, env) -> str:
        if isinstance(e, ast.Constant) and type(e.value) is int and e.value >= 0:
            return str(e.value)
        if isinstance(e, ast.Name) and isinstance(e.ctx, ast.Load):
            if e.id in self.nats or self.ctype(e.id) == "Nat":
                return self.ident(e.id, e)
            if self.ftype(e.id) == "Nat" and e.id in env:
                return env[e.id]
            raise self.bad(e, f"{e.id!r} is not a non-negative int of this function")
        if isinstance(e, ast.BinOp) and isinstance(e.op, ast.Add):
            return f"{self.atom(self.nat_expr(e.left, env))} + {self.atom(self.nat_expr(e.right, env))}"
        if isinstance(e, ast.Call) and isinstance(e.func, ast.Name) and len(e.args) == 1 and not e.keywords:
            lean, rty = self.known.get(e.func.id, (None, None))
            if rty != "Nat":
                raise self.bad(e, f"calls `{e.func.id}`, which is not a translated str -> int function of this module")
            return f"{lean} {self.atom(self.line_expr(e.args[0], env))}"
        raise self.bad(e, "not an int expression of the subset")

    def is_strip(self, e):
        return isinstance(e, ast.Call) and isinstance(e.func, ast.Attribute) and e.func.attr == "strip" and not e.args and not e.keywords

    def bool_expr(self, e, env) -> str:
        if isinstance(e, ast.UnaryOp) and isinstance(e.op, ast.Not):
            if self.is_strip(e.operand):
                return f"({STRIP} {self.atom(self.line_expr(e.operand.func.value, env))}).isEmpty"
            return "!" + self.atom(self.bool_expr(e.operand, env))
        if self.is_strip(e):
            return f"!({STRIP} {self.atom(self.line_expr(e.func.value, env))}).isEmpty"
        if isinstance(e, ast.BoolOp) and isinstance(e.op, (ast.And, ast.Or)):
            op = " && " if isinstance(e.op, ast.And) else " || "
            return "(" + op.join(self.atom(self.bool_expr(v, env)) for v in e.values) + ")"
        if isinstance(e, ast.Compare):
            ops = {ast.LtE: "≤", ast.Lt: "<", ast.GtE: "≥", ast.Gt: ">", ast.Eq: "=", ast.NotEq: "≠"}
            if len(e.ops) != 1 or type(e.ops[0]) not in ops:
                raise self.bad(e, "only a single comparison of ints")
            return f"decide ({self.nat_expr(e.left, env)} {ops[type(e.ops[0])]} {self.nat_expr(e.comparators[0], env)})"
        raise self.bad(e, "not a bool expression of the subset")

    # ---- loop body
    def recurse(self, env) -> str:
        if env[self.idx] != f"st.{lean_ident(self.idx)} + 1":
            raise self.bad(self.loop, f"every path to the next iteration must advance `{self.idx}` by exactly one (found {env[self.idx]!r})")
        cs = "".join(" " + self.ident(n, self.loop) for n, _, _ in self.consts)
        return f"{self.name}.go{cs} {self.state(env)} rest"

    def result_expr(self, e, env) -> str:
        elts = e.elts if isinstance(e, ast.Tuple) else [e]
        terms, types = [], []
        for x in elts:
            if not isinstance(x, ast.Name):
                raise self.bad(x, "the result is a local or a tuple of locals")
            t = self.ftype(x.id) or self.ctype(x.id)
            if t is None or (self.ftype(x.id) and x.id not in env):
                raise self.bad(x, f"{x.id!r} is not a local of this function")
            terms.append(env[x.id] if self.ftype(x.id) else self.ident(x.id, x))
            types.append(t if " " not in t else f"({t})") if len(elts) > 1 else types.append(t)
        self.result(" × ".join(types), e)
        return "(" + ", ".join(terms) + ")" if len(terms) > 1 else terms[0]

    def body(self, stmts, env, ind) -> list[str]:
        if stmts:
            s, tail = stmts[0], stmts[1:]
            if isinstance(s, ast.AugAssign):
                if not (isinstance(s.target, ast.Name) and isinstance(s.op, ast.Add) and self.ftype(s.target.id) == "Nat"
                        and isinstance(s.value, ast.Constant) and type(s.value.value) is int and s.value.value >= 0):
                    raise self.bad(s, "only `<int local> += <literal >= 0>`")
                env = dict(env)
                env[s.target.id] = f"{env[s.target.id]} + {s.value.value}"
                return self.body(tail, env, ind)
            if isinstance(s, ast.Expr):
                c = s.value
                if not (isinstance(c, ast.Call) and isinstance(c.func, ast.Attribute) and c.func.attr == "append" and isinstance(c.func.value, ast.Name)
                        and self.ftype(c.func.value.id) == "List (List Char)" and len(c.args) == 1 and not c.keywords):
                    raise self.bad(s, "only `<list local>.append(<line>)`")
                env = dict(env)
                env[c.func.value.id] = f"{env[c.func.value.id]} ++ [{self.line_expr(c.args[0], env)}]"
                return self.body(tail, env, ind)
            if isinstance(s, ast.Assign):
                raise self.bad(s, "no assignment inside the loop (only `+=` and `.append`)")
        return super().body(stmts, env, ind)

    @staticmethod
    def changed_in(loop) -> set:
        out = set()
        for n in ast.walk(loop):
            if isinstance(n, ast.AugAssign) and isinstance(n.target, ast.Name):
                out.add(n.target.id)
            elif isinstance(n, (ast.Assign, ast.AnnAssign)):
                for t in (n.targets if isinstance(n, ast.Assign) else [n.target]):
                    out |= {x.id for x in ast.walk(t) if isinstance(x, ast.Name)}
            elif isinstance(n, ast.Call) and isinstance(n.func, ast.Attribute) and isinstance(n.func.value, ast.Name) and n.func.attr != "strip":
                out.add(n.func.value.id)
        return out

    def translate(self) -> str:
        f, a = self.node, self.node.args
        if f.decorator_list:
            raise self.bad(f.decorator_list[0], "decorator")
        if isinstance(f, ast.AsyncFunctionDef) or a.posonlyargs or a.kwonlyargs or a.vararg or a.kwarg or a.defaults or len(a.args) < 1:
            raise self.bad(f, "plain positional parameters only")
        stmts = list(f.body)
        if stmts and isinstance(stmts[0], ast.Expr) and isinstance(stmts[0].value, ast.Constant) and isinstance(stmts[0].value.value, str):
            stmts = stmts[1:]
        if len(stmts) < 2 or not isinstance(stmts[-2], ast.While) or not isinstance(stmts[-1], ast.Return) or stmts[-1].value is None:
            raise self.bad(stmts[-2] if len(stmts) >= 2 else f, "expected: initialisers, one `while <i> < len(<lines>)` loop, one `return`")
        loop, final = stmts[-2], stmts[-1]
        self.loop = loop
        t = loop.test
        if not (not loop.orelse and isinstance(t, ast.Compare) and len(t.ops) == 1 and isinstance(t.ops[0], ast.Lt) and isinstance(t.left, ast.Name)
                and isinstance(t.comparators[0], ast.Call) and isinstance(t.comparators[0].func, ast.Name) and t.comparators[0].func.id == "len"
                and len(t.comparators[0].args) == 1 and isinstance(t.comparators[0].args[0], ast.Name) and not t.comparators[0].keywords):
            raise self.bad(loop, "only `while <i> < len(<lines>)` without else")
        self.idx, self.lines = t.left.id, t.comparators[0].args[0].id
        params = [x.arg for x in a.args]
        if self.lines not in params or self.idx in params or len(set(params)) != len(params):
            raise self.bad(loop, "the loop must run over a parameter, with a local index")
        self.param = self.lines
        self.nats = [p for p in params if p != self.lines]
        changed = self.changed_in(loop)
        if self.lines in changed or set(self.nats) & changed:
            raise self.bad(loop, "a parameter is modified inside the loop")
        # ---- initialisers: a local the loop changes is a state field, any other a constant
        for s in stmts[:-2]:
            if isinstance(s, ast.Assign) and len(s.targets) == 1 and isinstance(s.targets[0], ast.Name):
                name, val = s.targets[0].id, s.value
            elif isinstance(s, ast.AnnAssign) and isinstance(s.target, ast.Name) and s.value is not None and s.simple:
                name, val = s.target.id, s.value
            else:
                raise self.bad(s, "initialiser must be `<name> = <int expr>` or `<name> = []`")
            if name in params or self.ftype(name) or self.ctype(name):
                raise self.bad(s, f"{name!r} initialised twice or shadows a parameter")
            self.ident(name, s)
            if isinstance(val, ast.List) and not val.elts:
                ty, term = "List (List Char)", "[]"
            else:
                ty, term = "Nat", self.nat_expr(val, {})
            if name in changed:
                self.fields.append((name, ty, term))
            elif ty == "Nat":
                self.consts.append((name, ty, term))
            else:
                raise self.bad(s, "a list local the loop never appends to")
        if self.ftype(self.idx) != "Nat":
            raise self.bad(loop, f"the index `{self.idx}` must be an int local initialised before the loop and advanced in it")
        unknown = changed - {n for n, _, _ in self.fields}
        if unknown:
            raise self.bad(loop, f"the loop changes {sorted(unknown)}, not initialised before it")
        # ---- body and final return
        env0 = {n: f"st.{lean_ident(n)}" for n, _, _ in self.fields}
        self.in_loop = True
        cons = self.body(list(loop.body), env0, 2)
        self.in_loop = False
        fin = self.result_expr(final.value, env0)
        rho = self.result_type
        rho_a = rho if " " not in rho else f"({rho})"
        ls = self.ident(self.lines, f)
        cb = "".join(f" ({self.ident(n, f)} : {t})" for n, t, _ in self.consts)
        out = [f"structure {self.name}.State where"]
        out += [f"  {lean_ident(n)} : {t}" for n, t, _ in self.fields]
        out += ["", f"/-- the loop of `{self.pyname}`: the state before the lines still to be read (`{self.lines}[{self.idx}:]`, `{CUR}` = `{self.lines}[{self.idx}]`) ↦ how the loop is left -/",
                f"def {self.name}.go{cb} (st : {self.name}.State) : List (List Char) → Exit {self.name}.State {rho_a}",
                "  | [] => .fell st", f"  | {CUR} :: rest =>"]
        out += cons
        init = "{ " + ", ".join(f"{lean_ident(n)} := {v}" for n, _, v in self.fields) + " }"
        i0 = [v for n, _, v in self.fields if n == self.idx][0]
        sig = f"({ls} : List (List Char))" + "".join(f" ({self.ident(n, f)} : Nat)" for n in self.nats)
        out += ["", f"/-- `{self.pyname}` (translated) -/", f"def {self.name} {sig} : {rho} :="]
        out += [f"  let {self.ident(n, f)} := {v}" for n, _, v in self.consts]
        out += [f"  match {self.name}.go{''.join(' ' + self.ident(n, f) for n, _, _ in self.consts)} {init} ({ls}.drop {self.atom(i0)}) with",
                "  | .ret v => v", f"  | .fell {'st' if 'st.' in fin else '_'} => {fin}", ""]
        return "\n".join(out)


HEADER = """/-- how a translated loop is left: by `return v`, or by `break` / exhaustion with the state `st` -/
inductive Exit (σ ρ : Type) where
  | ret (v : ρ)
  | fell (st : σ)
"""


def function_ast(fn) -> ast.FunctionDef:
    src = textwrap.dedent(inspect.getsource(fn))
    mod = ast.parse(src)
    if len(mod.body) != 1 or not isinstance(mod.body[0], ast.FunctionDef):
        raise Unsupported(type(mod.body[0]).__name__ if mod.body else "Module", 1, "not a plain function definition", getattr(fn, "__name__", "?"))
    return mod.body[0]


def _make(shape: str, node, name: str, known=None):
    if shape == "lines":
        return _LinesFn(node, name, known)
    return {"str": _Fn, "num": _NumFn}[shape](node, name)


def translate_function(fn, shape: str = "str", known=None) -> str:
    """Lean text of the Python function object `fn`, read as a function of the given shape (see the module docstring).  `known`: the
    `str` functions of the same module translated before, python name -> (Lean name, result type); it is extended."""
    if not inspect.isfunction(fn):
        raise Unsupported(type(fn).__name__, 0, "not a Python function", getattr(fn, "__name__", "?"))
    t = _make(shape, function_ast(fn), fn.__name__, known)
    text = t.translate()
    if known is not None and shape == "str":
        known[fn.__name__] = (t.name, t.result_type or "List Char")
    return text


def translate_source(src: str, name: str | None = None, shape: str = "str", known=None) -> str:
    """same, from source text (used by the self-tests)"""
    mod = ast.parse(textwrap.dedent(src))
    defs = [n for n in mod.body if isinstance(n, ast.FunctionDef) and (name is None or n.name == name)]
    if len(defs) != 1:
        raise Unsupported("Module", 1, "expected exactly one function definition")
    return _make(shape, defs[0], defs[0].name, known).translate()


def module_text(namespace: str, functions, imports=(), preamble: str = ""):
    """-> (Lean text, [Unsupported]).  `functions`: function objects (shape "str") or pairs (function, shape).  A function outside the
    subset is left out of the text (a comment says why), so that exactly the obligations about it stop building; the caller reports the errors."""
    texts, errors, known = [], [], {}
    for fn in functions:
        fn, shape = fn if isinstance(fn, tuple) else (fn, "str")
        try:
            texts.append(translate_function(fn, shape, known))
        except Unsupported as e:
            errors.append(e)
            texts.append(f"-- NOT TRANSLATED: `{getattr(fn, '__name__', '?')}` is outside the subset of harness/pytolean.py: {e}\n")
    lines = [f"import {m}" for m in imports]
    lines += [f"namespace {namespace}", ""]
    if preamble:
        lines.append(preamble)
    if any(" Exit " in t for t in texts):
        lines.append(HEADER)
    lines += texts
    lines += [f"end {namespace}", ""]
    return "\n".join(lines), errors


# ------------------------------------------------------------------------------------------------ self-test
_REJECTED = {
    "While": "def f(s):\n    i = 0\n    while i < 3:\n        i += 1\n    return i\n",
    "AugAssign": "def f(s):\n    i = 0\n    for c in s:\n        i -= 1\n    return i\n",
    "Constant": "def f(s):\n    i = 0\n    for c in s:\n        if c == 'ab':\n            i += 1\n    return i\n",
    "For": "def f(s):\n    i = 0\n    for c in s:\n        i += 1\n    else:\n        i += 2\n    return i\n",
    "Assign": "def f(s):\n    i = 0\n    for c in s:\n        j = True\n    return i\n",
    "Name": "def f(s):\n    st = 0\n    for c in s:\n        st += 1\n    return st\n",
    "Compare": "def f(s):\n    i = 0\n    for c in s:\n        if c in ' \\t':\n            i += 1\n    return i\n",
    "Call": "def f(s):\n    return s.strip()\n",
    "Subscript": "def f(s):\n    b = False\n    for k, c in enumerate(s):\n        if c == '#':\n            return s[k:]\n    return s\n",
    "FunctionDef": "def f(s, t):\n    return s\n",
    "Name ": "def f(s):\n    i = 0\n    b = False\n    for c in s:\n        if b:\n            return s\n        i += 1\n    return i\n",
    "Assign ": "def f(s):\n    i = -1\n    for c in s:\n        i += 1\n    return i\n",
}


_REJECTED_NUM = {
    "BinOp": "def f(a, b):\n    return a / b\n",                               # divisor not known to be non-zero
    "BinOp ": "def f(a, b):\n    return a ** b\n",
    "Constant": "def f(a):\n    return a * 0.1\n",                             # not an integral float literal
    "If": "def f(a, b):\n    if a < b:\n        return a\n    return b\n",
    "Raise": "def f(a):\n    if a < 0:\n        raise KeyError(a)\n    return a\n",
    "Assign": "def f(a):\n    a = a + 1\n    return a\n",
    "Call": "def f(a):\n    return abs(a)\n",
    "Expr": "def f(a, *, hook=None):\n    hook(a)\n",                          # the effect must be `h = hook or <callable>`
    "Compare": "def f(a, b):\n    if 0 < a < b:\n        raise ValueError()\n    return a\n",
    "FunctionDef": "def f(a, b=1):\n    return a\n",
}


_LINES_OK = ("def blk(ls, s):\n    b = ind(ls[s])\n    k = s + 1\n    out = []\n    while k < len(ls):\n        if not ls[k].strip():\n"
             "            out.append(ls[k]); k += 1; continue\n        if ind(ls[k]) <= b:\n            break\n        out.append(ls[k]); k += 1\n    return out, k\n")
_REJECTED_LINES = {
    "While": _LINES_OK.replace("while k < len(ls)", "while k < 3"),
    "While ": _LINES_OK.replace("out.append(ls[k]); k += 1; continue", "out.append(ls[k]); continue"),          # an iteration that does not advance the index
    "While  ": _LINES_OK.replace("out.append(ls[k]); k += 1\n", "out.append(ls[k]); k += 2\n"),
    "Subscript": _LINES_OK.replace("out.append(ls[k]); k += 1\n", "k += 1; out.append(ls[k])\n"),               # `ls[k]` read after the index moved
    "Subscript ": _LINES_OK.replace("if ind(ls[k]) <= b", "if ind(ls[k + 1]) <= b"),
    "Call": _LINES_OK.replace("ind(ls[k])", "width(ls[k])"),                                                    # not a translated function of the module
    "Assign": _LINES_OK.replace("        if ind(ls[k]) <= b", "        b = 0\n        if ind(ls[k]) <= b"),
    "Expr": _LINES_OK.replace("out.append(ls[k]); k += 1\n", "out.insert(0, ls[k]); k += 1\n"),
}


def selftest(quiet: bool = False) -> int:
    import builtins
    print = (lambda *a, **k: None) if quiet else builtins.print
    bad = 0
    for kind, src in _REJECTED.items():
        try:
            translate_source(src)
            print("selftest: ACCEPTED a function outside the subset:", kind)
            bad += 1
        except Unsupported as e:
            if e.kind != kind.strip():
                print(f"selftest: {kind}: refused as {e}")
                bad += 1
    for kind, src in _REJECTED_NUM.items():
        try:
            translate_source(src, shape="num")
            print("selftest: ACCEPTED a numeric function outside the subset:", kind)
            bad += 1
        except Unsupported as e:
            if e.kind != kind.strip():
                print(f"selftest: num {kind}: refused as {e}")
                bad += 1
    known = {"ind": ("ind", "Nat")}
    for kind, src in _REJECTED_LINES.items():
        try:
            translate_source(src, shape="lines", known=known)
            print("selftest: ACCEPTED a line-walking function outside the subset:", kind)
            bad += 1
        except Unsupported as e:
            if e.kind != kind.strip():
                print(f"selftest: lines {kind}: refused as {e}")
                bad += 1
    ok = translate_source(_LINES_OK, shape="lines", known=known)
    if ("blk.go b { st with k := st.k + 1, out := st.out ++ [cur] } rest" not in ok or "else if decide (ind cur ≤ b) then" not in ok
            or "match blk.go b { k := s + 1, out := [] } (ls.drop (s + 1)) with" not in ok or "| .fell st => (st.out, st.k)" not in ok):
        print("selftest: unexpected translation\n" + ok)
        bad += 1
    ok = translate_source("def g(a, b, c, *, out=None):\n    if b == a:\n        raise TypeError('x')\n    q = (c - 2) / (a - b)\n    emit = out or print\n    emit(float(q) / 2.0)\n", shape="num")
    if ("if Reduino.Host.Utils.veq b a then .error .typeError" not in ok or "let q := Val.div (Val.sub c (Val.int 2)) (Val.sub a b)" not in ok
            or ".ok (Val.div (Val.toFloat q) (Val.flt (Num.ofInt 2)))" not in ok):
        print("selftest: unexpected translation\n" + ok)
        bad += 1
    ok = translate_source("def count(s):\n    n = 0\n    q = False\n    for c in s:\n        if c == '\"':\n            q = not q\n            continue\n        if q or c != ' ':\n            n += 2\n    return n\n")
    if "{ st with n := st.n + 2 }" not in ok or "{ st with q := !st.q }" not in ok:
        print("selftest: unexpected translation\n" + ok)
        bad += 1
    print("selftest:", "ok" if not bad else f"{bad} problem(s)")
    return 1 if bad else 0


if __name__ == "__main__":
    import sys
    sys.exit(selftest())
