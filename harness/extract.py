"""Regenerate lean/Reduino/Gen/*.lean from the CURRENT /repo/src by importing the modules (no text scraping).

Every generated constant has a hand-written twin in the model (`Ref`-side definitions used by the theorems)
and an obligation `gen_X : Gen.X = <twin> := by decide` in Reduino/GenOb/*.lean, so a table edit in /repo
breaks a named proof obligation."""
from __future__ import annotations

import inspect
import json
from pathlib import Path

import common


def lstr(s: str) -> str:
    out = ['"']
    for ch in s:
        o = ord(ch)
        if ch == '"':
            out.append('\\"')
        elif ch == "\\":
            out.append("\\\\")
        elif ch == "\n":
            out.append("\\n")
        elif ch == "\t":
            out.append("\\t")
        elif ch == "\r":
            out.append("\\r")
        elif o < 32 or o == 127:
            out.append("\\x%02x" % o)
        else:
            out.append(ch)
    out.append('"')
    return "".join(out)


def llist(items, f=lstr, per_line=6) -> str:
    items = [f(i) for i in items]
    if not items:
        return "[]"
    rows = [", ".join(items[i:i + per_line]) for i in range(0, len(items), per_line)]
    return "[" + ",\n   ".join(rows) + "]"


def gen_host() -> str:
    from Reduino.Actuators.DCMotor import DCMotor
    import importlib; lcdmod = importlib.import_module("Reduino.Displays.LCD")
    us = importlib.import_module("Reduino.Sensors.Ultrasonic")
    import Reduino.Core as core
    L = lcdmod.LCD
    lines = ["namespace Reduino.Gen", ""]
    lines.append(f"def rampSteps : Int := {int(DCMotor._RAMP_STEPS)}")
    lines.append(f"def alignOptions : List String := {llist(sorted(lcdmod._ALIGN_OPTIONS))}")
    lines.append(f"def progressStyles : List (String × String) := {llist(sorted(L._PROGRESS_STYLES.items()), lambda kv: '(' + lstr(kv[0]) + ', ' + lstr(kv[1]) + ')')}")
    lines.append(f"def animationOptions : List String := {llist(sorted(L._ANIMATION_OPTIONS))}")
    lines.append(f"def sensorModels : List String := {llist(sorted(us._SENSOR_MODELS))}")
    lines.append(f"def coreConsts : List (String × String) := {llist([(k, repr(getattr(core, k))) for k in ['INPUT', 'OUTPUT', 'INPUT_PULLUP', 'HIGH', 'LOW']], lambda kv: '(' + lstr(kv[0]) + ', ' + lstr(kv[1]) + ')')}")
    lines += ["", "end Reduino.Gen", ""]
    return "\n".join(lines)


def gen_pio() -> str:
    import importlib
    pio = importlib.import_module("Reduino.toolchain.pio")
    lines = ["namespace Reduino.Gen", ""]
    plats = list(pio.SUPPORTED_PLATFORMS.items())
    for i, (name, boards) in enumerate(plats):
        lines.append(f"def boards{i} : List String := {llist(sorted(boards))}")
    reg = ", ".join(f"({lstr(name)}, boards{i})" for i, (name, _) in enumerate(plats))
    lines.append(f"def registry : List (String × List String) := [{reg}]")
    lines.append(f"def pioIniTemplate : String := {lstr(pio.PIO_INI)}")
    lines += ["", "end Reduino.Gen", ""]
    return "\n".join(lines)


def dec_ratio(text: str):
    """'783.99f' -> (78399, 100): the decimal literal the C++ compiler reads"""
    from fractions import Fraction
    t = text.rstrip("f")
    if "e" in t.lower():
        raise ValueError("exponent literal " + text)
    whole, _, frac = t.partition(".")
    den = 10 ** len(frac)
    fr = Fraction(int(whole + frac), den)   # normalise 392.0 -> 392/1
    return fr.numerator, fr.denominator


def gen_buzzer() -> str:
    import importlib
    em = importlib.import_module("Reduino.transpile.emitter")
    pa = importlib.import_module("Reduino.transpile.parser")
    rat = lambda x: "(%d, %d)" % dec_ratio(em._format_float(x))
    lines = ["import Reduino.Fw.Buzzer", "namespace Reduino.Gen", "open Reduino.Fw", ""]
    ents = []
    for name, data in em._BUZZER_MELODIES.items():
        notes = ", ".join("(%s, %s)" % (rat(f) if f else "(0, 1)", rat(b)) for f, b in data["sequence"])
        ents.append("(%s, ⟨%s, [%s]⟩)" % (lstr(name), rat(data["tempo"]), notes))
    lines.append("def melodies : List (String × Score) :=\n  [" + ",\n   ".join(ents) + "]")
    lines.append(f"def parserMelodyNames : List String := {llist(sorted(pa._BUZZER_MELODIES))}")
    lines += ["", "end Reduino.Gen", ""]
    return "\n".join(lines)


def gen_ops() -> str:
    """the transpiler's operator tables `_BIN`, `_UN`, `_CMP`, keyed by the name of the `ast` operator class, in table order"""
    import importlib
    pa = importlib.import_module("Reduino.transpile.parser")
    pair = lambda kv: "(" + lstr(kv[0].__name__) + ", " + lstr(kv[1]) + ")"
    lines = ["namespace Reduino.Gen.Ops", ""]
    for name, table in (("bin", pa._BIN), ("un", pa._UN), ("cmp", pa._CMP)):
        lines.append(f"def {name} : List (String × String) := {llist(list(table.items()), pair)}")
    lines += ["", "end Reduino.Gen.Ops", ""]
    return "\n".join(lines)


def gen_eval() -> str:
    """the transpile-time evaluator's whitelists: `_SAFE_CASTS` (callables it may apply to a constant) and `_SAFE_NAME_REFERENCES`
    (names `_expr_has_name` does not count as variables), sorted"""
    import importlib
    pa = importlib.import_module("Reduino.transpile.parser")
    lines = ["namespace Reduino.Gen.Eval", ""]
    lines.append("def safeCasts : List String := " + llist(sorted(pa._SAFE_CASTS)))
    lines.append("/-- the Python callable behind each cast name, by its own `__name__` (a cast bound to anything but the builtin of that name is a change of meaning) -/")
    lines.append("def safeCastTargets : List (String × String) := " + llist(sorted((k, getattr(v, "__name__", repr(v))) for k, v in pa._SAFE_CASTS.items()), lambda kv: "(" + lstr(kv[0]) + ", " + lstr(kv[1]) + ")"))
    lines.append("def safeNames : List String := " + llist(sorted(pa._SAFE_NAME_REFERENCES)))
    lines += ["", "end Reduino.Gen.Eval", ""]
    return "\n".join(lines)


def gen_types() -> str:
    """`_BUILTIN_CALL_RETURN_TYPES` of the parser: the type `_infer_expr_type` gives a call of a builtin (C02)"""
    import importlib
    pa = importlib.import_module("Reduino.transpile.parser")
    table = pa._BUILTIN_CALL_RETURN_TYPES
    if not all(isinstance(k, str) and isinstance(v, str) for k, v in table.items()):
        raise ValueError("_BUILTIN_CALL_RETURN_TYPES is not a str -> str table")
    lines = ["namespace Reduino.Gen", ""]
    lines.append(f"def builtinReturn : List (String × String) := {llist(sorted(table.items()), lambda kv: '(' + lstr(kv[0]) + ', ' + lstr(kv[1]) + ')', per_line=4)}")
    lines += ["", "end Reduino.Gen", ""]
    return "\n".join(lines)


def probe_bindings(max_shapes=None):
    """black-box table of what the transpiler does with every call shape Python accepts (C08):
    [(cls, meth, params, [(npos, kws, outcome, unseen)])] — outcome 'reject' | 'ok'; `unseen` = provided parameters whose
    value does not influence the generated C++ (measured by varying that one value)"""
    import random
    import bindprobe
    import cxx
    rng = random.Random(0)
    out = []
    for cls, meth, params in bindprobe.callables():
        if (cls, meth) == ("LCD", "__init__"):
            params = [(n, k, d and n not in ("rs", "en", "d4", "d5", "d6", "d7")) for n, k, d in params]
        v1 = {n: bindprobe.values_for(cls, meth, n)[0] for n, _, _ in params}
        cache = {}

        def text(npos, kws, vals):
            key = (npos, tuple(kws), tuple(sorted(vals.items())))
            if key not in cache:
                src = bindprobe.call_text(cls, meth, params, (None, npos, tuple(kws)), vals)
                cpp, exc = cxx.transpile(src)
                cache[key] = cpp if cpp is not None else "reject:" + type(exc).__name__
            return cache[key]

        pos = [n for n, k, _ in params if k == "pos"]
        rows = []
        seen_shapes = set()
        for names, k, order in bindprobe.shapes(params, rng, max_perm=1):
            kws = tuple(n for n, _, _ in params if n in order)      # signature order = canonical keyword order
            if (k, kws) in seen_shapes:
                continue
            seen_shapes.add((k, kws))
            base = text(k, kws, v1)
            if base.startswith("reject"):
                rows.append((k, kws, "reject", ()))
                continue
            unseen = []
            given = list(pos[:k]) + list(kws)
            for n in given:
                cond = bindprobe.RELEVANT_IF.get((cls, meth, n))
                if cond is not None and not any(c in given for c in cond):
                    continue        # Python's own result does not depend on this parameter in this shape
                if any(c in given for c in bindprobe.IRRELEVANT_IF.get((cls, meth, n), [])):
                    continue
                v2 = dict(v1); v2[n] = bindprobe.values_for(cls, meth, n)[1]
                if text(k, kws, v2) == base:
                    unseen.append(n)
            rows.append((k, kws, "ok", tuple(unseen)))
        out.append((cls, meth, params, rows))
    return out


def gen_bind() -> str:
    lines = ["import Reduino.Lang.Bind", "namespace Reduino.Gen.Bind", "open Reduino.Lang.Bind", ""]
    b = lambda x: "true" if x else "false"
    names = []
    for cls, meth, params, rows in probe_bindings():
        ident = f"{cls}_{meth.strip('_')}"
        names.append(ident)
        ps = ", ".join(f"⟨{lstr(n)}, {b(k == 'kwonly')}, {b(d)}⟩" for n, k, d in params)
        lines.append(f"def sig_{ident} : Sig := [{ps}]")
        ents = ",\n   ".join(f"⟨⟨{k}, {llist(list(kws), per_line=20)}⟩, {b(o == 'reject')}, {llist(list(u), per_line=20)}⟩" for k, kws, o, u in rows)
        lines.append(f"def table_{ident} : Table :=\n  [{ents}]")
    lines.append("def names : List String := " + llist(names))
    lines += ["", "end Reduino.Gen.Bind", ""]
    return "\n".join(lines)


def gen_layout() -> str:
    """TRANSLATED (harness/pytolean.py), not extracted: the character-level layout functions of the parser as Lean definitions (C07).
    A function outside the translator's subset (pytolean.Unsupported) is left out of the text and reported as a broken obligation by `regenerate`."""
    import importlib
    import pytolean
    if pytolean.selftest(quiet=True):
        raise RuntimeError("harness/pytolean.py fails its self-test (run it as a script)")
    pa = importlib.import_module("Reduino.transpile.parser")
    return pytolean.module_text("Reduino.Gen.Layout", [pa._indent_of, pa._strip_inline_comment, (pa._collect_block, "lines")], imports=["Reduino.Lang.Layout"])


def gen_escape() -> str:
    """TRANSLATED (harness/pytolean.py): `_escape_string_literal` of the parser (C06)"""
    import importlib
    import pytolean
    pa = importlib.import_module("Reduino.transpile.parser")
    return pytolean.module_text("Reduino.Gen.Escape", [pa._escape_string_literal], imports=["Reduino.Lang.Escape"])


def gen_utils() -> str:
    """TRANSLATED (harness/pytolean.py, shape "num"): `Reduino.Utils.map` and `Reduino.Utils.sleep` as Lean definitions over the model's own
    number type `Val α`, generic in the float carrier `α` exactly as `Host.Utils.map` / `Host.Utils.sleep` are (C20)"""
    import importlib
    import pytolean
    if pytolean.selftest(quiet=True):
        raise RuntimeError("harness/pytolean.py fails its self-test (run it as a script)")
    ut = importlib.import_module("Reduino.Utils")
    return pytolean.module_text("Reduino.Gen.Utils", [(ut.map, "num"), (ut.sleep, "num")], imports=["Reduino.Host.Core"],
                                preamble="open Reduino\n" + pytolean.NUM_VARIABLES)


GENERATORS = {"Layout": gen_layout, "Escape": gen_escape, "Utils": gen_utils, "Host": gen_host, "Pio": gen_pio, "Buzzer": gen_buzzer, "Bind": gen_bind, "Ops": gen_ops, "Eval": gen_eval, "Types": gen_types}
# generators that are slow (they probe the transpiler) run only for the checks that need them, and in setup
# translated functions are regenerated for the check whose theorems rest on them (an untranslatable source breaks THAT check's obligation)
NEEDS = {"Bind": {"C08"}, "Layout": {"C07"}, "Escape": {"C06"}, "Utils": {"C20"}}


def regenerate(ctx=None, only=None):
    if ctx is not None and only is None:
        only = [g for g in GENERATORS if g not in NEEDS or ctx.pid in NEEDS[g]]
    common.fresh_import()
    out_dir = common.LEAN / "Reduino" / "Gen"
    out_dir.mkdir(parents=True, exist_ok=True)
    changed = []
    for name, fn in GENERATORS.items():
        if only and name not in only:
            continue
        errors = []
        try:
            text = fn()
            if isinstance(text, tuple):     # a translator: the text without the functions it could not translate, and why
                text, errors = text
            text = "-- GENERATED by harness/extract.py from /repo/src on every run. Do not edit.\n" + text
        except Exception as e:  # the source no longer has the shape the extractor reads
            if ctx is not None:
                ctx.broken.append(f"extract {name}: {type(e).__name__}: {e}")
                continue
            raise
        path = out_dir / f"{name}.lean"
        if not path.exists() or path.read_text() != text:
            path.write_text(text)
            changed.append(name)
        for e in errors:                 # after writing: the obligations about the missing definitions stop building, too
            if ctx is None:
                raise e
            ctx.broken.append(f"translate {name}: {e}")
    return changed


if __name__ == "__main__":
    print(regenerate())
