"""Shared machinery for every check: Lean build + audit, model driver, evidence, violation protocol."""
from __future__ import annotations

import fcntl
import hashlib
import json
import os
import random
import re
import shutil
import struct
import subprocess
import sys
import time
from pathlib import Path

VERIF = Path(__file__).resolve().parent.parent
LEAN = VERIF / "lean"
REPO = Path(os.environ.get("REDUINO_REPO", "/repo"))
SRC = REPO / "src"
PY = "/venv/bin/python"
ALLOWED_AXIOMS = {"propext", "Classical.choice", "Quot.sound"}
FORBIDDEN = re.compile(r"\b(sorry|admit|native_decide|bv_decide|implemented_by|unsafe)\b|^axiom |maxHeartbeats 0")

os.environ.setdefault("REDUINO_VERIF", "1")


class ToolFailure(Exception):
    pass


def f64(x: float) -> str:
    return "f" + struct.pack(">d", float(x)).hex()


def f32(x: float) -> str:
    return "g" + struct.pack(">f", float(x)).hex()


def enc(v) -> str:
    """Wire encoding of a Python number (bool -> int)."""
    if isinstance(v, bool):
        return "i1" if v else "i0"
    if isinstance(v, int):
        return f"i{v}"
    if isinstance(v, float):
        return f64(v)
    raise TypeError(v)


def showb(b) -> str:
    return "T" if b else "F"


def hexs(s: str) -> str:
    """strings cross the wire hex-encoded (utf-8)"""
    return "x" + s.encode("utf-8").hex()


class Lean:
    """lake build / audit / driver, serialised by a file lock."""

    def __init__(self):
        self.lock_path = LEAN / ".lock"

    def _locked(self):
        fh = open(self.lock_path, "w")
        fcntl.flock(fh, fcntl.LOCK_EX)
        return fh

    def build(self, targets: list[str], timeout=1500) -> tuple[bool, str]:
        fh = self._locked()
        try:
            p = subprocess.run(["lake", "build", *targets], cwd=LEAN, capture_output=True, text=True, timeout=timeout)
            return p.returncode == 0, p.stdout + p.stderr
        except subprocess.TimeoutExpired as e:
            raise ToolFailure(f"lake build timeout: {targets}") from e
        finally:
            fh.close()

    def run_file(self, path: Path, timeout=600) -> tuple[int, str]:
        p = subprocess.run(["lake", "env", "lean", str(path)], cwd=LEAN, capture_output=True, text=True, timeout=timeout)
        return p.returncode, p.stdout + p.stderr

    def drive(self, lines: list[str], timeout=900) -> list[str]:
        if not lines:
            return []
        for l in lines:
            if "\n" in l:
                raise ToolFailure("newline in request")
        p = subprocess.run(["lake", "env", "lean", "--run", "Driver.lean"], cwd=LEAN,
                           input="\n".join(lines) + "\n", capture_output=True, text=True, timeout=timeout)
        if p.returncode != 0:
            raise ToolFailure("driver failed: " + p.stderr[-2000:])
        out = p.stdout.split("\n")
        if out and out[-1] == "":
            out.pop()
        if len(out) != len(lines):
            raise ToolFailure(f"driver answered {len(out)} lines for {len(lines)} requests")
        return out


def theorem_names(lean_file: Path) -> list[str]:
    names = []
    ns = []
    for line in lean_file.read_text().splitlines():
        m = re.match(r"^namespace\s+(\S+)", line)
        if m:
            ns.append(m.group(1))
        m = re.match(r"^end\s+(\S+)", line)
        if m and ns and ns[-1] == m.group(1):
            ns.pop()
        m = re.match(r"^(?:@\[[^\]]*\]\s*)?theorem\s+(\S+)", line)
        if m:
            names.append(".".join(ns + [m.group(1)]))
    return names


def strip_comments(text: str) -> str:
    text = re.sub(r"/-.*?-/", "", text, flags=re.S)
    return re.sub(r"--.*", "", text)


class Ctx:
    def __init__(self, pid: str, tier: str, seed: int):
        self.pid = pid
        self.tier = tier
        self.seed = seed
        self.t0 = time.time()
        self.rng = random.Random(f"{seed}:{pid}")
        self.lean = Lean()
        self.work = VERIF / ".work" / f"{pid}-{os.getpid()}"
        self.work.mkdir(parents=True, exist_ok=True)
        self.obligations: list[str] = []
        self.discharged: list[str] = []
        self.broken: list[str] = []          # names of obligations / ties that no longer check
        self.tie_diffs: list[dict] = []      # model vs implementation disagreements
        self.failures: list[dict] = []       # property failures on the real code
        self.known_hits: dict[str, str] = {}
        self.cov: dict = {"evaluations": 0, "traces_validated_against_impl": 0, "samples": [], "histogram": {}}
        self.distinct: set = set()
        self.assumptions: list[str] = []
        self.notes: list[str] = []
        kf = VERIF / "KNOWN_FINDINGS.json"
        self.known = json.loads(kf.read_text())["findings"] if kf.exists() else []

    # ---- budgets -------------------------------------------------------------------------
    def n(self, quick: int, thorough: int) -> int:
        k = thorough if self.tier == "thorough" else quick
        return k * 5 if self.broken or self.tie_diffs else k

    # ---- bookkeeping -----------------------------------------------------------------------
    def count(self, key: str, k: int = 1):
        h = self.cov["histogram"]
        h[key] = h.get(key, 0) + k

    def case(self, canon: str, nontrivial: bool = True, sample=None):
        self.cov["evaluations"] += 1
        if nontrivial:
            self.distinct.add(hashlib.sha1(canon.encode()).digest()[:8])
        if sample is not None and len(self.cov["samples"]) < 6:
            self.cov["samples"].append(sample)

    def tie_diff(self, tie: str, request, model, impl):
        if len(self.tie_diffs) < 50:
            self.tie_diffs.append({"tie": tie, "request": request, "model": model, "impl": impl})
        if tie not in self.broken:
            self.broken.append(tie)

    def is_known(self, key: str) -> bool:
        return any(k["property"] == self.pid and k.get("status") == "open" and re.fullmatch(k["key"], key) for k in self.known)

    def fail(self, key: str, what: str, replay: dict):
        """A failure of the PROPERTY on the real code.  `key` identifies the finding class."""
        for k in self.known:
            if k["property"] == self.pid and k.get("status") == "open" and re.fullmatch(k["key"], key):
                self.known_hits[k["id"]] = k["what"]
                return
        if len(self.failures) < 60 and sum(1 for f in self.failures if f["key"] == key) < 3:      # a few per class, so that one class cannot hide another
            self.failures.append({"key": key, "what": what, "replay": replay})

    # ---- lean obligations ----------------------------------------------------------------------
    def prove(self, modules: list[str]):
        """Build the property's theorem modules, audit axioms, record obligations."""
        files = [LEAN / (m.replace(".", "/") + ".lean") for m in modules]
        names = []
        for f, m in zip(files, modules):
            if not f.exists():
                raise ToolFailure(f"missing {f}")
            txt = strip_comments(f.read_text())
            for i, line in enumerate(txt.splitlines()):
                if FORBIDDEN.search(line):
                    self.broken.append(f"forbidden construct in {m}: {line.strip()[:80]}")
            names += theorem_names(f)
        self.obligations += names
        ok, log = self.lean.build(modules + ["Reduino.Driver.All"])
        if not ok:
            failed = sorted(set(re.findall(r"error: (\S+\.lean:\d+:\d+)", log)))
            # which theorems fail: map error lines to the enclosing theorem
            bad = set()
            for loc in failed:
                path, ln, _ = loc.rsplit(":", 2)
                bad.add(self._enclosing_theorem(LEAN / path, int(ln)))
            if not bad:
                bad.add("lake build")
            for b in sorted(bad):
                self.broken.append(f"obligation {b}")
            (self.work / "build.log").write_text(log)
            self.notes.append("build log tail: " + log[-1500:])
            # driver must still build for the ties
            ok2, log2 = self.lean.build(["Reduino.Driver.All"])
            if not ok2:
                raise ToolFailure("driver does not build: " + log2[-1500:])
            self.discharged += [n for n in names if not any(n.split(".")[-1] in b for b in bad)]
            return
        # axiom audit
        audit = self.work / "Audit.lean"
        audit.write_text("".join(f"import {m}\n" for m in modules) + "".join(f"#print axioms {n}\n" for n in names))
        rc, out = self.lean.run_file(audit)
        if rc != 0:
            raise ToolFailure("axiom audit failed: " + out[-1500:])
        blocks = re.split(r"(?m)^'", out)
        seen = {}
        for b in blocks:
            m = re.match(r"([^']+)' (depends on axioms: \[([^\]]*)\]|does not depend on any axioms)", b, flags=re.S)
            if m:
                axs = set(a.strip() for a in (m.group(3) or "").replace("\n", " ").split(",") if a.strip())
                seen[m.group(1)] = axs
        for n in names:
            if n not in seen:
                self.broken.append(f"obligation {n} (not found by audit)")
            elif not seen[n] <= ALLOWED_AXIOMS:
                self.broken.append(f"obligation {n} uses axioms {sorted(seen[n] - ALLOWED_AXIOMS)}")
            else:
                self.discharged.append(n)
        # thorough tier: the toolchain's independent re-checker replays the compiled property (and lemma) modules through the kernel
        if self.tier == "thorough":
            mods = list(modules) + [m.replace(".Props.", ".Lemmas.") for m in modules if (LEAN / (m.replace(".Props.", ".Lemmas.").replace(".", "/") + ".lean")).exists()]
            pr = subprocess.run(["lake", "env", "leanchecker", *mods], cwd=LEAN, capture_output=True, text=True, timeout=3600)
            self.cov["leanchecker"] = {"modules": mods, "rc": pr.returncode}
            if pr.returncode != 0:
                self.broken.append("leanchecker rejects " + " ".join(mods) + ": " + (pr.stdout + pr.stderr)[-300:])

    @staticmethod
    def _enclosing_theorem(path: Path, ln: int) -> str:
        try:
            lines = path.read_text().splitlines()
        except OSError:
            return str(path)
        for i in range(min(ln, len(lines)) - 1, -1, -1):
            m = re.match(r"^(?:@\[[^\]]*\]\s*)?(theorem|def|example|instance|lemma)\s+(\S+)?", lines[i])
            if m:
                return f"{m.group(2) or m.group(1)} ({path.name}:{ln})"
        return f"{path.name}:{ln}"

    # ---- finish -------------------------------------------------------------------------------
    def finish(self, level_note: list[str], search=None) -> int:
        rc = 0
        lines = []
        replay_dir = VERIF / "replays"
        replay_dir.mkdir(exist_ok=True)
        if not self.failures and (self.broken or self.tie_diffs) and search is not None:
            # broken proof or correspondence: look for a concrete failing input on the real code
            try:
                search(self)
            except ToolFailure:
                raise
        for kid, what in sorted(self.known_hits.items()):
            lines.append(f"KNOWN-FINDING: property={self.pid} {kid} {what}")
        if self.failures:
            f = self.failures[0]
            h = hashlib.sha1(json.dumps(f, sort_keys=True, default=str).encode()).hexdigest()[:10]
            path = replay_dir / f"{self.pid}-{h}.json"
            path.write_text(json.dumps({"property": self.pid, "seed": self.seed, "tier": self.tier, "kind": "failing-input",
                                        "failure": f, "other_failures": self.failures[1:], "broken": self.broken,
                                        "tie_diffs": self.tie_diffs[:5]}, indent=1, default=str))
            lines.append(f"VIOLATION property={self.pid} replay={path}")
            rc = 1
        elif self.broken or self.tie_diffs:
            h = hashlib.sha1(json.dumps([self.broken, self.tie_diffs[:3]], sort_keys=True, default=str).encode()).hexdigest()[:10]
            path = replay_dir / f"{self.pid}-{h}.json"
            path.write_text(json.dumps({"property": self.pid, "seed": self.seed, "tier": self.tier, "kind": "broken-proof-or-correspondence",
                                        "no_longer_checks": self.broken, "first_disagreements": self.tie_diffs[:10],
                                        "notes": self.notes}, indent=1, default=str))
            lines.append(f"VIOLATION property={self.pid} replay={path} no-failing-input-found")
            rc = 1
        self.write_evidence(level_note, rc)
        for l in lines:
            print(l)
        print(f"[{self.pid}] {self.tier} seed={self.seed} obligations={len(self.obligations)} discharged={len(set(self.discharged))} "
              f"evaluations={self.cov['evaluations']} distinct={len(self.distinct)} broken={len(self.broken)} "
              f"failures={len(self.failures)} known={len(self.known_hits)} wall={time.time()-self.t0:.1f}s")
        shutil.rmtree(self.work, ignore_errors=True)
        return rc

    def write_evidence(self, trusted: list[str], rc: int):
        cov = dict(self.cov)
        cov["distinct_nontrivial"] = len(self.distinct)
        cov["obligations"] = len(self.obligations)
        cov["discharged"] = len(set(self.discharged) & set(self.obligations))
        cov["obligation_names"] = self.obligations
        cov["checker_cmd"] = "cd /verif/lean && lake build <Props modules> && lake env lean Audit.lean (#print axioms per theorem); thorough: lake env leanchecker"
        cov["trusted_base"] = trusted
        cov["no_longer_checks"] = self.broken
        cov["known_findings_reported"] = sorted(self.known_hits)
        cov.setdefault("rule", "see DESIGN.md; distinct = distinct canonical request lines whose model answer took a non-default branch")
        ev = {"property_id": self.pid, "tier": self.tier, "seed": self.seed, "level": "proof", "coverage": cov,
              "assumptions": self.assumptions, "wall_s": round(time.time() - self.t0, 2),
              "violations": len(self.failures) + (1 if (rc and not self.failures) else 0)}
        (VERIF / "evidence").mkdir(exist_ok=True)
        (VERIF / "evidence" / f"{self.pid}.json").write_text(json.dumps(ev, indent=1, default=str))


def fresh_import():
    """Make sure Reduino is imported from the working tree under test."""
    if str(SRC) not in sys.path:
        sys.path.insert(0, str(SRC))
    for k in [k for k in sys.modules if k == "Reduino" or k.startswith("Reduino.")]:
        del sys.modules[k]
