#!/bin/sh
# usage: runall.sh <tier> <seed>   — every claimed check, one after the other; summary lines to stdout
tier=${1:-quick}; seed=${2:-0}
cd /verif
for c in $(seq -w 1 20); do
  VERIF_SEED=$seed timeout 7200 ./check C$c $tier > .work/runall-C$c-$tier-$seed.log 2>&1
  rc=$?
  echo "C$c rc=$rc $(grep -c '^KNOWN-FINDING' .work/runall-C$c-$tier-$seed.log) known; $(grep '^VIOLATION' .work/runall-C$c-$tier-$seed.log | head -1) $(tail -1 .work/runall-C$c-$tier-$seed.log | cut -c1-140)"
done
