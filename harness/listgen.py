"""Generator of scripts whose list VALUES are not only named variables (C06): a list literal, the result of a helper call, a
comprehension or an element of a nested list stands wherever an expression of list type may stand — subscripted (constant, variable,
negative index), measured with len(), passed to a helper, bound to a new name — at top level, in branches, in
helper bodies and in the main loop.  Programs are Python-valid, index within bounds and terminate."""
from __future__ import annotations

HEAD = ("from Reduino.Actuators import Led\nfrom Reduino.Communication import SerialMonitor\nfrom Reduino.Utils import sleep\n"
        "from Reduino.Core import analog_write\nmon = SerialMonitor(9600)\n")

ELEMS = {
    "int": lambda r: str(r.randint(0, 255)),
    "float": lambda r: r.choice(["0.5", "1.5", "2.25", "10.0", "0.0"]),
    "bool": lambda r: r.choice(["True", "False"]),
    "str": lambda r: '"' + "".join(r.choice("abcxyz 01") for _ in range(r.randint(0, 4))) + '"',
}


class ListGen:
    def __init__(self, rng, sources=("named", "literal", "call", "comp", "nested"), consumers=("index", "len", "arg", "bind", "fstr"), types=("int", "int", "float", "bool", "str")):
        self.r = rng
        self.sources = list(sources)
        self.consumers = list(consumers)
        self.types = list(types)
        self.features = set()

    def program(self):
        r = self.r
        self.features = set()
        self.defs, self.pre = [], []
        self.fresh = 0
        self.step_hi = r.randint(1, 3)          # `step` stays within 0..step_hi: every generated list has more elements than that
        self.pre.append(f"step = {r.randint(0, self.step_hi)}")
        top = []
        for _ in range(r.randint(2, 5)):
            top += self.stmt(0)
        body = []
        if r.random() < 0.8:
            for _ in range(r.randint(1, 4)):
                body += self.stmt(1)
            body = ["while True:"] + ["    " + l for l in body + [f"step = (step + 1) % {self.step_hi + 1}"]]
        return HEAD + "\n".join(self.defs + self.pre + top + body) + "\n"

    def name(self, p):
        self.fresh += 1
        return f"{p}{self.fresh}"

    def elems(self, t, n, names=True):
        r = self.r
        out = [ELEMS[t](r) for _ in range(n)]
        if t == "int" and names and r.random() < 0.4:
            out[r.randrange(n)] = r.choice(["step", "step + 1", "step * 2"])
        return out

    def list_value(self, t, depth):
        """-> (expression text, number of elements); helper definitions and named lists are added to the preamble"""
        r = self.r
        n = r.randint(self.step_hi + 1, self.step_hi + 3)
        k = r.choice(self.sources)
        if k == "comp" and t != "int":
            k = "literal"
        self.features.add(f"list-value:{k}")
        if k == "named":
            nm = self.name("xs")
            self.pre.append(f"{nm} = [{', '.join(self.elems(t, n, names=False))}]")
            return nm, n
        if k == "call":
            f = self.name("mk")
            p = r.choice(["k", "u"])
            es = self.elems(t, n, names=False)
            if t == "int":
                es[r.randrange(n)] = r.choice([p, f"{p} + 1", f"{p} * 2"])
            elif t == "float":
                es[r.randrange(n)] = f"{p} * 0.5"
            self.defs += [f"def {f}({p}):", f"    return [{', '.join(es)}]"]
            return f"{f}({r.choice(['step', str(r.randint(0, 9))])})", n
        if k == "comp":
            return f"[i * {r.randint(1, 4)} + {r.randint(0, 3)} for i in range({n})]", n
        if k == "nested":
            g = self.name("grid")
            rows = r.randint(2, 3)
            self.pre.append(f"{g} = [{', '.join('[' + ', '.join(self.elems(t, n, names=False)) + ']' for _ in range(rows))}]")
            return f"{g}[{r.choice([str(r.randrange(rows)), '-1'])}]", n
        return f"[{', '.join(self.elems(t, n))}]", n

    def index(self, n):
        r = self.r
        return r.choice([str(r.randrange(n)), "step", "step", f"-{r.randint(1, n)}"])

    def use(self, depth):
        """-> (expression text, its scalar type)"""
        r = self.r
        t = r.choice(self.types)
        lv, n = self.list_value(t, depth)
        k = r.choice(self.consumers)
        self.features.add(f"consumer:{k}")
        if k == "len":
            return f"len({lv})", "int"
        if k == "arg":
            f = self.name("pick")
            p = r.choice(["l", "vals"])
            body = r.choice([f"return {p}[0]", f"return {p}[j]", f"return {p}[len({p}) - 1]"])
            self.defs += [f"def {f}({p}, j):", f"    {body}"]
            # the call is a statement of its own: a helper whose only call sits inside another call's argument is a recorded finding (K06g)
            v = self.name("v")
            self.pending.append(f"{v} = {f}({lv}, {r.randrange(n)})")
            return v, t
        if k == "fstr":
            return f'f"v={{{lv}[{self.index(n)}]}}"', "str"
        return f"{lv}[{self.index(n)}]", t

    def stmt(self, depth):
        r = self.r
        self.pending = []
        e, t = self.use(depth)
        pre, self.pending = self.pending, []
        return pre + self.stmt_with(e, t, depth)

    def stmt_with(self, e, t, depth):
        r = self.r
        k = r.choice(["write", "write", "assign", "bind", "arith", "if", "dev", "while"])
        ind = lambda ls: ["    " + l for l in ls]
        if k == "assign":
            v = self.name("v")
            return [f"{v} = {e}", f"mon.write({v})"]
        if k == "bind" and "bind" in self.consumers:
            t2 = r.choice(self.types)
            lv, n = self.list_value(t2, depth)
            v = self.name("ys")
            self.features.add("consumer:bind")
            return [f"{v} = {lv}", f"mon.write({v}[{self.index(n)}])", f"mon.write(len({v}))"]
        if k == "arith" and t in ("int", "float"):
            return [f"mon.write({e} + {r.randint(1, 5)})"]
        if k == "if" and depth < 2:
            c = e if t == "bool" else (f"{e} > {r.randint(0, 100)}" if t in ("int", "float") else f"len({e}) > 1")
            return [f"if {c}:"] + ind(self.stmt(depth + 1)) + (["else:"] + ind(self.stmt(depth + 1)) if r.random() < 0.5 else [])
        if k == "dev" and t == "int":
            return [r.choice([f"analog_write(5, {e})", f"sleep({e})"])]
        if k == "while" and depth < 2:
            c = self.name("k")
            return [f"{c} = 0", f"while {c} < 2:"] + ind([f"{c} += 1"] + self.stmt(depth + 1))
        return [f"mon.write({e})"]
