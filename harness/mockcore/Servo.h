#pragma once
#include <Arduino.h>
class Servo {
 public:
  int id; static int next;
  Servo() : id(next++) {}
  uint8_t attach(int pin, int mn = 544, int mx = 2400) { mock::ev("servo.attach %d %d %d %d", id, pin, mn, mx); return 1; }
  void write(int a) { mock::ev("servo.write %d %d", id, a); }
  void writeMicroseconds(int us) { mock::ev("servo.us %d %d", id, us); }
  void detach() { mock::ev("servo.detach %d", id); }
};
