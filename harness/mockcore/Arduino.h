// Mock Arduino core for host-side execution of emitted sketches (trusted base of tie S_c).
// Every call appends one line to the trace on stdout.  Inputs (digitalRead/analogRead/pulseIn) are scripted;
// millis() is a virtual clock advanced by delay() and by scripted per-call drift.
#pragma once
#include <cstdint>
#include <cstdio>
#include <cstdlib>
#include <cstring>
#include <cmath>
#include <string>
#include <map>
#include <deque>
#include <vector>

typedef uint8_t byte;
typedef bool boolean;
#define HIGH 0x1
#define LOW 0x0
#define INPUT 0x0
#define OUTPUT 0x1
#define INPUT_PULLUP 0x2
#define A0 14
#define A1 15
#define A2 16
#define A3 17
#define A4 18
#define A5 19
#define LED_BUILTIN 13
#define PI 3.1415926535897932384626433832795
class __FlashStringHelper;
#define F(x) (x)
// As in Arduino.h these are MACROS (arguments may be evaluated twice).
#define min(a,b) ((a)<(b)?(a):(b))
#define max(a,b) ((a)>(b)?(a):(b))
#define abs(x) ((x)>0?(x):-(x))
#define constrain(amt,low,high) ((amt)<(low)?(low):((amt)>(high)?(high):(amt)))

namespace mock {
  extern std::map<int, std::deque<long>> din, ain, pin;   // scripted inputs per pin
  extern std::deque<long> drift;                            // extra ms added at each millis() call
  extern unsigned long now_ms;
  extern unsigned long now_us_extra;
  extern bool quiet;
  extern void (*on_marker)();   // called when the sketch prints the "#" marker line
  void ev(const char *fmt, ...);
  std::string hex(const std::string &s);
  long take(std::map<int, std::deque<long>> &m, int pin, long dflt);
}

class String {
 public:
  std::string s;
  String() {}
  String(const char *c) : s(c ? c : "") {}
  String(const std::string &c) : s(c) {}
  String(char c) : s(1, c) {}
  String(unsigned char v) : s(std::to_string((unsigned)v)) {}
  String(int v) : s(std::to_string(v)) {}
  String(unsigned int v) : s(std::to_string(v)) {}
  String(long v) : s(std::to_string(v)) {}
  String(unsigned long v) : s(std::to_string(v)) {}
  String(long long v) : s(std::to_string(v)) {}
  String(unsigned long long v) : s(std::to_string(v)) {}
  String(bool v) : s(v ? "1" : "0") {}
  String(float v, unsigned char dec = 2) { char b[64]; snprintf(b, sizeof b, "%.*f", (int)dec, (double)v); s = b; }
  String(double v, unsigned char dec = 2) { char b[64]; snprintf(b, sizeof b, "%.*f", (int)dec, v); s = b; }
  unsigned int length() const { return (unsigned int)s.size(); }
  String substring(unsigned int from) const { return from >= s.size() ? String() : String(s.substr(from)); }
  String substring(unsigned int from, unsigned int to) const {
    if (from > to) { unsigned int t = from; from = to; to = t; }
    if (from >= s.size()) return String();
    if (to > s.size()) to = (unsigned int)s.size();
    return String(s.substr(from, to - from));
  }
  char operator[](unsigned int i) const { return i < s.size() ? s[i] : 0; }
  char charAt(unsigned int i) const { return (*this)[i]; }
  String &operator+=(const String &o) { s += o.s; return *this; }
  String &operator+=(const char *o) { s += o; return *this; }
  String &operator+=(char c) { s += c; return *this; }
  String &operator+=(int v) { s += std::to_string(v); return *this; }
  bool operator==(const String &o) const { return s == o.s; }
  bool operator==(const char *o) const { return s == o; }
  bool operator!=(const String &o) const { return s != o.s; }
  bool operator!=(const char *o) const { return s != o; }
  bool operator<(const String &o) const { return s < o.s; }
  bool operator>(const String &o) const { return s > o.s; }
  bool operator<=(const String &o) const { return s <= o.s; }
  bool operator>=(const String &o) const { return s >= o.s; }
  const char *c_str() const { return s.c_str(); }
  long toInt() const { return atol(s.c_str()); }
  float toFloat() const { return (float)atof(s.c_str()); }
  int indexOf(char c) const { auto p = s.find(c); return p == std::string::npos ? -1 : (int)p; }
  bool startsWith(const String &o) const { return s.rfind(o.s, 0) == 0; }
  void trim() { size_t a = s.find_first_not_of(" \t\r\n"); size_t b = s.find_last_not_of(" \t\r\n"); s = a == std::string::npos ? "" : s.substr(a, b - a + 1); }
  void replace(const String &a, const String &b) { if (a.s.empty()) return; size_t p = 0; while ((p = s.find(a.s, p)) != std::string::npos) { s.replace(p, a.s.size(), b.s); p += b.s.size(); } }
  void toUpperCase() { for (auto &c : s) c = (char)toupper(c); }
  void toLowerCase() { for (auto &c : s) c = (char)tolower(c); }
};
inline String operator+(const String &a, const String &b) { String r(a); r += b; return r; }
inline String operator+(const String &a, const char *b) { String r(a); r += b; return r; }
inline String operator+(const char *a, const String &b) { String r(a); r += b; return r; }
inline String operator+(const String &a, char b) { String r(a); r += b; return r; }
inline String operator+(const String &a, int b) { String r(a); r += String(b); return r; }
inline String operator+(const String &a, long b) { String r(a); r += String(b); return r; }
inline String operator+(const String &a, float b) { String r(a); r += String(b); return r; }
inline String operator+(const String &a, double b) { String r(a); r += String(b); return r; }

class SerialClass {
 public:
  std::deque<std::string> rx;
  void begin(unsigned long baud) { mock::ev("serial.begin %lu", baud); }
  void out(const char *kind, const std::string &txt) { if (txt == "#" && mock::on_marker) mock::on_marker(); mock::ev("%s %s", kind, mock::hex(txt).c_str()); }
  // floats cross the oracle as bit patterns, never as decimal text
  void outf(const char *kind, float v) { uint32_t b; memcpy(&b, &v, 4); mock::ev("%s g%08x", kind, b); }
  void outd(const char *kind, double v) { uint64_t b; memcpy(&b, &v, 8); mock::ev("%s h%016llx", kind, (unsigned long long)b); }
#define MOCK_P(T) void print(T v) { out("print", String(v).s); } void println(T v) { out("println", String(v).s); }
  MOCK_P(const String &) MOCK_P(const char *) MOCK_P(char) MOCK_P(int) MOCK_P(unsigned int) MOCK_P(long) MOCK_P(unsigned long)
  MOCK_P(long long) MOCK_P(unsigned long long) MOCK_P(unsigned char)
  void print(bool v) { out("print", v ? "1" : "0"); } void println(bool v) { out("println", v ? "1" : "0"); }
  void print(float v) { outf("print", v); } void println(float v) { outf("println", v); }
  void print(double v) { outd("print", v); } void println(double v) { outd("println", v); }
  void println() { out("println", ""); }
  int available() { return rx.empty() ? 0 : (int)rx.front().size(); }
  String readStringUntil(char) { if (rx.empty()) return String(); String r(rx.front()); rx.pop_front(); return r; }
  operator bool() const { return true; }
};
extern SerialClass Serial;

void pinMode(int pin, int mode);
void digitalWrite(int pin, int v);
void analogWrite(int pin, int v);
int digitalRead(int pin);
int analogRead(int pin);
void delay(unsigned long ms);
void delayMicroseconds(unsigned int us);
unsigned long millis();
unsigned long micros();
unsigned long pulseIn(int pin, int state, unsigned long timeout = 1000000UL);
void tone(int pin, unsigned int freq);
void tone(int pin, unsigned int freq, unsigned long dur);
void noTone(int pin);
long map(long x, long a, long b, long c, long d);
long random(long a);
long random(long a, long b);

void setup();
void loop();
