#pragma once
#include "LcdBase.h"
#include <Wire.h>
class LiquidCrystal_I2C : public MockLcdBase {
 public:
  int c0, r0;
  LiquidCrystal_I2C(int addr, int c, int r) : c0(c), r0(r) { mock::ev("lcd.new %d i2c %d %d %d", id, addr, c, r); geom(c, r); }
  void init() { mock::ev("lcd.init %d", id); geom(c0, r0); }
  void begin() { init(); }
  void backlight() { mock::ev("lcd.backlight %d 1", id); }
  void noBacklight() { mock::ev("lcd.backlight %d 0", id); }
};
