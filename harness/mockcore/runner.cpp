// Runner: setup(); loop() x N with scripted inputs.  usage: sketch <passes> [inputs-file]
// inputs file lines:  d <pin> v v v ... | a <pin> v ... | p <pin> v ... | t v v ... (millis drift) | T <start> (initial millis) | s <hex line> (serial rx)
#include <cstdarg>
#include <sstream>
#include <fstream>
#include <iostream>
#include <Arduino.h>
#include <Servo.h>
#include <Wire.h>
#include "LcdBase.h"

namespace mock {
  std::map<int, std::deque<long>> din, ain, pin;
  std::deque<long> drift;
  unsigned long now_ms = 0;
  unsigned long now_us_extra = 0;
  bool quiet = false;
  void ev(const char *fmt, ...) { if (quiet) return; va_list ap; va_start(ap, fmt); vprintf(fmt, ap); va_end(ap); putchar('\n'); }
  std::string hex(const std::string &s) { static const char *d = "0123456789abcdef"; std::string r = "x"; for (unsigned char c : s) { r += d[c >> 4]; r += d[c & 15]; } return r; }
  long take(std::map<int, std::deque<long>> &m, int p, long dflt) { auto &q = m[p]; if (q.empty()) return dflt; long v = q.front(); q.pop_front(); return v; }
}
SerialClass Serial;
TwoWire Wire;
int Servo::next = 0;
int MockLcdBase::next = 0;
// array new/delete are what the emitted list helpers use: count live array blocks
static long g_live_arrays = 0;
void *operator new[](size_t n) { ++g_live_arrays; void *p = malloc(n ? n : 1); if (!p) abort(); return p; }
void operator delete[](void *p) noexcept { if (p) { --g_live_arrays; free(p); } }
void operator delete[](void *p, size_t) noexcept { if (p) { --g_live_arrays; free(p); } }
static void dump_lcds() { for (auto *l : MockLcdBase::all()) l->dump("marker"); mock::ev("heap %ld", g_live_arrays); }
namespace mock { void (*on_marker)() = dump_lcds; }

void pinMode(int pin, int mode) { mock::ev("pm %d %d", pin, mode); }
void digitalWrite(int pin, int v) { mock::ev("dw %d %d", pin, v ? 1 : 0); }
void analogWrite(int pin, int v) { mock::ev("aw %d %d", pin, v); }
int digitalRead(int pin) { long v = mock::take(mock::din, pin, 0); mock::ev("dr %d %ld", pin, v); return (int)v; }
int analogRead(int pin) { long v = mock::take(mock::ain, pin, 0); mock::ev("ar %d %ld", pin, v); return (int)v; }
void delay(unsigned long ms) { mock::now_ms += ms; mock::ev("delay %lu", ms); }
void delayMicroseconds(unsigned int us) { mock::ev("delayus %u", us); }
unsigned long millis() { if (!mock::drift.empty()) { mock::now_ms += mock::drift.front(); mock::drift.pop_front(); } mock::ev("millis %lu", mock::now_ms); return mock::now_ms; }
unsigned long micros() { return mock::now_ms * 1000UL; }
unsigned long pulseIn(int pin, int state, unsigned long timeout) { long v = mock::take(mock::pin, pin, 0); mock::ev("pulsein %d %d %lu %ld", pin, state, timeout, v); return (unsigned long)v; }
void tone(int pin, unsigned int f) { mock::ev("tone %d %u", pin, f); }
void tone(int pin, unsigned int f, unsigned long d) { mock::ev("tone %d %u %lu", pin, f, d); }
void noTone(int pin) { mock::ev("notone %d", pin); }
long map(long x, long a, long b, long c, long d) { return (x - a) * (d - c) / (b - a) + c; }
long random(long a) { return a > 0 ? 0 : 0; }
long random(long a, long) { return a; }

#ifndef MOCK_NO_MAIN
int main(int argc, char **argv) {
  int passes = argc > 1 ? atoi(argv[1]) : 1;
  if (argc > 2) {
    std::ifstream f(argv[2]); std::string line;
    while (std::getline(f, line)) {
      std::istringstream is(line); std::string k; is >> k;
      if (k == "t") { long v; while (is >> v) mock::drift.push_back(v); continue; }
      if (k == "T") { unsigned long v; is >> v; mock::now_ms = v; continue; }   // clock value at power-up (to sit just before the counter wraps)
      if (k == "s") { std::string h; is >> h; std::string t; for (size_t i = 1; i + 1 < h.size(); i += 2) t += (char)strtol(h.substr(i, 2).c_str(), nullptr, 16); Serial.rx.push_back(t); continue; }
      int p; is >> p; long v;
      auto &q = (k == "d" ? mock::din : k == "a" ? mock::ain : mock::pin)[p];
      while (is >> v) q.push_back(v);
    }
  }
  mock::ev("== setup");
  setup();
  for (int i = 0; i < passes; ++i) { mock::ev("== loop %d", i); loop(); }
  mock::ev("== end");
  fflush(stdout);
  return 0;
}
#endif
