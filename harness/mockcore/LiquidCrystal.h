#pragma once
#include "LcdBase.h"
class LiquidCrystal : public MockLcdBase {
 public:
  LiquidCrystal(int rs, int en, int d4, int d5, int d6, int d7) { mock::ev("lcd.new %d par %d -1 %d %d %d %d %d", id, rs, en, d4, d5, d6, d7); geom(16, 2); }
  LiquidCrystal(int rs, int rw, int en, int d4, int d5, int d6, int d7) { mock::ev("lcd.new %d par %d %d %d %d %d %d %d", id, rs, rw, en, d4, d5, d6, d7); geom(16, 2); }
  void begin(int c, int r) { mock::ev("lcd.begin %d %d %d", id, c, r); geom(c, r); }
};
