#pragma once
#include <Arduino.h>
class TwoWire { public: void begin() { mock::ev("wire.begin"); } };
extern TwoWire Wire;
