#pragma once
#include <Arduino.h>
// HD44780 cell matrix with cursor; writes past the visible row are recorded as `lcd.overflow`.
class MockLcdBase {
 public:
  int id; static int next; static std::vector<MockLcdBase*> &all() { static std::vector<MockLcdBase*> v; return v; }
  int cols = 16, rows = 2, cx = 0, cy = 0;
  std::vector<std::string> cells;
  MockLcdBase() : id(next++) { all().push_back(this); }
  void geom(int c, int r) { cols = c; rows = r; cells.assign(r > 0 ? r : 0, std::string(c > 0 ? c : 0, ' ')); cx = cy = 0; }
  void dump(const char *why) {
    std::string all; for (auto &r : cells) { all += r; all += '\n'; }
    mock::ev("lcd.cells %d %s %s", id, why, mock::hex(all).c_str());
  }
  void clear() { for (auto &r : cells) r.assign(cols, ' '); cx = cy = 0; mock::ev("lcd.clear %d", id); }
  void setCursor(int c, int r) { cx = c; cy = r; mock::ev("lcd.cursor %d %d %d", id, c, r); }
  void put(char ch) {
    if (cy >= 0 && cy < rows && cx >= 0 && cx < cols) cells[cy][cx] = ch;
    else mock::ev("lcd.overflow %d %d %d", id, cx, cy);
    cx++;
  }
  size_t print(const String &s) { mock::ev("lcd.print %d %d %d %s", id, cx, cy, mock::hex(s.s).c_str()); for (char ch : s.s) put(ch); return s.s.size(); }
  size_t print(const char *s) { return print(String(s)); }
  size_t print(char ch) { mock::ev("lcd.print %d %d %d %s", id, cx, cy, mock::hex(std::string(1, ch)).c_str()); put(ch); return 1; }
  size_t print(int v) { return print(String(v)); }
  size_t write(uint8_t ch) { return print((char)ch); }
  void display() { mock::ev("lcd.display %d 1", id); }
  void noDisplay() { mock::ev("lcd.display %d 0", id); }
  void createChar(uint8_t slot, uint8_t *rowsData) {
    char b[64]; snprintf(b, sizeof b, "%u,%u,%u,%u,%u,%u,%u,%u", rowsData[0], rowsData[1], rowsData[2], rowsData[3], rowsData[4], rowsData[5], rowsData[6], rowsData[7]);
    mock::ev("lcd.glyph %d %u %s", id, (unsigned)slot, b);
  }
};
