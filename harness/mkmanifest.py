"""Writes /verif/MANIFEST.json from the table below (kept as code so the manifest is always schema-valid)."""
import json
from pathlib import Path

VERIF = Path(__file__).resolve().parent.parent

CLAIMED = {
    "C01": dict(
        text="Machine-checked translation correctness (C01_partial, ~2000 lines of Lean): for EVERY program of the decidable fragment InF (int/bool, + - * // % & | ^, unary minus, abs/min/max, "
             "comparisons, and/or/not, conditional expressions, assignment, augmented assignment, tuple (parallel) assignment with the transpiler's numbered temporaries, string literals / str() / concatenation / f-strings with serial write of text, if/elif/else, while, for-range, break, serial write, sleep, prologue + "
             "main loop) and EVERY N, if the transpiler model accepts, the C semantics of the emitted program produces exactly CPython's trace, or hits C int overflow (UB), "
             "or evaluates a / or % with a negative operand (the strict reading stops there with signedDiv: that is exactly where the emitted C division differs from Python's floor division, "
             "known findings K01b/K01c, refuted by machine-checked witnesses on the raw reading; strict_run_is_raw_run relates the two); the operator tables _BIN/_UN/_CMP are regenerated "
             "from the source on every run with named equality obligations (gen_BIN, gen_CMP, gen_UN); the same holds with hoisted declarations (C01_partial_promotion: names first assigned directly in a top-level branch or loop body of the prologue become "
             "globals; tr2 is a conservative extension of tr); break in the main loop is always rejected; the full statement is refuted by machine-checked counterexamples (and/or value, range limit). The model is tied "
             "three ways on generated programs: emitted TEXT = render(tr p) (T), Python semantics = CPython (S_py), C semantics (strict and raw) = compiled sketch (S_c); the end-to-end "
             "oracle CPython-vs-firmware runs on the fragment and on scripts with one construct outside it (helpers, tuples incl. side-effecting right-hand sides, lists, comprehensions over stepped ranges, f-strings, floats, /, continue …).",
        note="Trusted: Lean kernel (propext, Classical.choice, Quot.sound); the fragment is what is proved — helper functions, lists, strings, floats, promotion of names first "
             "assigned deeper than one block below the top level or inside the main loop are exercised only by the end-to-end oracle; C int is modelled unbounded with overflow as an explicit error at 32 bits (16-bit AVR "
             "int is a stronger side condition); langgen printers, pyoracle (CPython + host modules), mock core + host g++. Known findings K01a–K01j.",
        technique="Lean 4 compiler-correctness proof (simulation, induction on fuel/statements/N) + text, CPython and g++ correspondence ties + end-to-end oracle", ref="4/C01"),
    "C02": dict(
        text="Lean model of the type-assignment layer (Python bool/int/float/str values and evaluation, _infer_expr_type, first-declaration-wins with the parser's block "
             "structure: context copies, promotion out of if/elif/else chains and loop bodies, C++ static typing and implicit conversion at stores). Proved for every "
             "program in which each name only ever receives one inferred type and expressions are tame, and for EVERY execution path (any branches, any number of "
             "iterations): the C++ store holds exactly Python's values (bool/int possibly widened, never narrowed); inferred type = compiler's type; a function result "
             "is the join of its returns (upper bound, least, order-independent, rejection exactly for str/number mixes); the builtin calls abs/min/max/int()/float()/bool() are inside the expression "
             "model with the Arduino macro expansions on the C++ side, and the parser's _BUILTIN_CALL_RETURN_TYPES table is regenerated from the source on every run with named obligations (gen_builtin_*); the unrestricted statement is proved false by "
             "witnesses (incl. K02e: max(1.5, 2.25) declared int). Ties: declared C++ types in the emission vs declareT; model Python store vs CPython; model C++ store vs compiled firmware; mergeReturn vs emitted "
             "return types. Oracle: firmware-printed values vs CPython on block-structured scripts incl. every order of 2-3 differently-typed assignments at top level / "
             "in a branch / in a loop, helper functions rebinding their parameters.",
        note="Trusted: Lean kernel (propext, Classical.choice, Quot.sound); exact field arithmetic in theorems, float32/64 rounding only through the ties; user helper functions are modelled in structured, non-recursive form (TypesFun: variants per call signature, locals, return join — call_preserves_value, variants_sound, no_return_narrowed; "
             "three machine-checked witnesses = known finding K02g); recursion, lists and str() are outside the models (tie + oracle only) — partial; mock core + host g++. Known findings K02a (first assignment fixes the type, wider later "
             "values narrowed), K02b (int / int), K02c (and/or value), K02d (-bool), K02e (abs/min/max typed int whatever the arguments), K02f (loop-hoisted local takes a stale type), K02g (helper parameters typed by their last assignment / all-int parse re-used).",
        technique="Lean 4 simulation proof (Python vs C++ typed evaluation under the parser's declarations, induction on expressions and paths) + declared-type, CPython and firmware correspondence + value oracle", ref="4/C02"),
    "C03": dict(
        text="Lean theorems: (a) the transpile-time evaluator is monotone in the constant environment — a value folded from partial knowledge is the value under EVERY "
             "completion of the environment, in particular a name-free expression has exactly one value; chained comparisons are the conjunction of adjacent comparisons; "
             "(b) model of the constant environment (copies into branch/loop/main-loop bodies, list objects shared by reference, fold sites): for every script whose "
             "folded names are only written by top-level statements, the emitted program observes on EVERY execution path (any branch choices, any iteration counts) what "
             "the source observes; scripts without transpile-time constants are emitted unchanged; inside a function body no read of a parameter is folded whatever a global of the same name "
             "holds; the unrestricted statement is proved false by four witnesses. "
             "Ties: model evaluator vs parser._eval_const vs CPython eval; model fold sites vs the emitted text; model traces vs CPython and compiled firmware. Oracle: firmware "
             "vs CPython on scripts with len() fold sites under run-time-decided branches, loops and the main loop; folded sleep() arguments; parameters shadowing constants.",
        note="Trusted: Lean kernel (propext, Classical.choice, Quot.sound); the environment model covers str and list-of-int values read by len() (flash_pattern/glyph/sensor-model "
             "sites read the same environment: oracle only) — partial; evaluator model without floats; mock core + host g++. Known finding K03a (stale folds after nested "
             "rebinding/mutation).",
        technique="Lean 4 theorems (monotonicity of the evaluator by mutual induction; path-by-path simulation between source and folded program with a shared-heap invariant) + evaluator/text/CPython/firmware correspondence + value oracle", ref="4/C03"),
    "C04": dict(
        text="Lean theorems relating the emitted actuator blocks (Fw) to the host classes (Host): clamping of every PWM duty / servo command / motor speed for ARBITRARY "
             "arguments and states; for every call the host accepts, equal shadow state (so all eight state queries agree), last pin level = image of the host state, "
             "delays equal up to whole-ms rounding; RGB fade within one PWM count and equal off exact .5 ties; motor pins/duty as the image of the applied speed. "
             "Firmware model tied bit-exactly (Float32) to the compiled emitted C++; host side tied by C19's H; per-pin timelines and getters of the real firmware are "
             "compared with the real host classes on generated call sequences.",
        note="Trusted: Lean kernel (propext, Classical.choice, Quot.sound); mock core + host g++ (Arduino PWM/Servo internals below the call boundary); exact-arithmetic "
             "theorems (float32/float64 rounding via the bit-exact tie and a 1e-4 getter tolerance). Known findings K04a (fade half rounding), K04b (tiny motor speed), "
             "K04c (fractional servo pulse bounds folded with int()).",
        technique="Lean 4 refinement theorems Fw vs Host + bit-exact model/compiled-firmware correspondence (S_c) + timeline oracle", ref="4/C04"),
    "C05": dict(
        text="Lean model of emit()'s two-pass assembly of setup()/loop() (pre-loop items, loop-body declarations hoisted in two passes, sorted button polls first): "
             "for every program whose devices are declared before the main loop or at the top of its body, every use is preceded by its configuration; the prologue's "
             "statements run once and in source order; each pass starts with exactly one poll per button and then the body in order; nothing is configured inside "
             "loop(); a second, pin-level model (AssemblePins: which pin gets which mode where, names re-bound to other pins, per device kind) proves for every documented program and every N that each pin event is "
             "preceded by a configuration of that pin, that no pin gets two modes, that a device re-bound at the top of the loop body has its new pins configured in setup(), and that every pass starts with exactly one poll per button and one tick per animation started before the loop, in the code's order, before any user event (housekeeping_once_per_pass; K18a as loop_started_animation_not_ticked_counterexample); plus (from C01) the split preserves the event sequence of `setup(); loop()×N` for every N and a `break` bound to the main loop is always refused. "
             "Model tied to the compiled sketch (order of use/marker/poll events over N passes) on random device sets; temporal monitors on the real trace "
             "(configure-before-use per pin/peripheral, no re-configuration, poll placement, break guard under random nestings).",
        note="Trusted: Lean kernel (propext, Classical.choice, Quot.sound); the harness builds each script together with its item abstraction; mock core + host g++. "
             "Proved counterexamples: an LCD/serial/buzzer first declared inside the loop body is not configured (documented placement excludes it); a Button / Ultrasonic name bound twice BEFORE the loop uses the later binding's pins unconfigured (known findings K05a, K05b, found by the pin-level model).",
        technique="Lean 4 theorems over a model of the emitter's assembly order + model/compiled-sketch correspondence + trace monitors", ref="4/C05"),
    "C06": dict(
        text="Lean theorems: the literal the parser writes for ANY string without a raw newline is read back by a C++ string-literal lexer as exactly that string, ending "
             "at its closing quote (all strings, all continuations; the reversed replace order is proved wrong); for every core-fragment script that reads names only after "
             "they are bound, the sketch the translation function produces declares every identifier before use, exactly once, with `break` only inside loops (also with hoisted declarations: tr2_wf); every rendered "
             "sketch has exactly one setup and one loop opener in that order and balanced braces; included headers = instantiated library classes (C14). Ties: model literal "
             "vs parser._escape_string_literal and vs bytes printed by the compiled firmware; WF model vs g++ -fsyntax-only on real emissions incl. unbound/out-of-scope reads. "
             "Oracle: g++ compile+link of every accepted script from a feature pool and a large random generator of the documented style (all devices, every accepted call "
             "shape, helpers, lists, strings over all printable ASCII, control flow, nested first assignments).",
        note="Trusted: Lean kernel (propext, Classical.choice, Quot.sound); host g++ gnu++17 + mock Arduino core in place of avr-g++ and the real core/libraries; the C++ type "
             "system beyond scoping is decided by the compiler run only (partial). Known findings K06a–K06e, K06g (loop variable after loop, `except Name`, helper called with int "
             "and float, helper returning lists of different types, `for e in xs`, helper call inside an argument); `literal + literal` was repaired (F23).",
        technique="Lean 4 theorems (escape/lexer round-trip by induction, scoping well-formedness of the translation, brace balance) + model/parser and model/compiler correspondence + compiler oracle", ref="4/C06"),
    "C07": dict(
        text="Lean character/line-level model of the parser's layout handling (indentOf, the quote-aware comment stripper, collectBlock, the if/elif/else and try/except "
             "chains, header recognition) against Python's own block rule: the stripper cuts exactly at the first `#` outside a string literal (all lines); blank lines, "
             "comment lines indented like the following code, trailing comments on non-continuation lines and any scaling of the indentation unit never change the block "
             "forest (all scripts); on scripts whose headers are all recognised the forest equals Python's. Model tied to the real parser's IR nesting on generated "
             "scripts and their re-layouts; oracle: a script and its re-layout must emit identical text, and every source line must be translated, rejected or benign "
             "(the guarded hook records every silently skipped line). TRANSLATOR TIE: `_indent_of`, `_strip_inline_comment` and `_collect_block` are "
             "translated from the Python source to Lean on every run (harness/pytolean.py) and proved equal to the model's functions for ALL inputs (gen_indentOf, gen_stripInlineComment, gen_collectBlock), so the character/line-level "
             "theorems are re-checked against what the code says now; a source outside the translatable subset breaks the named obligation and the oracle searches for a failing input.",
        note="Trusted: Lean kernel (propext, Classical.choice, Quot.sound); the translator harness/pytolean.py (small documented subset of Python); regular expressions are modelled by equivalent string functions (agreement checked by the tie, "
             "not proved); the hook (aaec20d) reports skipped lines. Proved counterexamples / known findings K07a (comments on headers and dedented comment lines move "
             "statements between blocks) and K07b (unrecognised statements silently dropped).",
        technique="Lean 4 theorems over a character-level layout model (induction over line lists, fuel independence) + source-to-Lean translation of three parser functions with all-inputs equality proofs + model/parser block-tree correspondence + re-layout oracle", ref="4/C07"),
    "C08": dict(
        text="One Lean obligation per constructor/method/Core helper (44 callables) over tables REGENERATED from the source on every run — the host signature "
             "(inspect.signature) and the transpiler's behaviour on every call shape (rejects? which provided values fail to reach the generated code?) — checked by "
             "decide +kernel: every shape Python accepts is rejected or binds every provided parameter; generic theorems lift this to every keyword order and show the "
             "enumerated shapes are complete. The oracle compiles every positional/keyword split, several keyword orders and every subset of omitted defaults and requires "
             "byte-identical C++ within each equivalence class, plus 'an explicit 0 is not an omission'.",
        note="Trusted: Lean kernel (no axioms for the table obligations); the regenerating translator (extract.probe_bindings/bindprobe: sample values, value-variation as "
             "'reaches the code'); slot correctness rests on the byte-equality oracle. Known finding K08a (RGBLed.on ignores keywords).",
        technique="Lean 4 theorems re-checked on tables regenerated from the source (decide +kernel) + exhaustive call-shape oracle", ref="4/C08"),
    "C09": dict(
        text="Lean theorems over a heap model of the emitted list helpers and usage forms: in the owned discipline (lists declared once from a maker, then append / "
             "remove / in-bounds indexing incl. negative / len / assignment from another declared list / tuple swap of two declared lists) no history produces a memory error, every live block is owned by "
             "exactly one list and live blocks = number of non-empty lists (constant across passes when the lists' emptiness pattern is); the alias-copy, temporary and "
             "loop-local forms are decided by machine-checked counterexamples. The model's verdict and live-block count are compared with the compiled sketch under "
             "ASan+UBSan with counted array new/delete; sanitizer reports and per-pass heap growth on the real firmware are the oracle.",
        note="Trusted: Lean kernel (propext, Classical.choice, Quot.sound); ASan/UBSan and the counted operator new[]/delete[] as observers; the mapping statement -> usage form "
             "is validated by the tie only; undefined behaviour invisible to the heap model and the sanitizers is not covered. Known findings K09a (list copy semantics), "
             "K09b (temporary leak), K09c (stale folded length after remove of a run-time value).",
        technique="Lean 4 invariant proof on a heap model + sanitizer/allocation-counter correspondence (S_c)", ref="4/C09"),
    "C10": dict(
        text="Lean theorems: the order of hoisted declarations is independent of the order in which the per-branch name sets list their elements once the iteration is "
             "sorted (the only set-order dependent sites of the transpiler), characterisation of the promoted set, machine-checked counterexample for the unsorted variant "
             "(defect F9, repaired by a fix: commit); the model tr has no state. Ties: AST inventory of set-valued iterations against a reviewed baseline; model order vs real "
             "declaration order; real output byte-identical in fresh subprocesses under 8/64 hash seeds and in-process under shuffled histories with repetitions.",
        note="Trusted: Lean kernel (propext, Classical.choice, Quot.sound); 'no hidden interpreter state' and 'all hash seeds/processes' rest on the behavioural tie over the "
             "generated and pooled scripts; setscan.py is a heuristic inventory.",
        technique="Lean 4 permutation-invariance theorem + multi-process hash-seed/history correspondence", ref="4/C10"),
    "C11": dict(
        text="Lean theorems about the model of `_eval_const`, the only component that computes with the user's text: non-interference (whenever evaluation succeeds its "
             "result is independent of what any non-whitelisted node — attribute access, foreign call, lambda, subscript, comprehension … — would do, so none was "
             "evaluated), such nodes and unknown calls raise ValueError, names resolve only in the constant environment, and a structural size bound for expressions "
             "without ** and << (false with **: counterexample). The evaluator model is tied to the real `_eval_const` on generated expression trees; the run-time "
             "claims are decided by an audit tie: parse()/emit() in audited subprocesses (sys.addaudithook, canary file, 5 s limit) on feature scripts, hostile "
             "expressions in every argument position, valid-Python torture inputs, the repo's own sources, byte noise and mutations; plus a no-state-between-calls test.",
        note="Trusted: Lean kernel (propext, Classical.choice, Quot.sound). PARTIAL: 'no file/process/network access', 'terminates promptly', 'only ValueError/SyntaxError' "
             "and 'no state mutation' are interpreter-level facts the model cannot exhibit; they rest on the audit tie over the generated inputs. The evaluator model has the whole operator table (& | ^ with a proved size bound; / and negative powers as an explicit 'float result' outcome with Python's overflow boundary), "
             "float VALUES and float() are outside it; the whitelists _SAFE_CASTS / _SAFE_NAME_REFERENCES are regenerated from the source with named obligations. Known findings K11a (pow/shift bomb), K11b (non-Python accepted), K11c (RecursionError), K11e–g (SyntaxError for valid Python); K11d (IndexError) was repaired (F22).",
        technique="Lean 4 non-interference theorem on the evaluator model + differential tie + audited-subprocess oracle", ref="4/C11"),
    "C12": dict(
        text="Theorems over the effect model of target() for every scenario (pair valid?, upload?, PlatformIO present?, Servo note?, 10 fault points), proved by kernel "
             "decide; the model is tied to the real target() by an exhaustive differential run of the whole scenario space x 5 scripts with subprocess/tempfile/pathlib "
             "instrumented and a fault injector; the property is also evaluated on each real run.",
        note="Trusted: Lean kernel (axioms: propext only); the effect alphabet/fault points of Toolchain/Target.lean; the instrumentation standing in for the OS and PlatformIO. "
             "Modelled not verified: the script is abstracted to (needs Servo note); file contents are checked by the tie only.",
        technique="Lean 4 theorems on an effect-sequence model + exhaustive scenario correspondence (Fx)", ref="4/C12"),
    "C13": dict(
        text="Lean theorems: validation accepts exactly the boards registered for exactly that platform (for any partitioned registry; partition of the CURRENT registry is "
             "re-proved by decide +kernel on tables regenerated from the source every run), lib de-duplication spec, env-name safety, and the INI round trip at line level "
             "through a model of a standard INI reader. Ties: validate on registry+near-miss pairs, write_project text/read-back/bytes/listing/audit, INI-reader model vs configparser.",
        note="Trusted: Lean kernel (propext, Classical.choice, Quot.sound); extract.py; the INI-reader model (tied to configparser differentially); text->lines split, final rstrip, "
             "UTF-8 and 'touches nothing else' rest on the tie (audit hook + listing). Known finding K13a (port with surrounding blanks).",
        technique="Lean 4 theorems + regenerated registry obligation (decide +kernel) + differential ties", ref="4/C13"),
    "C14": dict(
        text="Lean theorems over the library bookkeeping model for every multiset of device declarations in the documented positions: requested libraries = included "
             "headers = instantiated library classes, each library iff a device needs it, no duplicates, nothing without a device; counterexample for a nested Servo. "
             "Model compared with the real _collect_required_libraries / #include lines / global objects on random device multisets; every sketch also compiled against "
             "headers that alone define the library classes.",
        note="Trusted: Lean kernel (propext, Classical.choice, Quot.sound); the script -> (kind, position) abstraction built by the harness; mock library headers.",
        technique="Lean 4 theorems on the bookkeeping model + differential tie on device multisets (T)", ref="4/C14"),
    "C15": dict(
        text="Lean theorems over the firmware input blocks: handler runs exactly on rising edges of the sampled signal (never held/release/start-up), is_pressed() "
             "is the pass's sample, host click count agrees when the signal starts released; ultrasonic helper: <= 3 attempts, echo*0.0343/2, last-good/400 fallback, "
             ">= 60 ms between trigger pulses for EVERY clock behaviour (Nat clock, arbitrary drift). Model tied bit-exactly to the emitted C++ compiled against the mock "
             "core with scripted inputs; trace monitors (one sample per pass, spacing, attempts, fresh analogRead per pot.read()) run on the real firmware.",
        note="Trusted: Lean kernel (propext, Classical.choice, Quot.sound); mock core + host g++; millis() wrap-around and float32 rounding of the distance are outside "
             "the theorems; 'one analogRead per pot.read()' is decided by the trace monitor only. K15a (button declared in the loop body: start-up click) was repaired (F24).",
        technique="Lean 4 theorems on firmware state machines + bit-exact model/compiled-firmware correspondence (S_c) + trace monitors", ref="4/C15"),
    "C16": dict(
        text="Lean theorems over the emitted buzzer blocks for all states and arguments: frequency <= 0 never starts a tone; play_tone-with-duration/beep(times>=1)/sweep/"
             "melody end silent with get_state() false; beep sounds exactly n times with the given gaps; sweep: `steps` monotone tones, end/start frequency, total delay <= "
             "duration; melody = the score with floor(beats*60000/tempo) delays; getters track the pin. Score table regenerated from the source each run (gen_melodies). "
             "Model tied bit-exactly to the compiled emitted C++; protocol monitor on the firmware trace.",
        note="Trusted: Lean kernel (propext, Classical.choice, Quot.sound); mock core + host g++; exact-arithmetic theorems (float32 rounding via the tie only); negative "
             "durations hit a C cast to unsigned and are outside the model. Known finding K16a (beep(times<=0) leaves an earlier tone sounding).",
        technique="Lean 4 theorems on the emitted-block model + regenerated score obligation + bit-exact correspondence (S_c)", ref="4/C16"),
    "C17": dict(
        text="Lean theorems for every geometry, text, alignment and clear flag with in-range row/column: write/line/message/clear leave exactly the host buffer in the "
             "device cells, other rows untouched; every print stays inside its row on both sides; progress filled length is monotone, saturates, equals the host's on "
             "exact multiples and differs by at most one cell; backlight pin = 0 when off / last brightness when on; glyph rows = the host's eight 5-bit rows. "
             "Firmware model tied to the mock HD44780 cell matrix of the compiled sketch, host model to LCD.dump(); cells of the real firmware compared with the real host class.",
        note="Trusted: Lean kernel (propext, Classical.choice, Quot.sound); mock LiquidCrystal cell matrix (no DDRAM wrapping) + host g++; ASCII text only. "
             "Known finding K17a (message() on a one-row display writes row 1).",
        technique="Lean 4 refinement theorems (device cells = host buffer) + model/implementation correspondence (S_c, H)", ref="4/C17"),
    "C18": dict(
        text="Lean theorems over the emitted animation templates and the host LCD.animate/tick for all four styles, texts, widths, loop flags, speeds and clock values: "
             "every frame rewrites only the animation's row within the display width; rate limit (no step while now - last < speed once the clock runs; consecutive steps "
             ">= speed apart); looping animations never become inactive; non-looping ones are inactive after exactly-bounded many steps (scroll max(len,cols)+cols / len+cols "
             "on the host, blink 1, typewriter max(len-1,1), bounce 2(cols-len)), a linear bound; inactive animations are never touched. Both models tied to the compiled "
             "templates (cells after every pass, scripted clock) and to the real host class (every tick).",
        note="Trusted: Lean kernel (propext, Classical.choice, Quot.sound); mock core + host g++; Nat clock (no millis() wrap); 'never blocks' = the tick model has no delay to "
             "return plus a trace monitor; 'ticked once per pass' is decided by the trace monitor. Known finding K18a (animation started in the loop body is never ticked).",
        technique="Lean 4 invariant/termination proofs on animation state machines + model/implementation correspondence (S_c, H)", ref="4/C18"),
    "C19": dict(
        text="Invariants of Led/RGBLed/Servo/DCMotor proved in Lean for every call (any int/float/bool argument) and hence every call history by induction, atomic failure, "
             "fade/ramp end-points and monotonicity, sleep totals — over an arbitrary ordered field (exact arithmetic). The executable model (at IEEE double) is compared bit-exactly "
             "with the real classes on generated call sequences; the property's invariants are evaluated on the real objects after every call.",
        note="Trusted: Lean kernel (propext, Classical.choice, Quot.sound); tie H printers; generators' reach. Partial: IEEE rounding of ramp/fade end points is outside the theorems "
             "(exact-arithmetic), covered by the bit-exact tie only; float `step` arguments of Led.fade_in/out are outside the model.",
        technique="Lean 4 invariant proofs by induction over call lists + bit-exact model/implementation correspondence (H)", ref="4/C19"),
    "C20": dict(
        text="Lean theorems: Core pins refine a per-pin memory (read-your-writes through any interleaving, 7 = '7', clamp, pull-up, non-interference), Utils.map is the affine map "
             "and raises iff zero span, sleep(ms) passes ms/1000 once and refuses negatives, Button clicks = rising edges, sensor/serial specs. Model tied to the real modules by "
             "differential runs; the laws are evaluated on the real modules. TRANSLATOR TIE: `Utils.map` and the guard/value of `Utils.sleep` are translated from the Python source to Lean on every run and proved equal to the model for all inputs "
             "and every arithmetic carrier (gen_map, gen_sleep).",
        note="Trusted: Lean kernel (propext, Classical.choice, Quot.sound); tie H; the translator harness/pytolean.py; ASCII pin names; str(value) is a parameter of the serial model.",
        technique="Lean 4 refinement/induction proofs + source-to-Lean translation of Utils.map/sleep with equality proofs + model/implementation correspondence (H)", ref="4/C20"),
}

PENDING_REASON = "check under construction in this build session (model and tie not yet committed); will be claimed when its Lean theorems and correspondence run clean"


def main():
    props = [json.loads(l) for l in (VERIF / "properties.jsonl").read_text().splitlines() if l.strip()]
    checks = []
    na = []
    for p in props:
        pid = p["id"]
        if pid in CLAIMED:
            c = CLAIMED[pid]
            checks.append({
                "property_id": pid,
                "quick_cmd": f"./check {pid} quick",
                "thorough_cmd": f"./check {pid} thorough",
                "evidence_file": f"evidence/{pid}.json",
                "replay_cmd_template": "cat {path}",
                "engine": "lean4-proof+correspondence",
                "level_claimed": {"category": "proof", "text": c["text"], "design_ref": f"DESIGN.md section {c['ref']}"},
                "level_note": c["note"],
                "technique": c["technique"],
            })
        else:
            na.append({"property_id": pid, "reason": PENDING_REASON})
    man = {
        "version": 1,
        "setup_cmd": "cd /verif && sh setup.sh",
        "hooks": {
            "guard": "REDUINO_VERIF",
            "enable": "REDUINO_VERIF=1 in the environment of the checks (set by harness/common.py); no build step (Python)",
            "baseline_off_cmd": "cd /repo && env -u REDUINO_VERIF /venv/bin/python -m pytest -ra -q -p no:cacheprovider --timeout=900 --continue-on-collection-errors",
            "source_commits": ["aaec20d"],
            "add_only": True,
        },
        "engines": [{"name": "lean4-proof+correspondence", "path": "lean/ + harness/", "serves_properties": sorted(CLAIMED),
                     "kind_free_text": "Lean 4 model + theorems (lake build, #print axioms audit), tables regenerated from /repo/src with equality obligations, "
                                       "line-protocol driver (lake env lean --run Driver.lean) diffed against the real Python/C++ on generated cases"}],
        "checks": checks,
        "notes": "Every check: regenerate Gen tables from /repo/src, lake build the property's theorem modules, audit axioms, run ties and the property oracle on the real code; "
                 "exit 0 / exit 1 + VIOLATION line / exit 2 tool failure. VERIF_SEED and VERIF_TIER honoured. Known findings in KNOWN_FINDINGS.json.",
        "not_applicable": na,
    }
    (VERIF / "MANIFEST.json").write_text(json.dumps(man, indent=1) + "\n")


if __name__ == "__main__":
    main()
