"""./check Cxx quick|thorough   — entry point of every registered check."""
from __future__ import annotations

import importlib
import os
import sys
import traceback

sys.path.insert(0, os.path.dirname(os.path.abspath(__file__)))
import common  # noqa: E402


def main(argv):
    if len(argv) < 2:
        print("usage: check <Cxx> [quick|thorough]")
        return 2
    pid = argv[1].upper()
    tier = os.environ.get("VERIF_TIER") or (argv[2] if len(argv) > 2 else "quick")
    if tier not in ("quick", "thorough"):
        tier = "quick"
    seed = int(os.environ.get("VERIF_SEED", "0") or 0)
    ctx = common.Ctx(pid, tier, seed)
    try:
        mod = importlib.import_module(f"props.{pid.lower()}")
        import extract
        extract.regenerate(ctx)
        rc = mod.run(ctx)
        return rc
    except common.ToolFailure as e:
        print(f"TOOL-FAILURE property={pid}: {e}", file=sys.stderr)
        return 2
    except subprocess_timeout() as e:  # pragma: no cover
        print(f"TOOL-FAILURE property={pid}: timeout {e}", file=sys.stderr)
        return 2
    except Exception:
        traceback.print_exc()
        return 2
    finally:
        import shutil
        shutil.rmtree(ctx.work, ignore_errors=True)


def subprocess_timeout():
    import subprocess
    return subprocess.TimeoutExpired


if __name__ == "__main__":
    sys.exit(main(sys.argv))
