"""./check Cxx quick|thorough   — entry point of every registered check."""
from __future__ import annotations

import importlib
import os
import sys
import traceback

sys.path.insert(0, os.path.dirname(os.path.abspath(__file__)))
import common  # noqa: E402


def main(argv):
    if len(argv) < 2:
        print("usage: check <Cxx> [quick|thorough]")
        return 2
    pid = argv[1].upper()
    tier = os.environ.get("VERIF_TIER") or (argv[2] if len(argv) > 2 else "quick")
    if tier not in ("quick", "thorough"):
        tier = "quick"
    seed = int(os.environ.get("VERIF_SEED", "0") or 0)
    ctx = common.Ctx(pid, tier, seed)
    try:
        mod = importlib.import_module(f"props.{pid.lower()}")
        import extract
        extract.regenerate(ctx)
        rc = mod.run(ctx)
        return rc
    except common.ToolFailure as e:
        print(f"TOOL-FAILURE property={pid}: {e}", file=sys.stderr)
        return 2
    except subprocess_timeout() as e:  # pragma: no cover
        print(f"TOOL-FAILURE property={pid}: timeout {e}", file=sys.stderr)
        return 2
    except Exception as e:
        tb = traceback.extract_tb(e.__traceback__)
        in_impl = [f for f in tb if f.filename.startswith(str(common.SRC.parent)) or "/repo/" in f.filename]
        traceback.print_exc()
        if not in_impl:
            return 2
        # the implementation under test raised where the harness expected an answer: the correspondence no longer runs.
        # Report what the oracle had found so far; with nothing concrete the line ends with no-failing-input-found.
        where = in_impl[-1]
        ctx.broken.append(f"correspondence aborted: {type(e).__name__}: {str(e)[:160]} raised in {where.filename}:{where.lineno} ({where.name})")
        try:
            return ctx.finish(getattr(sys.modules.get(f"props.{pid.lower()}"), "TRUSTED", []), search=None)
        except Exception:  # noqa: BLE001
            traceback.print_exc()
            return 2
    finally:
        import shutil
        shutil.rmtree(ctx.work, ignore_errors=True)


def subprocess_timeout():
    import subprocess
    return subprocess.TimeoutExpired


if __name__ == "__main__":
    sys.exit(main(sys.argv))
