"""C04 — actuator commands: firmware drives pins exactly as the host simulation predicts.

Proof: lean/Reduino/Props/C04.lean (firmware blocks Fw/Actuators.lean vs host models Host/*.lean, ordered field K).
Ties: S_c (Fw models at Float32 vs the emitted C++ compiled against the mock core, per call, bit-exact getters);
the host side of the relation is tied by C19's H.  Oracle E: per-pin level timeline + getters of the compiled
firmware vs the real host classes running the same calls."""
from __future__ import annotations

import importlib
import struct

import common
import devscript as ds
import hostrun
from common import Ctx
from devscript import Arg

TRUSTED = [
    "Lean 4.33 kernel; axioms ⊆ {propext, Classical.choice, Quot.sound}",
    "harness/mockcore + host g++ -O0 -ffp-contract=off as the C++ semantics; Arduino PWM/Servo library behaviour below the call boundary is the mock's",
    "exact-arithmetic theorems; float32/float64 rounding only through the bit-exact tie and the 1e-4 getter tolerance of the oracle",
    "host side of the relation: Host/*.lean, tied to the real classes by C19's tie H",
]

IMPORTS = ["from Reduino.Actuators import Led, RGBLed, Servo, DCMotor", "from Reduino.Communication import SerialMonitor"]


def pick(rng, *pools):
    return rng.choice(rng.choice(pools))


def A(rng, v):
    if isinstance(v, float):
        v = ds.f32r(v)
    return Arg(v, var=rng.random() < 0.35)


# ---------------------------------------------------------------- generators (in-range unless `wild`) -----------------
def gen_led(rng, wild):
    ops = []
    for _ in range(rng.randint(1, 8)):
        k = rng.choice(["on", "off", "toggle", "sb", "sb", "blink", "fi", "fo", "fp"])
        if k in ("on", "off", "toggle"):
            ops.append((k,))
        elif k == "sb":
            ops.append(("sb", A(rng, pick(rng, [0, 1, 127, 128, 254, 255], [0.5, 100.7, 254.9] if wild else [0, 255], [-1, 256, 300, -40] if wild else [7, 200]))))
        elif k == "blink":
            ops.append(("blink", A(rng, pick(rng, [0, 1, 10, 250], [0.5, 12.5])), A(rng, pick(rng, [1, 2, 3], [0, -1] if wild else [1]))))
        elif k in ("fi", "fo"):
            ops.append((k, A(rng, pick(rng, [1, 5, 50, 100, 254, 255, 300], [0, -3] if wild else [5])), A(rng, pick(rng, [0, 1, 10], [0.5, 2.5]))))
        else:
            pat = [pick(rng, [0, 1, 2, 128, 255], [0, 1], [256, -1, 300] if wild else [10]) for _ in range(rng.randint(0, 5))]
            ops.append(("fp", Arg(pat), A(rng, pick(rng, [0, 7, 200], [1.5]))))
    return ops


def fade_has_tie(cur, tgt, steps):
    for c, t in zip(cur, tgt):
        for i in range(1, steps + 1):
            if (2 * (t - c) * i) % (2 * steps) == steps:
                return True
    return False


def gen_rgb(rng, wild):
    comp = lambda: A(rng, pick(rng, [0, 1, 2, 100, 127, 128, 254, 255], [0, 255], [256, -1, 300] if wild else [10, 20, 30]))
    ops = []
    for _ in range(rng.randint(1, 6)):
        k = rng.choice(["sc", "on", "off", "fade", "fade", "blink"])
        if k in ("sc", "on"):
            ops.append((k, comp(), comp(), comp()))
        elif k == "off":
            ops.append(("off",))
        elif k == "fade":
            ops.append(("fade", comp(), comp(), comp(), A(rng, pick(rng, [0, 100, 1000, 7], [33.5, 10.25])), A(rng, pick(rng, [1, 2, 3, 4, 7, 50], [0, -2] if wild else [5]))))
        else:
            ops.append(("blink", comp(), comp(), comp(), A(rng, pick(rng, [1, 2, 3], [0] if wild else [1])), A(rng, pick(rng, [0, 200, 5], [0.5, 7.5]))))
    return ops


SERVO_CFGS = [(0.0, 180.0, 544.0, 2400.0), (0, 180, 544, 2400), (-90.0, 90.0, 1000.0, 2000.0), (10, 170, 600, 2300), (45.0, 135.0, 544, 2399), (0, 270, 500, 2500),
              (22.5, 157.5, 700, 2100)]


def gen_servo(rng, wild):
    cfg = rng.choice(SERVO_CFGS)
    lo, hi, pl, ph = [float(x) for x in cfg]
    ops = []
    for _ in range(rng.randint(1, 8)):
        if rng.random() < 0.5:
            cand = [lo, hi, (lo + hi) / 2, lo + (hi - lo) / 4, lo + 0.25, hi - 0.125, lo + (hi - lo) * rng.randint(0, 64) / 64] + ([lo - 1, hi + 1, hi + 100] if wild else [])
            v = rng.choice(cand)
            ops.append(("w", A(rng, int(v) if (float(v).is_integer() and rng.random() < 0.4) else float(v))))
        else:
            cand = [pl, ph, (pl + ph) / 2, pl + (ph - pl) / 4, pl + 0.5, pl + (ph - pl) * rng.randint(0, 64) / 64] + ([pl - 1, ph + 1, ph + 500] if wild else [])
            v = rng.choice(cand)
            ops.append(("wu", A(rng, int(v) if (float(v).is_integer() and rng.random() < 0.4) else float(v))))
    return cfg, ops


SPEEDS = [0, 1, -1, 0.0, 0.5, -0.5, 1.0, -1.0, 0.25, -0.75, 0.125, 0.3, -0.7, 0.01, 0.9]
WILD_SPEEDS = [2, -3, 1.5, -2.5, 100.0]


def gen_motor(rng, wild):
    sp = lambda: A(rng, rng.choice(SPEEDS + (WILD_SPEEDS if wild else [])))
    ops = []
    for _ in range(rng.randint(1, 8)):
        k = rng.choice(["ss", "ss", "bw", "stop", "coast", "inv", "inv", "ramp", "rf"])
        if k in ("ss", "bw"):
            ops.append((k, sp()))
        elif k in ("stop", "coast", "inv"):
            ops.append((k,))
        elif k == "ramp":
            ops.append(("ramp", sp(), A(rng, pick(rng, [0, 100, 2000, 7], [0.0, 33.5, 10.0]))))
        else:
            ops.append(("rf", A(rng, pick(rng, [0, 50, 1], [12.5, 0.5])), sp()))
    return ops


# ---------------------------------------------------------------- script + request builders ----------------------------
def build(kind, ctor, ops):
    sb = ds.ScriptBuilder(IMPORTS)
    req = []
    for op in ops:
        k = op[0]
        a = [sb.a(x) for x in op[1:]]
        t = [x.tok() for x in op[1:] if not isinstance(x.v, list)]
        if kind == "led":
            call = {"on": "d.on()", "off": "d.off()", "toggle": "d.toggle()", "sb": "d.set_brightness({0})", "blink": "d.blink({0}, {1})",
                    "fi": "d.fade_in({0}, {1})", "fo": "d.fade_out({0}, {1})", "fp": "d.flash_pattern({0}, {1})"}[k].format(*a)
            if k == "fp":
                req.append("fp " + op[2].tok() + "".join(f" i{int(x)}" for x in op[1].v))
            else:
                req.append(" ".join([k] + t))
            sb.line(call)
            sb.line("mon.write(d.get_state())")
            sb.line("mon.write(d.get_brightness())")
        elif kind == "rgb":
            call = {"sc": "d.set_color({0}, {1}, {2})", "on": "d.on({0}, {1}, {2})", "off": "d.off()", "fade": "d.fade({0}, {1}, {2}, {3}, {4})",
                    "blink": "d.blink({0}, {1}, {2}, {3}, {4})"}[k].format(*a)
            req.append(" ".join(["sc" if k == "on" else k] + t))
            sb.line(call)
        elif kind == "servo":
            sb.line({"w": "d.write({0})", "wu": "d.write_us({0})"}[k].format(*a))
            req.append(" ".join([k] + t))
            sb.line("mon.write(d.read())")
            sb.line("mon.write(d.read_us())")
        else:
            call = {"ss": "d.set_speed({0})", "bw": "d.backward({0})", "stop": "d.stop()", "coast": "d.coast()", "inv": "d.invert()",
                    "ramp": "d.ramp({0}, {1})", "rf": "d.run_for({0}, {1})"}[k].format(*a)
            req.append(" ".join([k] + t))
            sb.line(call)
            for g in ("get_speed", "get_applied_speed", "is_inverted", "get_mode"):
                sb.line(f"mon.write(d.{g}())")
        sb.marker()
    if kind == "led":
        decl, head = "d = Led(5)", "fwled|i5|"
    elif kind == "rgb":
        decl, head = "d = RGBLed(9, 10, 11)", "fwrgb|i9 i10 i11|"
    elif kind == "servo":
        c = ctor
        decl = f"d = Servo(9, min_angle={c[0]!r}, max_angle={c[1]!r}, min_pulse_us={c[2]!r}, max_pulse_us={c[3]!r})"
        # the parser folds literal pulse bounds with int() (_resolve_numeric_arg): the IR the firmware model starts from
        cc = (c[0], c[1], int(c[2]), int(c[3]))
        head = "fwservo|" + " ".join(ds.tok32(ds.f32r(x) if isinstance(x, float) else x) for x in cc) + "|"
    else:
        decl, head = "d = DCMotor(2, 3, 6)", "fwmotor|i2 i3 i6|"
    return sb.source([decl, 'mon.write("#")']), head + "|".join(req)


EVK = ("dw", "aw", "delay", "servo.write", "servo.us")


def canon_segment(kind, seg):
    evs = []
    for l in seg:
        w = l.split(" ")
        if w[0] in ("dw", "aw", "delay"):
            evs.append(l)
        elif w[0] == "servo.write":
            evs.append(f"servo.write {w[2]}")
        elif w[0] == "servo.us":
            evs.append(f"servo.us {w[2]}")
    pr = [l.split(" ")[1] for l in seg if l.startswith("println ")]
    txt = lambda h: bytes.fromhex(h[1:]).decode()
    if kind == "led":
        g = f"st={txt(pr[0])} b={txt(pr[1])}" if len(pr) == 2 else "malformed"
    elif kind == "rgb":
        g = "-"
    elif kind == "servo":
        g = f"a={pr[0]} p={pr[1]}" if len(pr) == 2 else "malformed"
    else:
        g = f"sp={pr[0]} ap={pr[1]} inv={txt(pr[2])} m={txt(pr[3])}" if len(pr) == 4 else "malformed"
    return ",".join(evs) + " " + g


# ---------------------------------------------------------------- the property: firmware vs host classes --------------
def g32(h):
    return struct.unpack(">f", bytes.fromhex(h[1:]))[0]


def host_events(mods, kind, ctor, ops):
    """run the real host class, recording interleaved level events and sleeps; returns per-op (events, getters) or None if a call raised"""
    rec = mods["rec"]
    log = []

    class Sl:
        def __call__(self, d, *a, **k):
            log.append(("sleep", float(d)))
    mods["pkg"].sleep = Sl()
    try:
        if kind == "led":
            base = mods["Led"]

            class T(base):
                def set_brightness(self, v):
                    super().set_brightness(v)
                    log.append(("level", self.brightness))
            o = T(5)
        elif kind == "rgb":
            base = mods["RGBLed"]

            class T(base):
                def set_color(self, r, g, b):
                    super().set_color(r, g, b)
                    log.append(("level", self.get_color()))
            o = T(9, 10, 11)
        elif kind == "servo":
            base = mods["Servo"]

            class T(base):
                def write(self, a):
                    super().write(a)
                    log.append(("level", ("angle", self.read())))

                def write_us(self, p):
                    super().write_us(p)
                    log.append(("level", ("pulse", self.read_us())))
            o = T(9, min_angle=ctor[0], max_angle=ctor[1], min_pulse_us=ctor[2], max_pulse_us=ctor[3])
        else:
            base = mods["DCMotor"]

            class T(base):
                def _apply_speed(self, s):
                    super()._apply_speed(s)
                    log.append(("level", (self._applied_speed, self._mode)))

                def stop(self):
                    super().stop()
                    log.append(("level", (0.0, "brake")))

                def coast(self):
                    super().coast()
                    log.append(("level", (0.0, "coast")))
            o = T(2, 3, 6)
        out = []
        for op in ops:
            log.clear()
            a = [x.v for x in op[1:]]
            k = op[0]
            try:
                if kind == "led":
                    {"on": o.on, "off": o.off, "toggle": o.toggle, "sb": o.set_brightness, "blink": o.blink, "fi": o.fade_in, "fo": o.fade_out,
                     "fp": o.flash_pattern}[k](*a)
                    getters = (o.get_state(), o.get_brightness())
                elif kind == "rgb":
                    {"sc": o.set_color, "on": o.on, "off": o.off, "fade": o.fade, "blink": o.blink}[k](*a)
                    getters = ()
                elif kind == "servo":
                    {"w": o.write, "wu": o.write_us}[k](*a)
                    getters = (o.read(), o.read_us())
                else:
                    {"ss": o.set_speed, "bw": o.backward, "stop": o.stop, "coast": o.coast, "inv": o.invert, "ramp": o.ramp, "rf": o.run_for}[k](*a)
                    getters = (o.get_speed(), o.get_applied_speed(), o.is_inverted(), o.get_mode())
            except (ValueError, TypeError):
                return out, False
            out.append((list(log), getters))
        return out, True
    finally:
        mods["pkg"].sleep = rec


def timeline(events, start=None):
    """[(level, dwell, ndelays)] with adjacent equal levels merged"""
    tl = []
    cur = start
    for k, v in events:
        if k == "level":
            if tl and v == cur:
                continue
            if not tl and v == start and start is not None:
                continue
            tl.append([v, 0.0, 0])
            cur = v
        else:
            if not tl:
                tl.append([cur, 0.0, 0])
            tl[-1][1] += v
            tl[-1][2] += 1
    return tl


def fw_level_events(kind, seg, pins_state):
    """firmware trace segment -> level/sleep events in the host's vocabulary"""
    out = []
    for l in seg:
        w = l.split(" ")
        if w[0] == "delay":
            out.append(("sleep", float(w[1])))
        elif kind == "led" and w[0] in ("dw", "aw") and w[1] == "5":
            out.append(("level", (255 if w[2] == "1" else 0) if w[0] == "dw" else int(w[2])))
        elif kind == "rgb" and w[0] == "aw":
            pins_state[int(w[1])] = int(w[2])
            if w[1] == "11":
                out.append(("level", (pins_state[9], pins_state[10], pins_state[11])))
        elif kind == "servo" and w[0] == "servo.write":
            out.append(("level", ("angle", int(w[2]))))
        elif kind == "servo" and w[0] == "servo.us":
            out.append(("level", ("pulse", int(w[2]))))
        elif kind == "motor" and w[0] in ("dw", "aw"):
            pins_state[int(w[1])] = int(w[2])
            if w[0] == "aw":
                out.append(("level", (pins_state[2], pins_state[3], pins_state[6])))
    return out


def host_pin_image(kind, v):
    if kind == "servo":
        return (v[0], int(v[1] + 0.5))
    if kind == "motor":
        a, mode = v
        if mode == "brake":
            return (1, 1, 0)
        if mode == "coast":
            return (0, 0, 0)
        return ((1, 0) if a > 0 else (0, 1)) + (int(abs(a) * 255 + 0.5),)
    return v


def compare(ctx, kind, ctor, ops, segs, src, mods):
    host, ok = host_events(mods, kind, ctor, ops)
    pins_state = {9: 0, 10: 0, 11: 0, 2: 0, 3: 0, 6: 0}
    for i, ((hev, hget), seg) in enumerate(zip(host, segs)):
        replay = {"script": src, "op_index": i, "op": repr([getattr(a, "v", a) for a in ops[i]])}
        fev = fw_level_events(kind, seg, pins_state)
        hev2 = [(k, host_pin_image(kind, v) if k == "level" else v) for k, v in hev]
        ft, ht = timeline(fev), timeline(hev2)
        # drop a redundant leading/trailing repetition of the level both sides already had
        def norm(t):
            return [(lv, dw, n) for lv, dw, n in t]
        ft, ht = norm(ft), norm(ht)
        same = len(ft) == len(ht)
        if same:
            for (fl, fd, fn), (hl, hd, hn) in zip(ft, ht):
                if kind == "motor" and isinstance(fl, tuple) and isinstance(hl, tuple):
                    lev_ok = fl[:2] == hl[:2] and abs(fl[2] - hl[2]) <= 1
                else:
                    lev_ok = fl == hl
                if not lev_ok or abs(fd - hd) >= max(fn, hn, 1):
                    same = False
        if not same:
            # a one-count duty difference (allowed) can merge adjacent steps differently on the two sides: compare step by step as well
            def steps(evs):
                out, cur = [], None
                for k, v in evs:
                    if k == "level":
                        cur = v
                    else:
                        out.append((cur, v))
                return out, cur
            (fs, flast), (hs, hlast) = steps(fev), steps(hev2)

            def lev_close(a, b):
                if kind == "motor" and isinstance(a, tuple) and isinstance(b, tuple):
                    return a[:2] == b[:2] and abs(a[2] - b[2]) <= 1
                return a == b
            if len(fs) == len(hs) and lev_close(flast, hlast) and all(lev_close(a, b) and abs(x - y) < 1 for (a, x), (b, y) in zip(fs, hs)):
                same = True
        if not same:
            key = f"{kind}:timeline"
            if kind == "rgb" and ops[i][0] == "fade":
                key = "rgb:fade-half-rounding" if _fade_tie(ops, i, mods) else key
            if kind == "motor" and _tiny_speed(hev):
                key = "motor:tiny-speed-coast-vs-drive"
            ctx.fail(key, f"{kind} {ops[i][0]}: firmware pin timeline {ft[:8]} differs from the host's {ht[:8]}", replay)
            return
        pr = [l.split(" ")[1] for l in seg if l.startswith("println ")]
        txt = lambda h: bytes.fromhex(h[1:]).decode()
        bad = None
        if kind == "led" and len(pr) == 2:
            if (txt(pr[0]) == "1") != bool(hget[0]) or int(txt(pr[1])) != hget[1]:
                bad = f"get_state/get_brightness firmware {txt(pr[0])},{txt(pr[1])} host {hget}"
        elif kind == "servo" and len(pr) == 2:
            if abs(g32(pr[0]) - hget[0]) > 1e-4 * max(1, abs(hget[0])) or abs(g32(pr[1]) - hget[1]) > 1e-4 * max(1, abs(hget[1])):
                bad = f"read/read_us firmware {g32(pr[0])},{g32(pr[1])} host {hget}"
        elif kind == "motor" and len(pr) == 4:
            if abs(g32(pr[0]) - hget[0]) > 1e-4 or abs(g32(pr[1]) - hget[1]) > 1e-4 or (txt(pr[2]) == "1") != hget[2] or txt(pr[3]) != hget[3]:
                bad = f"getters firmware {g32(pr[0])},{g32(pr[1])},{txt(pr[2])},{txt(pr[3])} host {hget}"
                if _tiny_speed(hev):
                    ctx.fail("motor:tiny-speed-coast-vs-drive", bad, replay)
                    return
        if bad:
            frac = kind == "servo" and ctor and (float(ctor[2]) != int(ctor[2]) or float(ctor[3]) != int(ctor[3]))
            ctx.fail("servo:fractional-pulse-bounds" if frac else f"{kind}:getter", bad, replay)
            return


def _tiny_speed(hev):
    return any(k == "level" and isinstance(v, tuple) and v[1] == "drive" and 0 < abs(v[0]) < 1 / 510 for k, v in hev)


def _fade_tie(ops, i, mods):
    # replay on the host to find the colour before op i
    o = mods["RGBLed"](9, 10, 11)
    for op in ops[:i]:
        a = [x.v for x in op[1:]]
        {"sc": o.set_color, "on": o.on, "off": o.off, "fade": o.fade, "blink": o.blink}[op[0]](*a)
    a = [x.v for x in ops[i][1:]]
    return fade_has_tie(o.get_color(), tuple(int(x) for x in a[:3]), int(a[4]))


def clamp_monitor(ctx, kind, ctor, segs, src):
    for seg in segs:
        for l in seg:
            w = l.split(" ")
            if w[0] == "aw" and not 0 <= int(w[2]) <= 255:
                ctx.fail(f"{kind}:unclamped-pwm", f"analogWrite({w[1]}, {w[2]}) outside 0-255", {"script": src})
            if w[0] == "servo.write" and ctor and not (int(ctor[0]) - 1 <= int(w[2]) <= int(ctor[1]) + 1):
                ctx.fail("servo:unclamped-angle", f"servo.write({w[2]}) outside [{ctor[0]},{ctor[1]}]", {"script": src})
            if w[0] == "servo.us" and ctor and not (int(ctor[2]) <= int(w[2]) <= int(ctor[3]) + 1):
                ctx.fail("servo:unclamped-pulse", f"writeMicroseconds({w[2]}) outside [{ctor[2]},{ctor[3]}]", {"script": src})
        if kind == "motor":
            pr = [l.split(" ")[1] for l in seg if l.startswith("println ")]
            if len(pr) == 4 and abs(g32(pr[0])) > 1.0:
                ctx.fail("motor:unclamped-speed", f"get_speed() = {g32(pr[0])} outside -1..1", {"script": src})


CORPUS = [
    ("rgb", None, [("fade", Arg(1), Arg(0), Arg(0), Arg(100), Arg(2))], False),       # finding: host rounds half-even, firmware half-away
    ("motor", None, [("ss", Arg(0.001)), ("inv",)], False),                            # finding: tiny speed is `drive` on the host, `coast` in firmware
    ("servo", (10, 170, 600, 2300), [("wu", Arg(2300)), ("wu", Arg(1450)), ("w", Arg(90))], False),
    ("servo", (45.0, 135.0, 544.5, 2399.5), [("w", Arg(134.875))], False),            # finding: fractional pulse bounds are folded with int()
    ("motor", None, [("ss", Arg(-2.5)), ("ramp", Arg(0.0), Arg(100))], True),
    ("motor", None, [("bw", Arg(3)), ("ss", Arg(0.5, True))], True),
    ("led", None, [("sb", Arg(100)), ("toggle",), ("toggle",), ("fi", Arg(100), Arg(2)), ("fo", Arg(300), Arg(0))], False),
]


def run(ctx: Ctx) -> int:
    ctx.prove(["Reduino.Props.C04"])
    mods = hostrun.load_actuators()
    rng = ctx.rng
    cases = list(CORPUS)
    for i in range(ctx.n(240, 1200)):
        kind = ["led", "rgb", "servo", "motor"][i % 4]
        wild = rng.random() < 0.3
        if kind == "servo":
            cfg, ops = gen_servo(rng, wild)
            cases.append((kind, cfg, ops, wild))
        else:
            cases.append((kind, None, {"led": gen_led, "rgb": gen_rgb, "motor": gen_motor}[kind](rng, wild), wild))
    built = [build(k, c, o) for k, c, o, _ in cases]
    results = ds.transpile_and_run(ctx, [b[0] for b in built])
    model = ctx.lean.drive([b[1] for b in built])
    for (kind, ctor, ops, wild), (src, req), (cpp, exc, res), m in zip(cases, built, results, model):
        ctx.count(kind + (":wild" if wild else ""))
        if cpp is None:
            ctx.tie_diff(f"tie S_c {kind} (script rejected by the transpiler)", src, m, repr(exc))
            continue
        if res.compile_error or not res.ok:
            ctx.fail(f"{kind}:compile", f"sketch does not compile/run: {(res.compile_error or res.stderr)[:300]}", {"script": src})
            continue
        segs = ds.split_ops(res.trace)[1:]
        impl = "|".join(canon_segment(kind, s) for s in segs)
        ctx.cov["traces_validated_against_impl"] += 1
        ctx.case(req, nontrivial=True, sample={"script": src, "model": m[:240]} if len(ctx.cov["samples"]) < 3 else None)
        if "undefined" in m or "bad-op" in m:
            ctx.count("outside-model")
        elif m != impl:
            ctx.tie_diff(f"tie S_c {kind} (Fw model vs compiled emitted C++)", {"script": src, "request": req}, m, impl)
        clamp_monitor(ctx, kind, ctor, segs, src)
        compare(ctx, kind, ctor, ops, segs, src, mods)
    ctx.cov["rule"] = ("sequences of 1-8 calls per device (Led/RGBLed/Servo/DCMotor), arguments from boundaries, mid-range and (30% of sequences) out-of-range "
                       "values, 35% of arguments routed through run-time variables; each sequence is transpiled, compiled and run against the mock core, compared "
                       "call by call with the Lean firmware model and with the real host class (timeline + getters) as far as the host accepts the calls")
    return ctx.finish(TRUSTED, search=None)
