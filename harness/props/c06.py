"""C06 — accepted scripts always yield well-formed, compilable Arduino C++.

Proof: lean/Reduino/Props/C06.lean (string-literal escaping round-trips through a C++ lexer for every string; declared-before-use
for every Closed core script; one setup/one loop and balanced braces for every rendered sketch; headers = instantiated classes (C14)).
Ties: Esc.literal vs _escape_string_literal (S_py) and vs what g++ reads back (S_c); WF.wf (tr p) vs `g++` on the real emission of p,
including scripts that read unbound / out-of-scope names.
Oracle: the compiler — every accepted script of the documented style must compile, link and run one pass against the mock core;
every string literal (ASCII, BMP and beyond U+FFFF; Serial, f-string piece, LCD) must arrive on the wire byte for byte; exactly one
setup() and one loop(); list values that are not named variables in every expression position."""
from __future__ import annotations

import importlib
import re

import biggen
import common
import cxx
import langgen
import scripts_pool
from common import Ctx

TRUSTED = [
    "Lean 4.33 kernel; axioms ⊆ {propext, Classical.choice, Quot.sound}",
    "host g++ (gnu++17) and the mock Arduino core stand in for avr-g++ and the real core: declarations the real headers lack or add are not seen",
    "harness/pytolean.py translates `_escape_string_literal` (two `str.replace` calls with a one-character pattern = Esc.replaceChar) to Gen/Escape.lean on every run; "
    "gen_escapeStringLiteral proves it equal to Esc.escape; the translator's reading of `str.replace` joins the trusted base",
    "WF is scoping/uniqueness/break placement on the core fragment, not the C++ type system (templates, overloads, String conversions are decided by the compiler run only)",
]


def hexs(b: bytes) -> str:
    return "x" + b.hex()


def key_of(diag: str) -> str:
    """stable key of a compiler diagnostic"""
    m = re.search(r"error: (.*)", diag)
    msg = m.group(1) if m else diag.strip().splitlines()[-1] if diag.strip() else "?"
    msg = re.sub(r"‘[^’]*’", "‘…’", msg)
    msg = re.sub(r"\d+", "N", msg)
    return "compile:" + msg[:80]


def strings(ctx):
    """string literals: model vs parser function, and what the compiled firmware prints"""
    rng = ctx.rng
    parser = importlib.import_module("Reduino.transpile.parser")
    pool = biggen.PRINTABLE
    vals = ["", "\\", '"', '\\"', '"\\', "\\\\", 'a"b\\c', "%d %s", "??/", "/* */", "// x", "#", "{}", "'", "\\n", "\\x41", "é", "→ ✓"]
    for _ in range(ctx.n(150, 2500)):
        n = rng.randint(0, 12)
        p = pool if rng.random() < 0.6 else ["\\", '"', "'", "a", "n", "x", "0", " "]
        vals.append("".join(rng.choice(p) for _ in range(n)))
    rests = [";", '"', '\\"x', " + \"y\";"]
    reqs = [f"esc|{hexs(v.encode())}|{hexs(rng.choice(rests).encode())}" for v in vals]
    model = ctx.lean.drive(reqs)
    for v, rq, m in zip(vals, reqs, model):
        real = '"' + parser._escape_string_literal(v) + '"'
        lit = re.match(r"lit=x([0-9a-f]*) read=(\S+)", m)
        ctx.count("string:" + ("quote/backslash" if ('"' in v or "\\" in v) else "plain"))
        ctx.case("esc:" + v, nontrivial=bool(v))
        if not lit or bytes.fromhex(lit.group(1)).decode() != real:
            ctx.tie_diff("tie escape (Esc.literal vs parser._escape_string_literal)", {"value": v}, m, real)
        rest = bytes.fromhex(rq.split("|")[2][1:]).decode()
        want = f"{hexs(v.encode())}/{hexs(rest.encode())}"
        if lit and lit.group(2) != want:
            ctx.fail("string:model-literal-misread", f"the literal for {v!r} is not read back as the value (model): {lit.group(2)}", {"value": v})
    # through the real transpiler and the compiler: every site that writes a literal
    jobs, metas = [], []
    chunk = 12
    sites = [("write", lambda lit: f"mon.write({lit})"), ("assign", lambda lit: f"sv = {lit}\nmon.write(sv)"), ("concat", lambda lit: f"mon.write(str(7) + {lit})"),
             ("lcd", None)]
    ascii_vals = [v for v in vals if all(32 <= ord(c) < 127 for c in v)]
    for i in range(0, len(ascii_vals), chunk):
        part = ascii_vals[i:i + chunk]
        site, fn = sites[(i // chunk) % 3]
        body = "\n".join(fn(biggen.py_str(v)) + "\nmon.write(\"@@separator@@@\")" for v in part)
        src = "from Reduino.Communication import SerialMonitor\nmon = SerialMonitor(9600)\n" + body + "\n"
        cpp, exc = cxx.transpile(src)
        if cpp is None:
            ctx.count("string-script-rejected")
            continue
        jobs.append((cpp, 0, ""))
        metas.append((site, part, src))
    for (site, part, src), res in zip(metas, cxx.run_many(ctx, jobs)):
        replay = {"script": src}
        if res.compile_error or not res.ok:
            ctx.fail("string:" + key_of(res.compile_error or res.stderr), f"sketch with string literals does not compile: {(res.compile_error or res.stderr)[:300]}", replay)
            continue
        ctx.cov["traces_validated_against_impl"] += 1
        got, cur = [], []
        for l in res.trace:
            w = l.split(" ")
            if w[0] == "println":
                payload = bytes.fromhex(w[1][1:]) if len(w) > 1 and w[1].startswith("x") else b""
                if payload == b"@@separator@@@":      # longer than any generated value
                    got.append(b"".join(cur))
                    cur = []
                else:
                    cur.append(payload)
        want = [((b"7" if site == "concat" else b"") + v.encode()) for v in part]
        if got != want:
            bad = next((w for g, w in zip(got + [None] * len(want), want) if g != w), None)
            ctx.fail("string:wrong-bytes", f"string literal arrives changed on the wire (site {site}): wanted {bad!r}; got {got[:len(want)]!r}", replay)


# printable characters outside ASCII: Latin-1 / BMP symbols and letters, and characters beyond U+FFFF (emoji, musical and mathematical
# symbols, CJK extension B) — in UTF-16-minded encoders the latter become surrogate pairs
BMP = list("é°µ€ΩжÄñß→✓√≤½日本语한ไ")
ASTRAL = [chr(c) for c in (0x1F600, 0x1F321, 0x1F680, 0x1F4A1, 0x1D11E, 0x1D518, 0x1D7D8, 0x1F004, 0x20000, 0x2A6D6, 0x10348, 0x1F1E9)]
PINNED_UNICODE = ["😀", "🌡 25°C", "𝄞", 'a😀b"\\', "😀😀", "é😀→", "\\😀", "😀\\", '"🚀"', "%s🚀%d", "𠀀", "𝔘𝟘=½"]


def unicode_strings(ctx):
    """string literals with printable characters beyond ASCII, at EVERY site that writes a literal: Serial text (direct, through a variable,
    concatenated), f-string pieces, LCD text.  Model literal vs parser function; the sketch must compile and the UTF-8 bytes must arrive.
    Own PRNG stream (the older generators keep theirs)."""
    import random
    rng = random.Random(f"{ctx.seed}:C06:unicode-strings")
    parser = importlib.import_module("Reduino.transpile.parser")
    vals = list(PINNED_UNICODE)
    for _ in range(ctx.n(110, 1500)):
        pools = rng.choice([[ASTRAL], [ASTRAL, BMP], [ASTRAL, biggen.PRINTABLE], [BMP, biggen.PRINTABLE], [ASTRAL, BMP, biggen.PRINTABLE, ["\\", '"']]])
        v = "".join(rng.choice(rng.choice(pools)) for _ in range(rng.randint(1, 8)))
        if v.isprintable():
            vals.append(v)
    rests = [";", '"', '\\"x', " + \"y\";"]
    reqs = [f"esc|{hexs(v.encode())}|{hexs(rng.choice(rests).encode())}" for v in vals]
    model = ctx.lean.drive(reqs)
    for v, rq, m in zip(vals, reqs, model):
        real = '"' + parser._escape_string_literal(v) + '"'
        lit = re.match(r"lit=x([0-9a-f]*) read=(\S+)", m)
        ctx.count("string:" + ("beyond-U+FFFF" if any(ord(c) > 0xFFFF for c in v) else "non-ascii"))
        ctx.case("esc:" + v, nontrivial=True)
        if not lit or bytes.fromhex(lit.group(1)).decode() != real:
            ctx.tie_diff("tie escape (Esc.literal vs parser._escape_string_literal)", {"value": v}, m, real)
        rest = bytes.fromhex(rq.split("|")[2][1:]).decode()
        if lit and lit.group(2) != f"{hexs(v.encode())}/{hexs(rest.encode())}":
            ctx.fail("string:model-literal-misread", f"the literal for {v!r} is not read back as the value (model): {lit.group(2)}", {"value": v})
    sep = 'mon.write("@@separator@@@")'
    sites = {"write": lambda lit: f"mon.write({lit})", "assign": lambda lit: f"sv = {lit}\nmon.write(sv)", "concat": lambda lit: f"mon.write(str(7) + {lit})",
             "fstr": lambda lit: f"mon.write(f{lit[:-1]}{{n}}{lit[1:]})", "lcd": lambda lit: f"lcd.line(0, {lit})"}
    order = ["write", "fstr", "lcd", "assign", "concat"]
    jobs, metas = [], []
    chunk = 8
    for i in range(0, len(vals), chunk):
        site = order[(i // chunk) % len(order)]
        part = vals[i:i + chunk]
        if site == "fstr":      # an f-string piece is written without braces, quotes and backslashes (their spelling inside f"" is the tokenizer's subject)
            part = [v for v in part if not any(c in v for c in '{}\\"')]
        if site == "lcd":       # one row of the display: short texts only (what a longer text is cut to is C17's subject)
            part = [v for v in part if len(v.encode()) <= 16]
        if not part:
            continue
        head = "from Reduino.Communication import SerialMonitor\nfrom Reduino.Displays import LCD\nmon = SerialMonitor(9600)\n" + ("lcd = LCD(i2c_addr=0x27)\n" if site == "lcd" else "") + "n = 5\n"
        src = head + "\n".join(sites[site](biggen.py_str(v)) + "\n" + sep for v in part) + "\n"
        cpp, exc = cxx.transpile(src)
        ctx.case(src, nontrivial=True)
        if cpp is None:
            ctx.count("string-script-rejected")
            continue
        jobs.append((cpp, 0, ""))
        metas.append((site, part, src))
    for (site, part, src), res in zip(metas, cxx.run_many(ctx, jobs)):
        replay = {"script": src, "site": site}
        ctx.count("string-site:" + site)
        if res.compile_error or not res.ok:
            ctx.fail("string:" + key_of(res.compile_error or res.stderr), f"sketch with non-ASCII string literals ({site}) does not compile: {(res.compile_error or res.stderr)[:300]}", replay)
            continue
        ctx.cov["traces_validated_against_impl"] += 1
        got, cur = [], []
        for l in res.trace:
            w = l.split(" ")
            payload = bytes.fromhex(w[-1][1:]) if len(w) > 1 and w[-1].startswith("x") else b""
            if w[0] == "println" and payload == b"@@separator@@@":
                got.append(cur)
                cur = []
            elif w[0] in ("println", "lcd.print"):
                cur.append(payload)
        for v, g in zip(part, got + [[]] * len(part)):
            want = {"concat": b"7" + v.encode(), "fstr": v.encode() + b"5" + v.encode()}.get(site, v.encode())
            if (want not in g) if site == "lcd" else (b"".join(g) != want):
                ctx.fail("string:wrong-bytes", f"string literal {v!r} arrives changed on the wire (site {site}): wanted {want!r}; got {g!r}", replay)
                break


def scoping(ctx):
    """WF model vs compiler on core-fragment scripts, including unbound / out-of-scope reads"""
    rng = ctx.rng
    progs = []
    for _ in range(ctx.n(120, 1500)):
        p = langgen.G(rng, strings=True).program()
        m = rng.random()
        if m < 0.25:      # read a name that is never bound
            p["pre"] = p["pre"] + [("wr", ("v", "zz"))]
        elif m < 0.45:    # read a loop variable after its loop
            p["pre"] = p["pre"] + [("for", "lv", ("i", rng.randint(0, 3)), [("wr", ("v", "lv"))]), ("wr", ("v", "lv"))]
        progs.append(p)
    srcs = [langgen.py_source(p) for p in progs]
    model = ctx.lean.drive([f"lang|wf|{langgen.sx_prog(p)}" for p in progs])
    outs = [cxx.transpile(s) for s in srcs]
    jobs = [(cpp, 0, "") for cpp, e in outs if cpp is not None]
    it = iter(cxx.run_many(ctx, jobs, syntax_only=True))
    for p, src, m, (cpp, exc) in zip(progs, srcs, model, outs):
        replay = {"script": src}
        res = next(it) if cpp is not None else None
        f = dict(kv.split("=") for kv in m.split(" ") if "=" in kv)
        ctx.count(f"scoping:closed={f.get('closed')},tr={f.get('tr')},wf={f.get('wf', '-')}")
        ctx.case(src, nontrivial=True)
        if f.get("tr") == "outside":
            continue
        if (f.get("tr") == "ok") != (cpp is not None):
            ctx.tie_diff("tie wf (tr accepts vs transpiler accepts)", replay, m, repr(exc) if cpp is None else "accepted")
            continue
        if cpp is None:
            continue
        ctx.cov["traces_validated_against_impl"] += 1
        compiles = not res.compile_error
        if f.get("kinds") != "T":
            ctx.tie_diff("tie wf (brace kinds vs rendered text)", replay, m, "")
        if (f.get("wf") == "T") != compiles:
            ctx.tie_diff("tie wf (WF.wf (tr p) vs g++ -fsyntax-only on emit(parse(p)))", replay, m, (res.compile_error or "compiles")[:300])
        if not compiles:
            if f.get("closed") == "T":
                ctx.fail("wf:" + key_of(res.compile_error), f"a Closed script is accepted and does not compile: {res.compile_error[:300]}", replay)
            elif "lv" in src and "zz" not in src:
                ctx.fail("witness:loop-variable-after-loop", "Python keeps a for variable after the loop; the sketch declares it in the for header only, so the accepted script does not compile", replay)


def shape(ctx, src, cpp):
    ns, nl = len(re.findall(r"^\s*void\s+setup\s*\(", cpp, re.M)), len(re.findall(r"^\s*void\s+loop\s*\(", cpp, re.M))
    if ns != 1 or nl != 1:
        ctx.fail("shape:setup-loop-count", f"{ns} setup() and {nl} loop() definitions", {"script": src})


# constructs known not to compile (KNOWN_FINDINGS.json K06*): kept out of the random generator so that any other compile error stays visible;
# each witness is re-checked on every run and reported under its own key while it still fails
WITNESS_HEAD = "from Reduino.Communication import SerialMonitor\nfrom Reduino.Utils import sleep\nmon = SerialMonitor(9600)\n"
WITNESSES = {
    "witness:except-named-class": "x = 1\ntry:\n    x = 2\nexcept Exception:\n    x = 3\nmon.write(x)\n",
    "witness:helper-called-with-int-and-float": "def twice(v):\n    return v * 2\nx = twice(4)\nz = twice(1.5)\nmon.write(x)\nmon.write(z)\n",
    "witness:helper-returning-lists": "def pick(k):\n    if k == 0:\n        return [1, 2, 3]\n    return [0.5, 1.5]\nv = pick(2)\nmon.write(len(v))\n",
    "witness:for-over-list": "xs = [1, 2]\nfor e in xs:\n    mon.write(e)\n",
    "witness:literal-plus-literal": "s = \"a\" + \"b\"\nmon.write(s)\n",
    "witness:str-argument-inside-call-argument": "def count(msg):\n    return len(msg)\nmon.write(count(\"xy\"))\n",
    "witness:str-argument-to-procedure-call-statement": "def say(msg):\n    mon.write(msg)\nsay(\"hi\")\n",
    "witness:ternary-of-literals-plus-literal": "n = 1\nmon.write((\"a\" if n > 0 else \"b\") + \"c\")\n",
    "witness:loop-variable-after-loop": "for i in range(3):\n    sleep(1)\nmon.write(i)\n",
    "witness:float-list-append-remove-literal": "fs = [1.5, 0.0, 2.5]\nfs.append(0.5)\nfs.remove(0.0)\nmon.write(len(fs))\n",
    "witness:str-list-append-remove-literal": "ws = [\"a\", \"\", \"b\"]\nws.append(\"c\")\nws.remove(\"\")\nmon.write(len(ws))\n",
}


def witnesses(ctx):
    items = list(WITNESSES.items())
    outs = [cxx.transpile(WITNESS_HEAD + s) for _, s in items]
    jobs = [(cpp, 1, "") for cpp, e in outs if cpp is not None]
    it = iter(cxx.run_many(ctx, jobs))
    for (key, s), (cpp, e) in zip(items, outs):
        if cpp is None:
            continue            # now refused: allowed
        res = next(it)
        ctx.case(WITNESS_HEAD + s, nontrivial=True)
        if res.compile_error:
            ctx.fail(key, f"accepted script does not compile: {res.compile_error[:300]}", {"script": WITNESS_HEAD + s})


# sound forms that must keep compiling (each was the target of a seeded change)
MUST_COMPILE = {
    "helper-rebinding-parameter-two-call-types": "def scale(x):\n    x = x * 0.5\n    return x\na = scale(2.5)\nb = scale(200)\nmon.write(a)\nmon.write(b)\n",
    "helper-rebinding-parameter-int-then-bool": "def scale(x):\n    x = x * 0.5\n    return x\na = scale(200)\nb = scale(True)\nmon.write(a + b)\n",
    "helper-called-twice-same-types": "def add3(u):\n    return u + 3\nmon.write(add3(1))\nmon.write(add3(2))\nk = add3(add3(4))\nmon.write(k)\n",
    "hoisted-then-reassigned": "c = 1\nif c > 0:\n    level = 3\nlevel = 5\nfor i in range(2):\n    total = i\ntotal = 9\nmon.write(level + total)\n",
    "two-lcd-kinds": "from Reduino.Displays import LCD\nl1 = LCD(rs=12, en=11, d4=5, d5=4, d6=3, d7=2)\nl2 = LCD(i2c_addr=0x27)\nl1.line(0, \"a\")\nl2.line(0, \"b\")\n",
    "lcd-with-rw-pin": "from Reduino.Displays import LCD\nl1 = LCD(rs=12, en=11, d4=5, d5=4, d6=3, d7=2, rw=10)\nl1.line(0, \"a\")\n",
    "two-glyphs-one-block": "from Reduino.Displays import LCD\nl1 = LCD(i2c_addr=0x27)\nl1.glyph(0, [1, 2, 3, 4, 5, 6, 7, 8])\nl1.glyph(1, [8, 7, 6, 5, 4, 3, 2, 1])\nwhile True:\n    l1.glyph(2, [0, 0, 0, 0, 0, 0, 0, 0])\n    l1.glyph(3, [1, 1, 1, 1, 1, 1, 1, 1])\n    l1.glyph(2, [2, 2, 2, 2, 2, 2, 2, 2])\n",
    "same-call-twice-in-block": "from Reduino.Actuators import Led, RGBLed, Buzzer, Servo, DCMotor\nled = Led(5)\nrgb = RGBLed(9, 10, 11)\nbz = Buzzer(8)\nsv = Servo(6)\nm = DCMotor(2, 3, 4)\n"
                                "led.flash_pattern([1, 0, 1])\nled.flash_pattern([0, 1])\nled.fade_in()\nled.fade_in()\nled.blink(10, 2)\nled.blink(10, 2)\nrgb.fade(1, 2, 3)\nrgb.fade(3, 2, 1)\nrgb.blink(1, 2, 3)\nrgb.blink(1, 2, 3)\n"
                                "bz.beep()\nbz.beep()\nbz.sweep(100, 200, 50)\nbz.sweep(200, 100, 50)\nbz.melody(\"success\")\nbz.melody(\"alarm\")\nsv.write(10)\nsv.write_us(1500)\nsv.write_us(1000)\nm.ramp(0.5, 100)\nm.ramp(0.0, 100)\nm.run_for(10, 0.5)\nm.run_for(10, 0.5)\n"
                                "while True:\n    led.flash_pattern([1, 1])\n    led.flash_pattern([0])\n    rgb.fade(5, 5, 5)\n    rgb.fade(0, 0, 0)\n    bz.sweep(100, 300, 40)\n    bz.sweep(300, 100, 40)\n    m.ramp(1.0, 50)\n    m.ramp(0.0, 50)\n",
    "lcd-calls-twice-in-block": "from Reduino.Displays import LCD\nl1 = LCD(rs=12, en=11, d4=5, d5=4, d6=3, d7=2, backlight_pin=9)\nl1.progress(0, 5, 10)\nl1.progress(1, 7, 10, label=\"v\")\nl1.message(\"a\", \"b\")\nl1.message(\"c\", \"d\")\n"
                                "l1.animate(\"scroll\", 0, \"hello\")\nl1.animate(\"blink\", 1, \"x\")\nwhile True:\n    l1.progress(0, 1, 10)\n    l1.progress(0, 2, 10)\n    l1.line(0, \"p\")\n    l1.line(0, \"q\")\n",
    "for-hoisted-read-in-loop": "for i in range(3):\n    total = i * 2\nwhile True:\n    mon.write(total)\n    total = total + 1\n",
    "while-hoisted-read-in-loop": "n = 0\nwhile n < 3:\n    level = n * 2\n    n += 1\nwhile True:\n    mon.write(level)\n",
    "if-hoisted-read-in-loop": "c = 2\nif c > 1:\n    mode = 4\nelse:\n    mode = 5\nwhile True:\n    mon.write(mode)\n",
    "for-hoisted-read-in-helper": "for i in range(3):\n    total = i * 2\ndef show():\n    return total + 1\nmon.write(show())\n",
    "nested-for-hoisted-read-in-loop": "for i in range(2):\n    for j in range(2):\n        cell = i * 2 + j\nwhile True:\n    mon.write(cell)\n",
    "helper-calls-later-helper": "def a(n):\n    return b(n) + 1\ndef b(n):\n    return n * 2\nx = a(3)\nmon.write(x)\n",
    "helpers-mutually-recursive": "def even(n):\n    if n == 0:\n        return 1\n    return odd(n - 1)\ndef odd(n):\n    if n == 0:\n        return 0\n    return even(n - 1)\nmon.write(even(4))\n",
    "helper-variants-call-each-other": "h = 2.5\ndef mix(x, y, d):\n    if d > 0:\n        return mix(y, x, d - 1)\n    return x + y\nmon.write(mix(1, h, 3))\n",
    "subscript-of-list-literal": "step = 2\nv = [0, 64, 128, 255][step]\nmon.write(v)\nmon.write([1, 2, 3][-1])\nmon.write([0.5, 1.5][1])\nw = [\"a\", \"b\"][step - 1]\nmon.write(w)\nwhile True:\n    mon.write([10, 20, 30][step])\n    step = [1, 2, 0][step]\n",
    "subscript-of-helper-result": "def ramp(k):\n    return [k, k + 1, k * 2]\nstep = 1\nb = ramp(step)[1]\nmon.write(b)\nmon.write(ramp(3)[step])\nmon.write(len(ramp(step)))\nwhile True:\n    mon.write(ramp(step)[0] + 1)\n",
    "subscript-of-comprehension-and-nested-row": "step = 1\ng = [[1, 2], [3, 4]]\nc = [i * 2 for i in range(4)][step]\nmon.write(c)\nmon.write(g[1][0])\nrow = g[step]\nmon.write(row[0])\n",
    "servo-only-in-loop": "from Reduino.Actuators import Servo\nwhile True:\n    s = Servo(9)\n    s.write(10)\n",
}


def must_compile(ctx):
    items = list(MUST_COMPILE.items())
    outs = [cxx.transpile(WITNESS_HEAD + s) for _, s in items]
    jobs = [(cpp, 1, "") for cpp, e in outs if cpp is not None]
    it = iter(cxx.run_many(ctx, jobs))
    for (name, s), (cpp, e) in zip(items, outs):
        ctx.case(WITNESS_HEAD + s, nontrivial=True)
        if cpp is None:
            ctx.count("must-compile:rejected:" + name)
            continue
        res = next(it)
        shape(ctx, WITNESS_HEAD + s, cpp)
        if res.compile_error:
            ctx.fail(key_of(res.compile_error), f"accepted script ({name}) does not compile: {res.compile_error[:400]}", {"script": WITNESS_HEAD + s, "name": name})


def compile_all(ctx):
    """the compiler as oracle over the documented style"""
    rng = ctx.rng
    srcs = [("pool:" + k, v.replace('target("COM3")\n', "")) for k, v in scripts_pool.all_scripts().items() if k not in ("try", "functions", "list-returning")]
    gen = biggen.Big(rng, strings="any")
    feats = {}
    for i in range(ctx.n(150, 2500)):
        s = gen.program()
        srcs.append((f"big{i}", s))
        feats[f"big{i}"] = set(gen.features)
    # core scripts whose top-level branches / loops introduce names that later top-level statements assign again (hoisted globals)
    for i in range(ctx.n(60, 800)):
        srcs.append((f"promo{i}", langgen.py_source(langgen.G(rng, max_depth=rng.choice([2, 3]), promote=True).program())))
    outs = [cxx.transpile(s) for _, s in srcs]
    acc = [(n, s, cpp) for (n, s), (cpp, e) in zip(srcs, outs) if cpp is not None]
    ctx.count("big:accepted", len(acc))
    ctx.count("big:rejected", len(srcs) - len(acc))
    results = cxx.run_many(ctx, [(cpp, 1, "") for _, _, cpp in acc])
    for (n, s, cpp), res in zip(acc, results):
        for f in feats.get(n, ()):
            ctx.count("feature:" + f.split(".")[0])
        ctx.case(s, nontrivial=True)
        shape(ctx, s, cpp)
        ctx.cov["traces_validated_against_impl"] += 1
        if res.compile_error:
            ctx.fail(key_of(res.compile_error), f"accepted script does not compile: {res.compile_error[:400]}", {"script": s, "name": n})
        elif not res.ok:
            ctx.count("big:compiled-but-pass-did-not-finish")       # run-time behaviour is C01/C09's subject, not this property's


def list_values(ctx):
    """list VALUES that are not named variables — a list literal, a helper's result, a comprehension, a row of a nested list — subscripted
    (constant / variable / negative index), measured, passed to a helper, bound to a new name, spliced into an f-string; int, float, bool
    and str elements; at top level, in branches, loops and the main loop: every accepted script must compile, link and run one pass.
    Own PRNG stream (the older generators keep theirs)."""
    import random
    import listgen
    rng = random.Random(f"{ctx.seed}:C06:list-values")
    gen = listgen.ListGen(rng)
    srcs, feats = [], []
    for i in range(ctx.n(70, 1200)):
        srcs.append(gen.program())
        feats.append(set(gen.features))
    outs = [cxx.transpile(s) for s in srcs]
    acc = [(s, f, cpp) for s, f, (cpp, e) in zip(srcs, feats, outs) if cpp is not None]
    ctx.count("list-values:accepted", len(acc))
    ctx.count("list-values:rejected", len(srcs) - len(acc))
    for (s, fs, cpp), res in zip(acc, cxx.run_many(ctx, [(cpp, 1, "") for _, _, cpp in acc])):
        for f in fs:
            ctx.count("feature:" + f)
        ctx.case(s, nontrivial=True)
        shape(ctx, s, cpp)
        ctx.cov["traces_validated_against_impl"] += 1
        if res.compile_error:
            ctx.fail(key_of(res.compile_error), f"accepted script (list values) does not compile: {res.compile_error[:400]}", {"script": s})
        elif not res.ok:
            ctx.count("list-values:compiled-but-pass-did-not-finish")


def run(ctx: Ctx) -> int:
    ctx.prove(["Reduino.Props.C06", "Reduino.GenOb.Escape"])
    common.fresh_import()
    strings(ctx)
    scoping(ctx)
    unicode_strings(ctx)
    witnesses(ctx)
    must_compile(ctx)
    compile_all(ctx)
    list_values(ctx)
    ctx.cov["rule"] = ("(1) random strings over printable ASCII, heavy on quote/backslash, plus non-ASCII samples: model literal vs parser function, and bytes printed by the compiled "
                       "firmware at three literal sites; (2) core-fragment scripts incl. unbound and out-of-scope reads: WF model vs g++ -fsyntax-only; (3) feature pool + large "
                       "random scripts (devices in every combination and accepted call shape, helpers, lists, strings, control flow, nested first assignments): compile, link, run one pass; "
                       "(4) string literals with printable non-ASCII characters (BMP and beyond U+FFFF) at every literal site — Serial text direct / via a variable / concatenated, "
                       "f-string pieces, LCD text: model literal vs parser function, compile, UTF-8 bytes on the wire; (5) list values that are not named variables (literal, helper "
                       "result, comprehension, nested row; int/float/bool/str) subscripted, measured, passed, bound, in f-strings: compile, link, run one pass")
    return ctx.finish(TRUSTED, search=None)
