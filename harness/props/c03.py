"""C03 — transpile-time evaluation (constant folding / propagation) never changes meaning.

Proof: lean/Reduino/Props/C03.lean — (a) the evaluator is monotone in the environment (a folded value is the value under every
completion), chained comparisons are conjunctions of adjacent comparisons; (b) for every FoldSafe script the emitted program observes
on EVERY path what the source observes; four witnesses against the unrestricted statement.
Ties: Lang.EC.eval vs parser._eval_const vs CPython's own eval on name-free expressions; ConstEnv fold sites vs the emitted text
(which `len(name)` became a constant, and which constant); model source trace vs CPython; model emitted trace vs compiled firmware.
Oracle E: firmware vs CPython on scripts with fold sites under branches decided at run time, loops and the main loop; folded
delays of name-free arguments; metamorphic twin with every constant routed through a run-time variable; straight-line list bookkeeping
(append / remove of present, absent and falsy values) read by len() and flash_pattern(), against CPython and a literal twin."""
from __future__ import annotations

import ast
import importlib
import re

import cegen
import common
import lateinit
import cxx
import pyoracle
from common import Ctx
from props import c11

TRUSTED = [
    "Lean 4.33 kernel; axioms ⊆ {propext, Classical.choice, Quot.sound}",
    "the constant-environment model covers str and list-of-int values read by len(); flash_pattern/glyph/sensor-model fold sites read the same environment and are covered by the end-to-end oracle only",
    "the evaluator model covers int/bool/str/list values and the whole operator table (float values outside: `/` answers 'ok float', compared at the root only; see C11)",
    "mock core + host g++",
]
PRINT_K = re.compile(r"Serial\.println\((\d+)\);")
PRINT_R = re.compile(r"Serial\.println\(static_cast<int>\(__redu_len\((\w+)\)\)\);")


def evaluator(ctx):
    """(a) name-free expressions: model = _eval_const = Python"""
    P = importlib.import_module("Reduino.transpile.parser")
    rng = ctx.rng
    cases = [c11.gen_expr(rng, rng.choice([1, 2, 3]), []) for _ in range(ctx.n(800, 12000))] + c11.directed_float_cases()
    # chained comparisons whose middle operand decides
    for _ in range(ctx.n(100, 1500)):
        a, b, c = (rng.randint(0, 12) for _ in range(3))
        o1, o2 = (rng.choice(["lt", "le", "gt", "ge", "eq", "ne"]) for _ in range(2))
        sym = {"eq": "==", "ne": "!=", "lt": "<", "le": "<=", "gt": ">", "ge": ">="}
        cases.append((f"({a} {sym[o1]} {b} {sym[o2]} {c})", f"(cmp (c (i {a})) ({o1} (c (i {b}))) ({o2} (c (i {c}))))"))
    model = ctx.lean.drive([f"ec|-|{sx}" for _, sx in cases])
    for (src, sx), m in zip(cases, model):
        if "undefined_name" in src:
            continue
        try:
            ast.parse(src, mode="eval")
        except SyntaxError:
            continue
        try:
            v = P._eval_const(src, {})
            impl = "ok " + c11.canon(v)
        except ValueError:
            impl = "err value"
        except RecursionError:
            continue
        except Exception:  # noqa: BLE001
            impl = "err py"
        ctx.count("eval:" + impl.split(" ")[0])
        ctx.case("eval:" + sx, nontrivial=impl.startswith("ok"))
        ctx.cov["traces_validated_against_impl"] += 1
        if c11.outcome_relation(m, impl, sx) == "diff" and "other:" not in impl:
            ctx.tie_diff("tie evalConst (Lang.EC.eval vs _eval_const)", {"expr": src, "sexpr": sx}, m, impl)
        if impl.startswith("ok"):
            try:
                refv = eval(src, {"__builtins__": {"len": len, "abs": abs, "int": int, "bool": bool, "str": str, "max": max, "min": min}})
                ref = "ok " + c11.canon(refv)
            except Exception:  # noqa: BLE001
                ctx.count("eval:python-raises")      # no run-time value to compare with (accepting it at all is C11's subject)
                continue
            # equal as Python values (True == 1: `+True` is kept as True by the evaluator); a str is only equal to the same str
            if not (v == refv and isinstance(v, str) == isinstance(refv, str)) and "other:" not in ref:
                ctx.fail("fold:evaluator-differs-from-python", f"_eval_const({src!r}) = {impl} but Python evaluates it to {ref}", {"expr": src})


def folded_delays(ctx):
    """name-free arguments folded into the firmware: sleep(<expr>) must delay int(<expr>) ms"""
    rng = ctx.rng
    srcs, wants = [], []
    for _ in range(ctx.n(40, 400)):
        exprs = []
        while len(exprs) < 6:
            a, b, c = (rng.randint(0, 12) for _ in range(3))
            sym = ["<", "<=", ">", ">=", "==", "!="]
            e = rng.choice([f"{rng.randint(1, 9) * 10} if {a} {rng.choice(sym)} {b} {rng.choice(sym)} {c} else {rng.randint(1, 9)}",
                            f"{a} * {b} + {c}", f"max({a}, {b}) - min({b}, {c}) + 20", f"abs({a} - {b}) + len(\"{'x' * c}\")", f"({a} < {b}) + ({b} < {c}) + 1"])
            exprs.append(e)
        srcs.append("from Reduino.Utils import sleep\n" + "".join(f"sleep({e})\n" for e in exprs))
        wants.append([int(eval(e)) for e in exprs])
    outs = [cxx.transpile(s) for s in srcs]
    jobs = [(cpp, 0, "") for cpp, e in outs if cpp is not None]
    it = iter(cxx.run_many(ctx, jobs))
    for src, want, (cpp, exc) in zip(srcs, wants, outs):
        if cpp is None:
            ctx.count("delay-script-rejected")
            continue
        res = next(it)
        ctx.case(src, nontrivial=True)
        got = [int(l.split(" ")[1]) for l in res.trace if l.startswith("delay ")]
        ctx.cov["traces_validated_against_impl"] += 1
        if got != want:
            ctx.fail("fold:folded-argument-differs", f"delays {got} where Python sleeps {want}", {"script": src})


def lens(txt):
    if txt in ("none", ""):
        return None if txt == "none" else []
    out = []
    for v in txt.split(";"):
        out.append(len(bytes.fromhex(v[2:])) if v.startswith("s") else (0 if v == "l" else len(v[1:].split(","))))
    return out


def const_env(ctx):
    rng = ctx.rng
    progs = [cegen.CEGen(rng, safe_bias=0.5).program() for _ in range(ctx.n(150, 2000))]
    srcs = [cegen.py_source(p) for p in progs]
    chs = [cegen.choices(p) for p in progs]
    model = ctx.lean.drive([f"ce|{cegen.sx_prog(p)}|{','.join(map(str, c))}" for p, c in zip(progs, chs)])
    outs = [cxx.transpile(s) for s in srcs]
    jobs = [(cpp, cegen.PASSES, "") for cpp, e in outs if cpp is not None]
    it = iter(cxx.run_many(ctx, jobs))
    for p, src, m, (cpp, exc) in zip(progs, srcs, model, outs):
        replay = {"script": src}
        f = dict(kv.split("=", 1) for kv in m.split(" ") if "=" in kv)
        sites = re.search(r"sites=(.*?) safe=", m).group(1).split(" ") if "sites= safe" not in m else []
        sites = [s for s in sites if s]
        safe = f.get("safe") == "T"
        ctx.count("script:" + ("fold-safe" if safe else "not-fold-safe"))
        ctx.case(src, nontrivial=bool(sites), sample={"script": src, "model": m[:200]} if len(ctx.cov["samples"]) < 2 else None)
        if cpp is None:
            ctx.count("script:rejected:" + str(exc)[:40])
            continue
        res = next(it)
        if res.compile_error or not res.ok:
            ctx.fail("fold:compile", (res.compile_error or res.stderr)[:300], replay)
            continue
        ctx.cov["traces_validated_against_impl"] += 1
        # T: which sites were folded, and to what
        real_sites = []
        for line in cpp.split("\n"):
            mk, mr = PRINT_K.search(line), PRINT_R.search(line)
            if mk:
                real_sites.append("K" + mk.group(1))
            elif mr:
                real_sites.append("R")
        model_sites = ["R" if s == "R" else "K" + str(lens(s[1:])[0]) for s in sites]
        if real_sites != model_sites:
            ctx.tie_diff("tie T (ConstEnv fold sites vs emitted text)", replay, " ".join(model_sites), " ".join(real_sites))
        ev, err = pyoracle.run_script(src, cegen.PASSES)
        if err is not None:
            ctx.tie_diff("generator invariant (scripts run under CPython)", replay, repr(err), "")
            continue
        pyv = [int(e[1]) for e in ev if e[0] == "w"]
        fwv = [int(e[1]) for e in pyoracle.fw_events(res.trace) if e[0] == "w"]
        if lens(f.get("src", "none")) != pyv:
            ctx.tie_diff("tie S_py (model source trace vs CPython)", replay, str(lens(f.get("src", "none"))), str(pyv))
        if lens(f.get("out", "none")) != fwv:
            ctx.tie_diff("tie S_c (model emitted trace vs compiled firmware)", replay, str(lens(f.get("out", "none"))), str(fwv))
        if pyv != fwv:
            i = next((j for j, (a, b) in enumerate(zip(pyv, fwv)) if a != b), min(len(pyv), len(fwv)))
            if safe:
                ctx.fail("fold:safe-script-differs", f"firmware prints {fwv} where Python prints {pyv} although every folded name is only written at top level", replay)
            else:
                # name the cause: a name read by a fold site and written inside a nested block
                cause = None
                for s in re.findall(r"len\((\w+)\)", src):
                    cause = cause or cegen.nested_write_kind(p, s)
                if real_sites != model_sites or lens(f.get("out", "none")) != fwv:
                    # not what the model of the CURRENT folding rules predicts: not one of the recorded consequences of those rules
                    ctx.fail("fold:not-as-modelled-" + (cause or "unknown"), f"firmware prints {fwv} where Python prints {pyv} (observation {i}); the modelled rules predict {lens(f.get('out', 'none'))}", replay)
                else:
                    ctx.fail("fold:stale-" + (cause or "unknown"), f"firmware prints {fwv} where Python prints {pyv} (observation {i})", replay)


def shadowing(ctx):
    """parameters and loop variables hide module-level constants"""
    head = "from Reduino.Communication import SerialMonitor\nmon = SerialMonitor(9600)\n"
    rng = ctx.rng
    srcs = []
    for _ in range(ctx.n(20, 200)):
        g = "".join(rng.choice("abcdef") for _ in range(rng.randint(1, 6)))
        a = "".join(rng.choice("xyz") for _ in range(rng.randint(0, 8)))
        l1 = [rng.randint(0, 9) for _ in range(rng.randint(1, 4))]
        l2 = [rng.randint(0, 9) for _ in range(rng.randint(1, 5))]
        srcs.append(head + f'msg = "{g}"\ndef count(msg):\n    return len(msg)\nn = count("{a}")\nmon.write(n)\nmon.write(len(msg))\n')
        srcs.append(head + f"data = {l1}\ndef size(data):\n    return len(data)\nm = size({l2})\nmon.write(m)\nmon.write(len(data))\n")
        srcs.append(head + f'msg = "{g}"\ndef twice(msg):\n    n = len(msg)\n    return n + len(msg)\nw = "{a}"\nt = twice(w)\nmon.write(t)\n')
    outs = [cxx.transpile(s) for s in srcs]
    jobs = [(cpp, 0, "") for cpp, e in outs if cpp is not None]
    it = iter(cxx.run_many(ctx, jobs))
    for src, (cpp, exc) in zip(srcs, outs):
        if cpp is None:
            ctx.count("shadow:rejected")
            continue
        res = next(it)
        ctx.case(src, nontrivial=True)
        if res.compile_error:
            ctx.count("shadow:does-not-compile")
            continue
        ev, err = pyoracle.run_script(src, 0)
        if err is not None:
            continue
        pyv = [e[1] for e in ev if e[0] == "w"]
        fwv = [e[1] for e in pyoracle.fw_events(res.trace) if e[0] == "w"]
        ctx.cov["traces_validated_against_impl"] += 1
        if pyv != fwv:
            ctx.fail("fold:shadowed-constant", f"firmware prints {fwv} where Python prints {pyv}: a parameter hides a module-level constant of the same name", {"script": src})


def tracked_lists(ctx):
    """straight-line list bookkeeping at transpile time: append / remove of present and ABSENT constants (the latter inside try/except,
    a no-op in Python once the ValueError is caught), falsy elements, then folded len() and len()-based indexing"""
    head = "from Reduino.Communication import SerialMonitor\nmon = SerialMonitor(9600)\n"
    rng = ctx.rng
    srcs = []
    for _ in range(ctx.n(40, 400)):
        xs = [rng.choice([0, 0, 1, 2, 3, 5, 8]) for _ in range(rng.randint(2, 5))]
        lines = [f"xs = {xs}"]
        cur = list(xs)
        for _ in range(rng.randint(1, 5)):
            k = rng.choice(["ap", "rm", "rmx", "len", "last"])
            if k == "ap":
                v = rng.choice([0, 4, 9])
                cur.append(v)
                lines.append(f"xs.append({v})")
            elif k == "rm" and cur:
                v = rng.choice(cur)
                cur.remove(v)
                lines.append(f"xs.remove({v})")
            elif k == "rmx":
                v = rng.choice([x for x in (6, 7, 11, 0) if x not in cur] or [13])
                lines += ["try:", f"    xs.remove({v})", "except:", "    mon.write(99)"]
            elif k == "last" and cur:
                lines.append("mon.write(xs[len(xs) - 1])")
            else:
                lines.append("mon.write(len(xs))")
        lines.append("mon.write(len(xs))")
        srcs.append(head + "\n".join(lines) + "\n")
    outs = [cxx.transpile(s) for s in srcs]
    jobs = [(cpp, 0, "") for cpp, e in outs if cpp is not None]
    it = iter(cxx.run_many(ctx, jobs))
    for src, (cpp, exc) in zip(srcs, outs):
        if cpp is None:
            ctx.count("tracked-list:rejected")
            continue
        res = next(it)
        ctx.case(src, nontrivial=True)
        if res.compile_error or not res.ok:
            ctx.count("tracked-list:does-not-compile-or-run")
            continue
        ev, err = pyoracle.run_script(src, 0)
        if err is not None:
            continue
        # the firmware has no exceptions: the `except` body never runs there; compare everything else
        pyv = [e[1] for e in ev if e[0] == "w" and e[1] != "99"]
        fwv = [e[1] for e in pyoracle.fw_events(res.trace) if e[0] == "w" and e[1] != "99"]
        ctx.cov["traces_validated_against_impl"] += 1
        ctx.count("tracked-list")
        if pyv != fwv:
            ctx.fail("fold:tracked-list-straight-line", f"firmware prints {fwv} where Python prints {pyv} for straight-line list bookkeeping", {"script": src})


def tracked_patterns(ctx):
    """the same straight-line bookkeeping read by the OTHER consumers of the tracked value: led.flash_pattern(xs) bakes the pattern,
    len(xs) the length.  int and bool lists, falsy elements (0 / False) favoured, every removal of a present value; twin P' takes the
    values Python has at that point as literals (the mutations stay): the two firmwares must write the same pins, and both must agree
    with CPython's serial lines and delays.  Own PRNG stream (the older generators keep theirs)."""
    import random
    rng = random.Random(f"{ctx.seed}:C03:tracked-patterns")
    head = "from Reduino.Actuators import Led\nfrom Reduino.Communication import SerialMonitor\nmon = SerialMonitor(9600)\nled = Led(13)\n"
    pairs = []
    for _ in range(ctx.n(40, 400)):
        kind = rng.choice(["int", "int", "bool"])
        pool = [0, 0, 0, 1, 1, 40, 90, 255] if kind == "int" else [False, False, True]
        fresh = [0, 1, 120] if kind == "int" else [False, True]
        xs = [rng.choice(pool) for _ in range(rng.randint(2, 5))]
        a, b = [f"xs = {xs}"], [f"xs = {xs}"]
        cur = list(xs)
        for _ in range(rng.randint(1, 5)):
            k = rng.choice(["ap", "rm", "rm", "rmx", "len", "flash"])
            if k == "ap":
                v = rng.choice(fresh)
                cur.append(v)
                a.append(f"xs.append({v})"); b.append(f"xs.append({v})")
            elif k == "rm" and len(cur) > 1:
                v = rng.choice(cur)
                cur.remove(v)
                a.append(f"xs.remove({v})"); b.append(f"xs.remove({v})")
            elif k == "rmx" and kind == "int":
                v = rng.choice([x for x in (0, 6, 7) if x not in cur] or [13])
                t = ["try:", f"    xs.remove({v})", "except:", "    mon.write(99)"]
                a += t; b += t
            elif k == "flash":
                d = rng.choice([5, 10, 20])
                a.append(f"led.flash_pattern(xs, {d})"); b.append(f"led.flash_pattern({cur}, {d})")
            else:
                a.append("mon.write(len(xs))"); b.append(f"mon.write({len(cur)})")
        d = rng.choice([5, 10, 20])
        a += [f"led.flash_pattern(xs, {d})", "mon.write(len(xs))"]
        b += [f"led.flash_pattern({cur}, {d})", f"mon.write({len(cur)})"]
        pairs.append((head + "\n".join(a) + "\n", head + "\n".join(b) + "\n"))
    outs = [(cxx.transpile(p), cxx.transpile(q)) for p, q in pairs]
    jobs = []
    for (cp, _), (cq, _) in outs:
        if cp is not None and cq is not None:
            jobs += [(cp, 0, ""), (cq, 0, "")]
    it = iter(cxx.run_many(ctx, jobs))
    for (p, q), ((cp, ep), (cq, eq)) in zip(pairs, outs):
        if cp is None or cq is None:
            ctx.count("tracked-pattern:rejected")
            continue
        rp, rq = next(it), next(it)
        ctx.case(p, nontrivial=True)
        if rp.compile_error or rq.compile_error or not rp.ok or not rq.ok:
            ctx.count("tracked-pattern:does-not-compile-or-run")
            continue
        ctx.cov["traces_validated_against_impl"] += 1
        ctx.count("tracked-pattern")
        replay = {"script": p, "twin": q}
        keep = lambda tr: [l for l in tr if l.split(" ")[0] in ("dw", "aw", "delay", "println") and l != "println x3939"]
        if keep(rp.trace) != keep(rq.trace):
            i = next((j for j, (x, y) in enumerate(zip(keep(rp.trace), keep(rq.trace))) if x != y), min(len(keep(rp.trace)), len(keep(rq.trace))))
            ctx.fail("fold:tracked-list-pattern", f"firmware of the script and of its twin (values written out as literals) differ at event {i}: "
                     f"{keep(rp.trace)[i:i + 4]} vs {keep(rq.trace)[i:i + 4]}", replay)
            continue
        ev, err = pyoracle.run_script(p, 0)
        if err is not None:
            continue
        pyv = [e for e in ev if e != ("w", "99")]
        fwv = [e for e in pyoracle.fw_events(rp.trace) if e != ("w", "99")]
        if pyv != fwv:
            ctx.fail("fold:tracked-list-pattern", f"firmware serial lines/delays {fwv} where Python gives {pyv}", replay)


def run(ctx: Ctx) -> int:
    ctx.prove(["Reduino.Props.C03"])
    common.fresh_import()
    evaluator(ctx)
    folded_delays(ctx)
    const_env(ctx)
    shadowing(ctx)
    tracked_lists(ctx)
    tracked_patterns(ctx)
    lateinit.check(ctx, "fold:global-initialiser-order", 40, 400)
    ctx.cov["rule"] = ("(a) random name-free expressions + chained comparisons: model vs _eval_const vs Python eval; folded sleep() arguments vs firmware delays; "
                       "(b) random scripts over str/list names with len() fold sites, appends/removes, rebinding, branches decided by a run-time value, loops, main loop "
                       "(half of them fold-safe by construction): fold sites vs emitted text, model traces vs CPython and firmware, firmware vs CPython; (c) parameters shadowing constants; "
                       "(d) straight-line append/remove (present, absent, falsy 0/False values) on tracked int and bool lists read by len(), len()-based indexing and "
                       "led.flash_pattern(): firmware vs CPython and vs the twin with the values written out as literals")
    return ctx.finish(TRUSTED, search=None)
