"""C13 — registry validation is exact; project files round-trip.

Proof: lean/Reduino/Props/C13.lean + GenOb/Pio.lean (partition of the CURRENT registry by decide +kernel).
Ties: validate (model on Gen.registry vs validate_platform_board), write_project (model text / parsed form vs the real
file read back with configparser; main.cpp bytes; directory listing; audit of touched paths), and the INI-reader model
vs Python's configparser on generated INI texts.

write_project runs over FRESH directories (first stream) and over RE-USED project directories (second stream, own PRNG): the directory
already holds a src/main.cpp and/or platformio.ini left by an earlier generation (another source / the same source / the same text with
other line terminators, BOM, Unicode normal form, trailing newline ...) or by something else (bytes that are not UTF-8, UTF-16, empty file,
a longer file that starts with the new source, an INI with extra sections); the same oracles apply after the new generation: main.cpp is
the given source byte for byte and platformio.ini reads back as given — "always writes" holds whatever was there before."""
from __future__ import annotations

import configparser
import importlib
import os
import random
import shutil
import sys
import unicodedata
from pathlib import Path

import common
from common import Ctx, hexs

TRUSTED = [
    "Lean 4.33 kernel; axioms ⊆ {propext, Classical.choice, Quot.sound}; decide +kernel for the 303-board partition",
    "harness/extract.py (Gen.registry, Gen.pioIniTemplate re-extracted from the imported module every run)",
    "the line-level INI reader model (tied to Python configparser(interpolation=None) by differential testing here)",
    "text -> lines splitting, the final .rstrip() and UTF-8 file round-trip are covered by the tie only",
    "filesystem facts (main.cpp verbatim, nothing outside the project dir) rest on the audit hook + directory listing",
    "re-used project directories: the stale contents are a finite family (text variants of the new source, raw byte patterns, earlier generations)",
]

_AUDIT = {"on": False, "events": []}


def _hook(event, args):
    if not _AUDIT["on"]:
        return
    if event == "open":
        path, mode, flags = args
        if isinstance(flags, int) and (flags & (os.O_WRONLY | os.O_RDWR | os.O_CREAT | os.O_TRUNC | os.O_APPEND)):
            _AUDIT["events"].append(("open-w", str(path)))
    elif event in ("os.mkdir", "os.remove", "os.rename", "os.rmdir", "os.symlink", "os.link", "shutil.rmtree", "os.chmod", "os.truncate"):
        _AUDIT["events"].append((event, str(args[0])))
    elif event in ("subprocess.Popen", "os.system", "socket.connect"):
        _AUDIT["events"].append((event, str(args[0])))


_HOOKED = False


def install_hook():
    global _HOOKED
    if not _HOOKED:
        sys.addaudithook(_hook)
        _HOOKED = True


def near_misses(names, rng, k):
    out = set()
    pool = sorted(names)
    for n in rng.sample(pool, min(k, len(pool))):
        out.update({n.upper(), n.lower(), n.capitalize(), n.swapcase(), n + " ", " " + n, n + "x", n[:-1], n[1:], n.replace("_", "-"), n.replace("-", "_"),
                    n + "\n", n.replace("a", "A", 1), n * 2})
    out.update({"", " ", "uno ", "Uno", "UNO", "nano_every ", "atmelavr ", "AtmelAVR", "atmel", "avr", "None"})
    return sorted(out - set(names))


def cp_read(text: str):
    cp = configparser.ConfigParser(interpolation=None)
    try:
        cp.read_string(text)
    except (configparser.DuplicateOptionError, configparser.DuplicateSectionError):
        return "dup"
    except configparser.Error:
        return "error"
    return ";".join(hexs(s) + ":" + ",".join(hexs(k) + "=" + hexs(v) for k, v in cp._sections[s].items()) for s in cp.sections())


def dedup(libs):
    out = []
    for l in libs:
        if l and l not in out:
            out.append(l)
    return out


PORT_CHARS = "abcXYZ019/_-.:=;#[]%$ ,\\~{}()'\"!?*+<>@^`|&"
LIBS = ["Servo", "LiquidCrystal", "LiquidCrystal_I2C", "Adafruit NeoPixel", "bblanchon/ArduinoJson @ ^6.21", "Wire", "a=b", "x:y", "lib;v", "q#r"]


def wf_value(v: str) -> bool:
    return "\n" not in v and "\r" not in v and v.strip() == v and all(32 <= ord(c) < 127 or ord(c) > 160 for c in v)


def gen_port(rng):
    r = rng.random()
    if r < 0.3:
        return rng.choice(["/dev/ttyACM0", "/dev/ttyUSB0", "COM3", "COM12", "/dev/cu.usbmodem1411", "192.168.1.7", "usb: 1-2"])
    n = rng.randint(1, 14)
    s = "".join(rng.choice(PORT_CHARS) for _ in range(n)).strip()
    return s or "p"


REUSE_SOURCES = [
    "void setup() {}\nvoid loop() {}\n", "// héllo — ünïcode ✓\nvoid setup(){}\nvoid loop(){}\n", "int x;\n", "int x;\r", "a\r\nb\r\n", "a\nb\rc\r\nd",
    "no newline at end", "\n", "#include <Arduino.h>\r\n\r\nvoid setup() {\r\n  pinMode(13, OUTPUT);\r\n}\r\nvoid loop() {}\r\n", "caf\u00e9 \u212b\n",
    "tab\tand  trailing  \n\n\n", "x\x0by\x0cz\x1c\x85\u2028w\n",
]


def text_variants(s: str):
    """texts a careless comparison (newline translation, strip, normalisation, case, prefix) could take for `s`"""
    out = [s, s.replace("\r\n", "\n"), s.replace("\r\n", "\n").replace("\r", "\n"), s.replace("\r\n", "\n").replace("\n", "\r\n"),
           s.replace("\r\n", "\n").replace("\n", "\r"), s.replace("\r", "\n"), s.replace("\n", "\r"), s + "\n", s + "\r\n", s.rstrip("\n"), s.rstrip(), s.strip(),
           "\ufeff" + s, s.upper(), s.lower(), s[:-1], s + s, s + "// more\n", unicodedata.normalize("NFD", s), unicodedata.normalize("NFKC", s),
           s.replace("\t", "    "), s.replace("  ", " "), s.replace("\x0b", "\n").replace("\x0c", "\n").replace("\x85", "\n").replace("\u2028", "\n")]
    return out


def gen_stale(rng, src: str):
    """what a re-used project directory holds before the generation under test: (description, main.cpp bytes | None, platformio.ini bytes | None | 'prev')"""
    r = rng.random()
    if r < 0.6:
        vs = text_variants(src)
        i = rng.randrange(len(vs))
        main = vs[i].encode("utf-8")
        how = f"text-variant-{i}" + ("(identical)" if vs[i] == src else "")
    elif r < 0.9:
        raw = [src.encode("latin-1", "replace") + b"\xe9\n", src.encode("utf-16"), b"\xff\xfe\x00\x80garbage", b"", src.encode("utf-8") + b"\x80",
               b"\xc3" + src.encode("utf-8"), src.encode("utf-8")[:-1], b"\x00" * 5, src.encode("utf-8").replace(b"\n", b"\n\x00")]
        i = rng.randrange(len(raw))
        main, how = raw[i], f"raw-bytes-{i}"
    else:
        main, how = None, "no-main.cpp"
    q = rng.random()
    ini = "prev" if q < 0.6 else None if q < 0.75 else rng.choice([b"\xff\xfe[env", b"", b"[env:old]\nplatform = x\n[env:other]\nboard = y\n", b"[platformio]\ndefault_envs = zz\n"])
    return how, main, ini


def gen_ini_text(rng):
    """structured random INI text for the reader-model tie (distinct sections, distinct keys)"""
    lines = []
    nsec = rng.randint(0, 3)
    if rng.random() < 0.1:
        lines.append(rng.choice(["k = v", "novalue", " = x"]))
    for si in range(nsec):
        name = rng.choice(["env:uno", "s", "a]b", "x y", "env:a_b", "Sec"]) + str(si)
        lines.append(rng.choice(["[{}]", "[{}]  ", "  [{}]", "[{}] trailing", "[{}]]"]).format(name))
        keys = rng.sample(["platform", "board", "lib_deps", "Key", "k1", "upload_port", "x y"], rng.randint(0, 4))
        for k in keys:
            delim = rng.choice([" = ", "=", " : ", ":", " =", "= "])
            v = rng.choice(["", "v", "a b", "x=y", "#no", "  sp  ", "[z]", "1;2", "é"])
            lines.append(rng.choice(["", " "]) * rng.randint(0, 1) + k + delim + v)
            for _ in range(rng.randint(0, 3)):
                lines.append(rng.choice(["  cont", "\tc2", "", "   ", "# comment", "  ; c", "    deep x", " k2 = notakey"]))
        if rng.random() < 0.15:
            lines.append(rng.choice(["nodelim", "= v"]))
    return "\n".join(lines) + rng.choice(["", "\n", "\n\n"])


def run(ctx: Ctx) -> int:
    ctx.prove(["Reduino.Props.C13"])
    common.fresh_import()
    pio = importlib.import_module("Reduino.toolchain.pio")
    rng = ctx.rng
    install_hook()
    plats = dict(pio.SUPPORTED_PLATFORMS)
    all_boards = sorted(set().union(*plats.values()))

    # ---- oracle on the data: every board in exactly one platform --------------------------------------
    for b in all_boards:
        owners = [p for p, bs in plats.items() if b in bs]
        if len(owners) != 1:
            ctx.fail(f"registry:multi:{b}", f"board {b!r} is registered for {owners}", {"board": b, "owners": owners})

    # ---- validate ---------------------------------------------------------------------------------------
    pnames = sorted(plats) + near_misses(plats, rng, 2)
    bnames = all_boards + near_misses(all_boards, rng, ctx.n(25, 303))
    pairs = [(p, b) for p in pnames for b in bnames]
    if ctx.tier != "thorough" and not ctx.broken:
        keep = [(p, b) for (p, b) in pairs if p in plats and b in all_boards]
        rest = [x for x in pairs if x not in set(keep)]
        pairs = keep + rng.sample(rest, min(len(rest), 20000))
    lines = [f"validate|{hexs(p)}|{hexs(b)}" for p, b in pairs]
    model = ctx.lean.drive(lines)
    acc_n = 0
    for (p, b), line, m in zip(pairs, lines, model):
        try:
            # arguments as a caller builds them at run time (config file, argv): equal to the registry keys, never the same objects
            pio.validate_platform_board("".join(list(p)), "".join(list(b)))
            impl = "ok"
        except ValueError:
            impl = "reject"
        mm = "ok" if m == "ok" else "reject"
        acc_n += impl == "ok"
        ctx.cov["traces_validated_against_impl"] += 1
        ctx.case(line, nontrivial=(impl == "ok" or p in plats))
        if mm != impl:
            ctx.tie_diff("tie validate (model on Gen.registry vs validate_platform_board)", {"platform": p, "board": b}, m, impl)
        owners = [q for q, bs in plats.items() if b in bs]
        want = "ok" if owners == [p] else "reject"
        if impl != want:
            ctx.fail(f"validate:{'accepts' if impl == 'ok' else 'rejects'}", f"validate_platform_board({p!r}, {b!r}) {impl}, board registered for {owners}",
                     {"platform": p, "board": b, "owners": owners})
    ctx.count("validate pairs", len(pairs))
    ctx.count("validate accepted", acc_n)

    # ---- write_project -------------------------------------------------------------------------------------
    root = ctx.work / "proj"
    sources = ["void setup() {}\nvoid loop() {}\n", "// héllo — ünïcode ✓\nvoid setup(){}\nvoid loop(){}\n", "", "no newline at end", "\r\nCRLF\r\n\ttabs  \n\n"]
    hyph = [b for b in all_boards if not b.replace("_", "").isalnum()]
    cases = []
    for i in range(ctx.n(150, 2500)):
        plat = rng.choice(sorted(plats))
        board = rng.choice(hyph) if (hyph and rng.random() < 0.25 and plat == "atmelavr") else rng.choice(sorted(plats[plat]))
        if board not in plats[plat]:
            board = rng.choice(sorted(plats[plat]))
        port = gen_port(rng)
        libs = [rng.choice(LIBS + ["", ""]) for _ in range(rng.randint(0, 6))]
        if rng.random() < 0.2:
            libs = None if rng.random() < 0.5 else []
        cases.append((plat, board, port, libs, rng.choice(sources), None))
    # out-of-domain stream: exactly one ill-formed ingredient (classified, not generated into the theorem's domain)
    for port in [" COM3", "COM3 ", "\tCOM3"]:
        cases.append(("atmelavr", "uno", port, ["Servo"], sources[0], None))
    # re-use stream (own PRNG, so the streams above and below stay what they were): the directory already holds files
    rng2 = random.Random(f"{ctx.seed}:C13:reuse")
    reuse = []
    for src in REUSE_SOURCES:                       # every source against every variant of itself, once
        for j, v in enumerate(text_variants(src)):
            reuse.append((src, (f"text-variant-{j}" + ("(identical)" if v == src else ""), v.encode("utf-8"), "prev")))
    for i in range(ctx.n(250, 3000)):
        src = rng2.choice(REUSE_SOURCES + sources)
        reuse.append((src, gen_stale(rng2, src)))
    for src, stale in reuse:
        plat = rng2.choice(sorted(plats))
        board = rng2.choice(sorted(plats[plat]))
        libs = [rng2.choice(LIBS + [""]) for _ in range(rng2.randint(0, 4))]
        cases.append((plat, board, gen_port(rng2), libs, src, stale))
    lines = []
    for plat, board, port, libs, src, stale in cases:
        ll = "-" if not libs else ",".join(hexs(l) for l in libs)
        lines.append(f"ini|{hexs(port)}|{hexs(plat)}|{hexs(board)}|{ll}")
    model = ctx.lean.drive(lines)
    for (plat, board, port, libs, src, stale), line, m in zip(cases, lines, model):
        shutil.rmtree(root, ignore_errors=True)
        root.mkdir(parents=True)
        replay = {"platform": plat, "board": board, "port": port, "libs": libs, "source": src}
        if stale is not None:
            how, old_main, old_ini = stale
            if old_ini == "prev":       # an earlier generation with other settings (any registered pair)
                p0 = rng2.choice(sorted(plats))
                pio.write_project(root, "// earlier sketch\n", port=gen_port(rng2), platform=p0, board=rng2.choice(sorted(plats[p0])), lib_deps=[rng2.choice(LIBS)])
                (root / "src" / "main.cpp").unlink()
            elif old_ini is not None:
                (root / "platformio.ini").write_bytes(old_ini)
            if old_main is not None:
                (root / "src").mkdir(exist_ok=True)
                (root / "src" / "main.cpp").write_bytes(old_main)
            replay["project_dir_before"] = {"how": how, "src/main.cpp": None if old_main is None else old_main.hex(),
                                            "src/main.cpp (repr)": None if old_main is None else repr(old_main)[:200],
                                            "platformio.ini": old_ini if isinstance(old_ini, (str, type(None))) else repr(old_ini)}
            ctx.count("reuse:" + how.split("-")[0] + ("(identical)" if "(identical)" in how else ""))
        before = set(os.listdir(ctx.work))
        _AUDIT["events"] = []
        _AUDIT["on"] = True
        try:
            pio.write_project(root, src, port=port, platform="".join(list(plat)), board="".join(list(board)), lib_deps=libs)
        except Exception as e:  # noqa: BLE001  — every case here is a registered pair: a refusal is the property failing, not the harness
            _AUDIT["on"] = False
            if stale is not None:
                ctx.fail("reuse:refused", f"write_project into a directory that already holds a project ({stale[0]}) raised {type(e).__name__}: {str(e)[:160]}", replay)
            else:
                ctx.fail("project:registered-pair-refused", f"write_project refused a registered (platform, board) pair: {type(e).__name__}: {str(e)[:160]}", replay)
            continue
        finally:
            _AUDIT["on"] = False
        ctx.cov["traces_validated_against_impl"] += 1
        in_domain = wf_value(port)
        ctx.case(line + ("" if stale is None else "|reuse:" + stale[0]), nontrivial=bool(libs) or not board.replace("_", "").isalnum() or stale is not None, sample={"request": replay, "model": m[:160]} if len(ctx.cov["samples"]) < 3 else None)
        # filesystem facts
        listing = sorted(str(p.relative_to(root)) for p in root.rglob("*"))
        if listing != ["platformio.ini", "src", "src/main.cpp"]:
            ctx.fail("fs:listing", f"project dir contains {listing}", replay)
        outside = [e for e in _AUDIT["events"] if not os.path.abspath(e[1]).startswith(str(root))]
        if outside or set(os.listdir(ctx.work)) != before:
            ctx.fail("fs:outside", f"write_project touched {outside or sorted(set(os.listdir(ctx.work)) - before)}", replay)
        try:
            got_src = (root / "src" / "main.cpp").read_bytes()
        except OSError:
            got_src = None
        if got_src != src.encode("utf-8"):
            if stale is not None:
                ctx.fail("reuse:main.cpp", f"src/main.cpp is not the given source verbatim after generating into a directory that already held one ({stale[0]}): "
                         f"on disk {got_src[:80]!r}, given {src.encode('utf-8')[:80]!r}", replay)
            else:
                ctx.fail("fs:main.cpp", "src/main.cpp is not the given source verbatim", replay)
        text = (root / "platformio.ini").read_bytes().decode("utf-8")
        mtext = bytes.fromhex(m.split(" ")[0][len("text=x"):]).decode("utf-8")
        mparsed = m.split(" ")[1][len("parsed="):]
        if text != mtext:
            ctx.tie_diff("tie ini-text (renderIni vs platformio.ini written by write_project)", replay, mtext, text)
        parsed = cp_read(text)
        if in_domain and parsed != mparsed:
            ctx.tie_diff("tie ini-read (parseLines(iniLines) vs configparser on the real file)", replay, mparsed, parsed)
        # the property itself on the real file
        cp = configparser.ConfigParser(interpolation=None)
        try:
            cp.read_string(text)
            secs = cp.sections()
            ok = len(secs) == 1
            if ok:
                s = cp[secs[0]]
                want = {"platform": plat, "board": board, "framework": "arduino", "upload_port": port}
                got = {k: s.get(k) for k in want}
                gl = [x.strip() for x in s.get("lib_deps", "").splitlines() if x.strip()]
                extra = set(s.keys()) - set(want) - {"lib_deps"}
                ok = got == want and gl == dedup(libs or []) and not extra and secs[0].startswith("env:")
        except configparser.Error as e:
            ok, got = False, repr(e)
        if not ok:
            key = "ini:port-blank" if port != port.strip() else "ini:roundtrip"
            ctx.fail(key, f"platformio.ini does not read back as given: {text!r}", replay)
    shutil.rmtree(root, ignore_errors=True)

    # ---- INI reader model vs configparser ----------------------------------------------------------------------
    texts = ["[a]\nk = v\n", "[env:uno]\nlib_deps =\n  Servo\n  LC\n\nother = 1\n", "k = v\n", "[s]\nnodelim\n", "[a]b]\nx:1\n"]
    texts += [gen_ini_text(rng) for _ in range(ctx.n(300, 5000))]
    lines = [f"iniparse|{hexs(t)}" for t in texts]
    model = ctx.lean.drive(lines)
    for t, line, m in zip(texts, lines, model):
        impl = cp_read(t)
        ctx.cov["traces_validated_against_impl"] += 1
        ctx.case(line, nontrivial=(m != "" and m != "error"))
        ctx.count("iniparse:" + ("error" if m == "error" else "ok"))
        if impl == "dup":
            ctx.count("iniparse:duplicate-skipped")
            continue
        if m != impl:
            ctx.tie_diff("tie ini-reader (parseLines vs configparser)", t, m, impl)
    ctx.cov["rule"] = ("validate: all registry pairs + sampled near-miss names (case, prefix/suffix, -/_ swaps, blanks); write_project: random valid "
                       "(platform, board), printable ports, library lists with duplicates/empties, ASCII and non-ASCII sources, into a fresh directory and "
                       "into re-used ones (stale main.cpp = the same text with other line terminators / BOM / normal form / case / prefix / suffix, or raw "
                       "non-UTF-8 / UTF-16 / empty bytes; stale platformio.ini of an earlier generation or foreign bytes); INI texts generated "
                       "from a grammar of sections/options/continuations/comments/blank lines; non-trivial = accepted pair or known platform / "
                       "project with libraries or a hyphenated board / INI text with at least one section")
    return ctx.finish(TRUSTED, search=None)
