"""C09 — generated firmware is memory-safe and does not leak across loop() passes.

Proof: lean/Reduino/Props/C09.lean over the heap model Fw/ListHeap.lean of the list helper templates and the usage forms
the transpiler emits.  Tie S_c: the model's verdict (safe / which memory error) and live-block count after every marker vs
the compiled sketch under ASan+UBSan with counted array new/delete.  Oracle: sanitizer reports; heap constant across passes
when the Python program's live list data is constant; printed values equal CPython's."""
from __future__ import annotations

import importlib

import common
import devscript as ds
from common import Ctx

TRUSTED = [
    "Lean 4.33 kernel; axioms ⊆ {propext, Classical.choice, Quot.sound}",
    "g++ -fsanitize=address,undefined and the counted operator new[]/delete[] of harness/mockcore/runner.cpp as the observer of memory errors and heap usage",
    "undefined behaviour other than what the heap model and ASan/UBSan observe is not covered; String buffers are the mock core's std::string",
    "the mapping script statement -> emitted usage form (declMake/declCopy/assignVar/assignTemp/append/remove/get/len/swap) is validated by the tie, not proved",
]
HEAD = ["from Reduino.Communication import SerialMonitor"]


class Gen:
    """abstract list program; keeps the Python meaning alongside (lists of ints)"""

    def __init__(self, rng, owned):
        self.rng, self.owned = rng, owned
        self.py = {}            # name -> python list (current value while generating straight-line setup)
        self.setup, self.loop = [], []

    def lit(self, n=None):
        n = self.rng.randint(1, 4) if n is None else n
        return [self.rng.randint(-5, 9) for _ in range(n)]

    def op(self, where, names_env):
        rng = self.rng
        env = names_env
        names = sorted(env)
        k = rng.choice(["ap", "ap", "rm", "rmv", "get", "get", "len", "av", "scan", "aps", "gl"] + ([] if self.owned else ["dc", "at", "af"]) + ["sw"])
        x = rng.choice(names)
        if k == "ap":
            v = rng.randint(-5, 9)
            env[x] = env[x] + [v]
            return ("ap", x, v)
        if k == "rm":
            if not env[x]:
                return ("len", x)
            v = rng.choice(env[x])
            l = list(env[x]); l.remove(v); env[x] = l
            return ("rm", x, v)
        if k == "rmv":
            if not env[x]:
                return ("len", x)
            i = rng.randrange(len(env[x]))
            v = env[x][i]
            l = list(env[x]); l.remove(v); env[x] = l
            self.ntmp = getattr(self, "ntmp", 0) + 1
            return ("rmv", x, i, v, f"t{self.ntmp}_{where[0]}")
        if k == "scan":
            return ("scan", x, len(env[x]))
        if k == "get":
            if not env[x]:
                return ("len", x)
            i = rng.randrange(-len(env[x]), len(env[x]))
            return ("get", x, i)
        if k == "len":
            return ("len", x)
        if k == "av":
            cands = [y for y in names if y != x and len(env[y]) == len(env[x])]
            if not cands:
                return ("len", x)
            y = rng.choice(cands)
            env[x] = list(env[y])
            return ("av", x, y)
        if k == "aps":
            # append one of the list's own elements (the argument refers into the buffer that append replaces)
            if not env[x]:
                return ("len", x)
            i = rng.choice([0, -1, rng.randrange(len(env[x]))])
            env[x] = env[x] + [env[x][i]]
            return ("aps", x, i, env[x][-1])
        if k == "gl":
            # index computed from len(): the last element
            return ("gl", x, len(env[x])) if env[x] else ("len", x)
        if k == "sw":
            # tuple swap of two distinct declared lists (any lengths): the emitted code exchanges the two structs
            cands = [y for y in names if y != x]
            if not cands:
                return ("len", x)
            y = rng.choice(cands)
            env[x], env[y] = env[y], env[x]
            return ("sw", x, y)
        if k == "af":
            # re-assignment from a helper that returns another (global) list: must clone like `x = y`
            cands = [y for y in names if y != x and y in ("a", "b", "c")]
            if not cands or x not in ("a", "b", "c"):
                return ("len", x)
            y = rng.choice(cands)
            env[x] = list(env[y])
            return ("af", x, y)
        if k == "dc":
            self.ncopy = getattr(self, "ncopy", 0) + 1      # always a fresh name: a second `y = …` would be an assignment, not a declaration
            y = f"c{len(env)}_{self.ncopy}"
            env[y] = env[x]          # python aliasing: same object
            return ("dc", y, x)
        vals = self.lit(len(env[x]))
        env[x] = vals
        return ("at", x, vals)


def stmt(op):
    k = op[0]
    if k == "dm":
        return f"{op[1]} = {op[2]!r}"
    if k == "dmr":
        return f"{op[1]} = [i * {op[3]} for i in range({op[2]})]"
    if k == "dms":
        return f"{op[1]} = [i + {op[5]} for i in range({op[2]}, {op[3]}, {op[4]})]"
    if k == "rmv":
        return f"{op[4]} = {op[1]}[{op[2]}]\n{op[1]}.remove({op[4]})"
    if k == "scan":
        return f"for i in range(len({op[1]})):\n    mon.write({op[1]}[i])"
    if k in ("dc", "av"):
        return f"{op[1]} = {op[2]}"
    if k == "sw":
        return f"{op[1]}, {op[2]} = {op[2]}, {op[1]}"
    if k == "af":
        return f"{op[1]} = get_{op[2]}()"
    if k == "at":
        return f"{op[1]} = {op[2]!r}"
    if k == "ap":
        return f"{op[1]}.append({op[2]})"
    if k == "aps":
        return f"{op[1]}.append({op[1]}[{op[2]}])"
    if k == "gl":
        return f"mon.write({op[1]}[len({op[1]}) - 1])"
    if k == "rm":
        return f"{op[1]}.remove({op[2]})"
    if k == "get":
        return f"mon.write({op[1]}[{op[2]}])"
    return f"mon.write(len({op[1]}))"


def mtok(op):
    k = op[0]
    csv = lambda l: ",".join(map(str, l)) if l else "-"
    if k == "dm":
        return f"dm {op[1]} {csv(op[2])}"
    if k == "dmr":
        return f"dm {op[1]} {csv([i * op[3] for i in range(op[2])])}"
    if k == "dms":
        return f"dm {op[1]} {csv([i + op[5] for i in range(op[2], op[3], op[4])])}"
    if k == "rmv":
        return f"get {op[1]} {op[2]};rm {op[1]} {op[3]}"
    if k == "scan":
        return ";".join([f"len {op[1]}"] + [f"get {op[1]} {i}" for i in range(op[2])])
    if k in ("dc", "av", "sw"):
        return f"{k} {op[1]} {op[2]}"
    if k == "af":
        return f"av {op[1]} {op[2]}"
    if k == "at":
        return f"at {op[1]} {csv(op[2])}"
    if k in ("ap", "rm", "get"):
        return f"{k} {op[1]} {op[2]}"
    if k == "aps":
        return f"get {op[1]} {op[2]};ap {op[1]} {op[3]}"
    if k == "gl":
        return f"len {op[1]};get {op[1]} -1"
    return f"len {op[1]}"


def gen_case(rng, owned):
    g = Gen(rng, owned)
    env = {}
    setup = []
    for i in range(rng.randint(1, 3)):
        name = "abc"[i]
        r = rng.random()
        if r < 0.2:
            n, m = rng.randint(0, 5), rng.randint(1, 3)
            env[name] = [j * m for j in range(n)]
            setup.append(("dmr", name, n, m))
        elif r < 0.45:
            a0, st = rng.randint(-3, 6), rng.choice([1, 2, 3, 4, -1, -2, -3, -4])
            b0 = a0 + rng.choice([0, 1, 2, 3, 5, 7, 10]) * (1 if st > 0 else -1)
            off = rng.randint(0, 3)
            env[name] = [j + off for j in range(a0, b0, st)]
            setup.append(("dms", name, a0, b0, st, off))
        else:
            vals = g.lit()
            env[name] = vals
            setup.append(("dm", name, vals))
    for _ in range(rng.randint(0, 5)):
        o = g.op("setup", env)
        setup.append(o)
        if o[0] in ("af", "av") and env[o[1]]:
            # after a copying re-assignment: change the source, then read through the target (must still be its own copy)
            setup += [("ap", o[2], 88), ("rm", o[2], 88), ("get", o[1], 0)]
        if o[0] == "sw":
            # after a swap: read through both names (each must see the other's former buffer, still alive)
            setup += [("get", n, i) for n, i in ((o[1], -1), (o[2], 0)) if env[n]]
    # loop body: ops whose net effect on sizes is zero in the owned discipline (append then remove the same value)
    loop = []
    for _ in range(rng.randint(1, 4)):
        if rng.random() < 0.5:
            x = rng.choice(sorted(env))
            v = 77
            loop += [("ap", x, v), ("rm", x, v)] if owned or rng.random() < 0.7 else [("ap", x, v)]
        else:
            o = g.op("loop", dict(env))
            if o[0] in ("ap", "rm", "rmv", "av", "dc", "at", "af") and owned:
                o = ("len", o[1])
            if o[0] in ("aps",) and owned:
                o = ("len", o[1])      # (grows the list each pass: not a constant-size loop body)
            if o[0] in ("rmv", "rm", "gl") or (o[0] == "scan" and not owned):
                o = ("len", o[1])     # per-pass tokens are static: no data-dependent forms in a loop whose sizes drift
            loop.append(o)
    if any(o[0] == "sw" for o in loop):
        # a swap in the body permutes the lists from pass to pass (the heap stays constant, the sizes behind a name do not):
        # keep static indices valid for every list, and no per-pass token lists that depend on a name's size
        m = min(len(v) for v in env.values())
        fix = lambda o: (("get", o[1], max(-m, min(o[2], m - 1))) if m else ("len", o[1])) if o[0] == "get" else \
                        ("len", o[1]) if o[0] in ("scan", "aps") else o
        loop = [fix(o) for o in loop]
    return setup, loop


def build(setup, loop, passes):
    used = sorted({o[2] for o in setup + loop if o[0] == "af"})
    decl_end = max([i for i, o in enumerate(setup) if o[0] in ("dm", "dmr", "dms")], default=-1) + 1
    helpers = [ln for y in used for ln in (f"def get_{y}():", f"    return {y}")]
    lines = (HEAD + ["mon = SerialMonitor(9600)"] + [ln for o in setup[:decl_end] for ln in stmt(o).split("\n")] + helpers +
             [ln for o in setup[decl_end:] for ln in stmt(o).split("\n")] + ['mon.write("#")', "while True:"])
    for o in loop:
        lines += ["    " + ln for ln in stmt(o).split("\n")]
    lines.append('    mon.write("#")')
    src = "\n".join(lines) + "\n"
    req = "heap|" + ";".join([mtok(o) for o in setup] + ["len a"] + ([mtok(o) for o in loop] + ["len a"]) * passes)
    return src, req


def py_run(setup, loop, passes):
    """CPython meaning: printed values and total live list cells after each marker; None if it raises"""
    env, out, live = {}, [], []

    def ex(o):
        k = o[0]
        if k == "dm": env[o[1]] = list(o[2])
        elif k == "dmr": env[o[1]] = [i * o[3] for i in range(o[2])]
        elif k == "dms": env[o[1]] = [i + o[5] for i in range(o[2], o[3], o[4])]
        elif k == "rmv": env[o[1]].remove(env[o[1]][o[2]])
        elif k == "scan": out.extend(env[o[1]])
        elif k in ("dc", "av", "af"): env[o[1]] = env[o[2]]
        elif k == "sw": env[o[1]], env[o[2]] = env[o[2]], env[o[1]]
        elif k == "at": env[o[1]] = list(o[2])
        elif k == "ap": env[o[1]].append(o[2])
        elif k == "aps": env[o[1]].append(env[o[1]][o[2]])
        elif k == "gl": out.append(env[o[1]][len(env[o[1]]) - 1])
        elif k == "rm": env[o[1]].remove(o[2])
        elif k == "get": out.append(env[o[1]][o[2]])
        else: out.append(len(env[o[1]]))
    try:
        for o in setup: ex(o)
        live.append(sum(len(v) for v in {id(v): v for v in env.values()}.values()))
        for _ in range(passes):
            for o in loop: ex(o)
            live.append(sum(len(v) for v in {id(v): v for v in env.values()}.values()))
    except (IndexError, ValueError, KeyError):
        return None, None
    return out, live


def run(ctx: Ctx) -> int:
    ctx.prove(["Reduino.Props.C09"])
    common.fresh_import()
    rng = ctx.rng
    cases = []
    # pinned findings
    cases.append(("alias", [("dm", "a", [1, 2, 3]), ("dc", "b", "a"), ("ap", "a", 1), ("get", "b", 0)], [("len", "a")], 2))
    cases.append(("temp", [("dm", "a", [1, 2, 3])], [("at", "a", [4, 5, 6]), ("len", "a")], 4))
    # pinned sound forms: re-assignment of a declared list from a variable / from a helper returning a list must clone
    cases.append(("reassign-var", [("dm", "a", [1, 2, 3]), ("dm", "b", [7, 8, 9]), ("av", "b", "a"), ("ap", "a", 4), ("rm", "a", 4), ("get", "b", 0)],
                  [("av", "b", "a"), ("ap", "a", 77), ("rm", "a", 77), ("get", "b", -1)], 3))
    cases.append(("runtime-remove-then-scan", [("dm", "a", [3, 1, 2, 8]), ("rmv", "a", 0, 3, "t1_s"), ("scan", "a", 3), ("ap", "a", 6), ("scan", "a", 4)],
                  [("len", "a")], 2))
    cases.append(("self-append", [("dm", "a", [4, 5, 6]), ("aps", "a", 0, 4), ("aps", "a", -1, 4), ("get", "a", 4)],
                  [("aps", "a", 0, 4), ("rm", "a", 4), ("len", "a")], 4))
    cases.append(("last-after-remove", [("dm", "a", [0, 5, 0, 7]), ("rm", "a", 0), ("gl", "a", 3), ("rm", "a", 5), ("gl", "a", 2), ("ap", "a", 0), ("rm", "a", 0), ("gl", "a", 2)],
                  [("ap", "a", 0), ("rm", "a", 0), ("len", "a")], 3))
    cases.append(("reassign-call", [("dm", "a", [1, 2, 3]), ("dm", "b", [7, 8, 9]), ("af", "b", "a"), ("ap", "a", 4), ("rm", "a", 4), ("get", "b", 0)],
                  [("af", "b", "a"), ("ap", "a", 77), ("rm", "a", 77), ("get", "b", -1)], 3))
    # pinned sound form: tuple swap of two declared lists = exchange of the two structs (no allocation, no free)
    cases.append(("swap-setup", [("dm", "a", [1, 2, 3]), ("dm", "b", [7, 8, 9, 10]), ("sw", "a", "b"), ("get", "a", 3), ("get", "b", -1), ("get", "a", 0),
                                 ("get", "b", 0), ("ap", "a", 5), ("rm", "b", 1), ("get", "a", -1), ("get", "b", 0)],
                  [("ap", "a", 77), ("rm", "a", 77), ("get", "b", -1), ("len", "a")], 3))
    cases.append(("swap-loop", [("dm", "a", [1, 2, 3]), ("dm", "b", [7, 8, 9, 10])],
                  [("sw", "a", "b"), ("ap", "a", 77), ("rm", "a", 77), ("get", "a", 0), ("get", "b", -1), ("len", "a")], 5))
    for i in range(ctx.n(180, 700)):
        owned = rng.random() < 0.8
        s, l = gen_case(rng, owned)
        cases.append(("owned" if owned else "wild", s, l, rng.choice([2, 5, 17])))
    built = [build(s, l, p) for _, s, l, p in cases]
    results = ds.transpile_and_run_passes(ctx, [(b[0], c[3]) for b, c in zip(built, cases)], san=True)
    model = ctx.lean.drive([b[1] for b in built])
    for (kind, setup, loop, passes), (src, req), (cpp, exc, res), m in zip(cases, built, results, model):
        ctx.count(kind)
        replay = {"script": src, "passes": passes, "model_request": req}
        if cpp is None:
            ctx.count("rejected:" + type(exc).__name__)
            continue
        pyout, pylive = py_run(setup, loop, passes)
        if res.compile_error:
            ctx.fail("heap:compile", f"sketch does not compile: {res.compile_error[:300]}", replay)
            continue
        ctx.cov["traces_validated_against_impl"] += 1
        ctx.case(req, nontrivial=True, sample={"script": src, "model": m[:160]} if len(ctx.cov["samples"]) < 3 else None)
        san = None
        if "AddressSanitizer" in res.stderr or res.rc == 77:
            kind_txt = res.stderr.split("AddressSanitizer:")[1].split()[0] if "AddressSanitizer:" in res.stderr else "error"
            san = {"heap-use-after-free": "use-after-free", "attempting": "double-free", "heap-buffer-overflow": "oob"}.get(kind_txt, kind_txt)
        elif "runtime error" in res.stderr or res.rc == 78:
            san = "ubsan"
        elif not res.ok:
            san = f"crash rc={res.rc}"
        # ---- tie: model verdict vs sanitizer, live counts at markers
        mm = m.split("|")
        merr = next((x.split(":")[1] for x in mm if x.startswith("memerr")), None)
        heaps = [int(l.split()[1]) for l in res.trace if l.startswith("heap ")]
        mlive, idx = [], 0
        ntok = lambda ops: sum(len(mtok(o).split(";")) for o in ops)
        seq = [ntok(setup) + 1] + [ntok(loop) + 1] * passes
        pos = 0
        for n in seq:
            pos += n
            if pos <= len(mm) and not any(x.startswith("memerr") for x in mm[:pos]):
                mlive.append(int(mm[pos - 1].split("live=")[1].split(" ")[0]))
        tie_pending = None
        if (merr is None) != (san is None) or (merr and san and merr != san and san not in ("ubsan",)):
            tie_pending = ("tie S_c heap (verdict of Fw.Heap vs AddressSanitizer/UBSan)", replay, f"model: {merr}", f"sanitizer: {san} {res.stderr[:200]}")
        elif merr is None and heaps != mlive:
            tie_pending = ("tie S_c heap (live array blocks at each marker)", replay, mlive, heaps)
        # ---- the property on the real run
        if pyout is None:
            ctx.count("python-raises")
            if tie_pending:
                ctx.tie_diff(*tie_pending)
            continue
        if san is not None:
            forms = {o[0] for o in setup + loop}
            # the transpile-time copy of a list is only approximated after remove(<run-time value>) (it pops the FIRST tracked
            # element); a further remove then leaves a stale folded len(): that chain is the recorded finding K09c
            after_rmv = diverged = False
            for o in setup:
                if o[0] in ("rm", "rmv") and after_rmv:
                    diverged = True
                if o[0] == "rmv":
                    after_rmv = True
            key = ("heap:list-copy-semantics" if ("dc" in forms) else
                   "heap:stale-length-after-runtime-remove" if (diverged and "scan" in forms) else "heap:memory-error")
            ctx.fail(key, f"memory error in firmware ({san}) although Python runs without IndexError: {res.stderr[:300]}", replay)
            if tie_pending and not ctx.is_known(key):
                ctx.tie_diff(*tie_pending)
            continue
        if tie_pending:
            ctx.tie_diff(*tie_pending)
        printed = []
        for l in res.trace:
            if l.startswith("println x") and l != ds.MARK:
                try:
                    printed.append(int(bytes.fromhex(l.split(" ")[1][1:]).decode()))
                except ValueError:
                    pass
        forms = {o[0] for o in setup + loop}
        # (printed values are C01/C03's subject — e.g. a folded len() — and are not judged here)
        if len(set(pylive[1:])) == 1 and len(set(heaps[1:])) > 1:
            key = "heap:temp-leak" if "at" in forms else ("heap:list-copy-semantics" if ("dc" in forms) else "heap:leak-across-passes")
            ctx.fail(key, f"live array blocks per pass {heaps} while the Python program's live list data stays {pylive[1]}", replay)
    ctx.cov["rule"] = ("list programs: 1-3 lists from literals/comprehensions, append/remove/index (incl. negative)/len/copy-assign/tuple swap of two lists in setup and in the main loop, "
                       "2-17 passes; 80% in the owned discipline (no alias-creating first copy, no re-assignment from a literal), 20% with those forms; "
                       "each compiled with -fsanitize=address,undefined and counted array new/delete")
    return ctx.finish(TRUSTED, search=None)
