"""C10 — transpilation is a deterministic, stateless function of the source text.

Proof: lean/Reduino/Props/C10.lean (promotion order is independent of set listing order once sorted; the model `tr` has
no state).  Ties: (i) inventory of set-valued iteration sites in parser.py/emitter.py/__init__.py against a reviewed
baseline; (ii) the promoted-declaration order of the real output equals the model's `promote sorted`; (iii) real output
under several PYTHONHASHSEEDs in fresh processes, after random sequences of other parse/emit calls in one process, and on
repetition: all byte-identical."""
from __future__ import annotations

import hashlib
import json
import os
import subprocess
import sys
from pathlib import Path

import common
import cxx
import langgen
import scripts_pool
import setscan
from common import Ctx

TRUSTED = [
    "Lean 4.33 kernel; axioms ⊆ {propext, Classical.choice, Quot.sound}",
    "'no hidden state' and 'all processes / hash seeds' are facts about the interpreter the model cannot exhibit: they rest on the behavioural tie "
    "(fresh subprocesses per PYTHONHASHSEED, in-process histories) over the generated and pooled scripts",
    "harness/setscan.py heuristic inventory of set iterations (AST based) against harness/setscan_baseline.json",
]

CHILD = r"""
import sys, json, hashlib
sys.path.insert(0, sys.argv[1])
from Reduino.transpile.parser import parse
from Reduino.transpile.emitter import emit
scripts = json.load(open(sys.argv[2]))
out = {}
for name, src in scripts.items():
    try:
        out[name] = hashlib.sha256(emit(parse(src)).encode()).hexdigest()
    except Exception as e:
        out[name] = "raise:" + type(e).__name__
print(json.dumps(out))
"""


def run(ctx: Ctx) -> int:
    ctx.prove(["Reduino.Props.C10"])
    common.fresh_import()
    rng = ctx.rng
    # ---- (i) inventory
    base = json.loads((common.VERIF / "harness" / "setscan_baseline.json").read_text())["sites"]
    sites = [list(s) for s in setscan.scan(common.SRC)]
    new_sites = [s for s in sites if s not in base]
    if new_sites:
        ctx.tie_diff("tie inventory (set-valued iteration sites vs reviewed baseline)", "setscan", base, new_sites)
    ctx.count("set-iteration sites", len(sites))
    # ---- scripts
    scripts = dict(scripts_pool.all_scripts())
    for i in range(ctx.n(60, 600)):
        g = langgen.G(rng, max_depth=rng.choice([1, 2, 3]))
        scripts[f"gen{i}"] = langgen.py_source(g.program())
    # promotion groups with many fresh names (the sites the fix sorted)
    for i in range(ctx.n(15, 100)):
        names = rng.sample(["alpha", "beta", "gamma", "delta", "eps", "zeta", "eta", "theta", "iota", "kappa", "mu", "nu", "xi", "rho"], rng.randint(2, 7))
        kind = rng.choice(["if", "while", "for", "loop-if"])
        body = "".join(f"    {n} = {j}\n" for j, n in enumerate(names))
        if kind == "if":
            src = "c = 1\nif c > 0:\n" + body + "else:\n" + "".join(f"    {n} = 0\n" for n in reversed(names[:2])) + f"mon.write({' + '.join(names)})\n"
        elif kind == "while":
            src = "n = 0\nwhile n < 2:\n    n += 1\n" + body + "mon.write(n)\n"
        elif kind == "for":
            src = "for i in range(2):\n" + body + "mon.write(1)\n"
        else:
            src = "c = 1\nwhile True:\n    if c > 0:\n" + "".join(f"        {n} = {j}\n" for j, n in enumerate(names)) + f"    mon.write({names[0]})\n"
        scripts[f"promo{i}"] = "\n".join(langgen.HEADER) + "\n" + src
    sfile = ctx.work / "scripts.json"
    sfile.write_text(json.dumps(scripts))
    child = ctx.work / "child.py"
    child.write_text(CHILD)
    seeds = list(range(8)) if ctx.tier != "thorough" and not ctx.broken else list(range(64))
    procs = []
    for sd in seeds:
        env = dict(os.environ, PYTHONHASHSEED=str(sd))
        procs.append(subprocess.Popen([common.PY, str(child), str(common.SRC), str(sfile)], env=env, stdout=subprocess.PIPE, stderr=subprocess.PIPE, text=True))
    per_seed = []
    for p in procs:
        out, err = p.communicate(timeout=600)
        if p.returncode != 0:
            raise common.ToolFailure("child transpile failed: " + err[-500:])
        per_seed.append(json.loads(out.strip().splitlines()[-1]))
    ref = per_seed[0]
    for name, src in scripts.items():
        hs = {d[name] for d in per_seed}
        ctx.case("seed:" + name, nontrivial=not ref[name].startswith("raise"))
        ctx.cov["traces_validated_against_impl"] += 1
        if len(hs) > 1:
            ctx.fail("determinism:hash-seed", f"{len(hs)} different outputs for one script under PYTHONHASHSEED {seeds[0]}..{seeds[-1]}", {"script": src, "hashes": sorted(hs)})
    # ---- in-process histories: repeated and interleaved calls must reproduce the fresh-process output
    from Reduino.transpile.parser import parse
    from Reduino.transpile.emitter import emit

    def h(src):
        try:
            return hashlib.sha256(emit(parse(src)).encode()).hexdigest()
        except Exception as e:  # noqa: BLE001
            return "raise:" + type(e).__name__
    import copy
    import Reduino.transpile.parser as P_
    import Reduino.transpile.emitter as E_

    def snapshot():
        snap = {}
        for m in (P_, E_):
            for k, v in vars(m).items():
                if k != "_VERIF_SKIP_LOG" and not k.startswith("__") and isinstance(v, (dict, list, set, frozenset, tuple, int, float, str, bool, type(None))):
                    try:
                        snap[m.__name__ + "." + k] = copy.deepcopy(v)
                    except Exception:  # noqa: BLE001
                        pass
        return snap
    state0 = snapshot()
    # scripts that define functions / variables named like the names the evaluator treats specially
    for nm_ in ("len", "abs", "max", "min", "int", "float", "bool", "str"):
        scripts["shadow-fn-" + nm_] = scripts_pool.HEADER + f"def {nm_}(a, b):\n    return a + b\nx = {nm_}(1, 2)\nsleep(max(100, 250))\n"
        ref["shadow-fn-" + nm_] = None
    # scripts that are REJECTED after some of their statements were already processed (tuple temporaries, helpers, lists, promotions)
    rejected = {
        "rejected-after-swap": "mon = SerialMonitor(9600)\na = 1\nb = 2\na, b = b, a\nwhile True:\n    a, b = b, a\n    break\n",
        "rejected-after-helper": "mon = SerialMonitor(9600)\ndef twice(v):\n    return v * 2\nx = twice(2)\nxs = [1, 2]\nxs.append(3)\nif x > 1:\n    q = 4\nfor i in range(1, 2, 3):\n    x = i\n",
        "rejected-device": "led = Led(13)\nlcd = LCD(i2c_addr=0x27)\nlcd.line(0, \"x\")\nled.blink()\nfor i in range(1, 2, 3):\n    led.on()\n",
    }
    for nm_, body_ in rejected.items():
        scripts[nm_] = scripts_pool.HEADER + body_
        ref[nm_] = None
    names = list(scripts)
    for nm_ in names:
        if ref.get(nm_) is None:
            ref[nm_] = h(scripts[nm_])        # (first in-process transpile; the subprocess reference exists for the others)
    if snapshot() != state0:
        ctx.fail("determinism:module-state", "transpiling changed module-level state of the transpiler", {"changed": sorted(k for k, v in snapshot().items() if state0.get(k) != v)})
    for rnd in range(ctx.n(3, 12)):
        order = names[:]
        rng.shuffle(order)
        order = order + order[: len(order) // 3]
        for nm in order:
            got = h(scripts[nm])
            ctx.cov["evaluations"] += 1
            if got != ref[nm]:
                ctx.fail("determinism:history", f"output of script {nm!r} depends on earlier parse()/emit() calls in the same process", {"script": scripts[nm], "history_tail": order[max(0, order.index(nm) - 5): order.index(nm)]})
                break
    # every script right after every rejected one: nothing may leak out of a transpile that ended in an exception
    for r_ in rejected:
        for nm in names:
            h(scripts[r_])
            got = h(scripts[nm])
            ctx.cov["evaluations"] += 1
            if got != ref[nm]:
                ctx.fail("determinism:history", f"output of script {nm!r} changes when it is transpiled right after the rejected script {r_!r}", {"script": scripts[nm], "rejected_before": scripts[r_]})
                break
    if snapshot() != state0:
        ctx.fail("determinism:module-state", "transpiling changed module-level state of the transpiler", {"changed": sorted(k for k, v in snapshot().items() if state0.get(k) != v)})
    # ---- (ii) model: order of hoisted declarations = promote sorted
    reqs, expect = [], []
    for nm, src in scripts.items():
        if not nm.startswith("promo"):
            continue
        cpp, exc = cxx.transpile(src)
        if cpp is None:
            continue
        body = src.split("mon = SerialMonitor(9600)\n")[1]
        import re
        # only the if-group form maps 1:1 onto the model (branches listed, parent = names declared before)
        if body.startswith("c = 1\nif c > 0:"):
            br1 = re.findall(r"^    (\w+) = ", body.split("else:")[0], flags=re.M)
            br2 = re.findall(r"^    (\w+) = ", body.split("else:")[1], flags=re.M)
            decl_order = [m for m in re.findall(r"^(?:int|bool|float) (\w+) = ", cpp, flags=re.M) if m in set(br1 + br2)]
            shuffled1, shuffled2 = br1[:], br2[:]
            rng.shuffle(shuffled1); rng.shuffle(shuffled2)
            reqs.append(f"promote|c|{' '.join(shuffled1)};{' '.join(shuffled2)}")
            expect.append((nm, src, decl_order))
    model = ctx.lean.drive(reqs)
    for (nm, src, decl_order), m in zip(expect, model):
        ctx.case("promote:" + nm, nontrivial=True, sample={"script": src, "model_order": m} if len(ctx.cov["samples"]) < 2 else None)
        if m.split() != decl_order:
            ctx.tie_diff("tie promote (model order of hoisted declarations vs real output)", {"script": src}, m, " ".join(decl_order))
    ctx.cov["rule"] = ("feature scripts + random core programs + promotion groups with 2-7 fresh names in if/while/for/main-loop positions; each transpiled in fresh "
                       "subprocesses under 8 (quick) / 64 (thorough) PYTHONHASHSEEDs and, in one process, in shuffled orders with repetitions; non-trivial = accepted script")
    return ctx.finish(TRUSTED, search=None)
