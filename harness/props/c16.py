"""C16 — buzzer protocol.

Proof: lean/Reduino/Props/C16.lean over the firmware model Fw/Buzzer.lean (ordered field K).
Tie S_c: the model (Float32) vs the emitted C++ compiled against the mock core, per call, bit-exact getters.
Oracle: tone-protocol monitor on the firmware trace.

Two families of scripts: straight-line sequences (arguments literal or routed through a variable that is assigned once), and ITERATED
sequences (own PRNG): the calls sit in the body of `for i in range(n)`, of `while k < n`, or of `while True` (n passes of loop()), their
arguments are variables that the body RE-ASSIGNS after the calls (`v = v + step`, `v += step`, int and float, rising and falling), so
the same call site sees another value on every iteration.  The model request and the monitor get the unrolled sequence with the values the
Python program has at each iteration."""
from __future__ import annotations

import importlib
import random

import common
import devscript as ds
from common import Ctx
from devscript import Arg

TRUSTED = [
    "Lean 4.33 kernel; axioms ⊆ {propext, Classical.choice, Quot.sound}",
    "harness/mockcore (tone/noTone/delay recorded in call order) and host g++ -O0 -ffp-contract=off as the C++ semantics",
    "exact-arithmetic theorems; float32 rounding in sweep interpolation and melody durations only through the bit-exact tie",
    "Fw.melodies reference score (tied to emitter._BUZZER_MELODIES by the regenerated obligation gen_melodies)",
    "negative durations (C cast of a negative value to unsigned) are outside the model: reported `undefined`",
    "iterated scripts: the loop is unrolled by the harness (Python meaning of v = v + step, values exact in float32) before model and monitor see it",
]

IMPORTS = ["from Reduino.Actuators import Buzzer", "from Reduino.Communication import SerialMonitor"]
MELODIES = ["success", "error", "startup", "notify", "alarm", "scale_c", "siren"]
FREQS = [0, 1, 440, 880, 1000, 262, -5, 0.0, 0.5, 0.25, 440.5, 523.25, -1.5, 1e3, 31, 65535]
DURS = [0, 1, 10, 100, 250, 0.0, 0.5, 99.5, 12.25, 7]
COUNTS = [0, 1, 2, 3, 5, -1, 2.5, 1.0]
STEPS = [1, 2, 3, 4, 7, 10, 0, -2, 2.5]
TEMPOS = [60, 120, 200, 240, 0, -10, 90.5, 1e3, 0.5]


def rarg(rng, pool):
    v = rng.choice(pool)
    if isinstance(v, float):
        v = ds.f32r(v)
    return Arg(v, var=rng.random() < 0.4)


def gen_ops(rng):
    ops = []
    for _ in range(rng.randint(1, 8)):
        k = rng.choice(["pt", "pt", "ptd", "ptd", "stop", "beep", "beep", "sweep", "sweep", "mel"])
        if k == "pt":
            ops.append(("pt", rarg(rng, FREQS), None))
        elif k == "ptd":
            ops.append(("pt", rarg(rng, FREQS), rarg(rng, DURS)))
        elif k == "stop":
            ops.append(("stop",))
        elif k == "beep":
            ops.append(("beep", rarg(rng, FREQS) if rng.random() < 0.7 else None, rarg(rng, DURS), rarg(rng, DURS), rarg(rng, COUNTS)))
        elif k == "sweep":
            ops.append(("sweep", rarg(rng, FREQS), rarg(rng, FREQS), rarg(rng, DURS), rarg(rng, STEPS)))
        else:
            ops.append(("mel", rng.choice(MELODIES), rarg(rng, TEMPOS) if rng.random() < 0.6 else None))
    return ops


def build(ops, pin, dflt):
    sb = ds.ScriptBuilder(IMPORTS)
    _, req = build_ops_into(sb, ops)
    decl = f"bz = Buzzer({pin})" if dflt is None else f"bz = Buzzer({pin}, default_frequency={dflt!r})"
    src = sb.source([decl, 'mon.write("#")'])
    d = 440.0 if dflt is None else dflt
    return src, f"fwbuzzer|i{pin} {ds.tok32(ds.f32r(float(d)))}|" + "|".join(req)


def build_ops_into(sb, ops):
    req = []
    for op in ops:
        if op[0] == "pt":
            if op[2] is None:
                sb.line(f"bz.play_tone({sb.a(op[1])})")
                req.append(f"pt {op[1].tok()} -")
            else:
                sb.line(f"bz.play_tone({sb.a(op[1])}, {sb.a(op[2])})")
                req.append(f"pt {op[1].tok()} {op[2].tok()}")
        elif op[0] == "stop":
            sb.line("bz.stop()")
            req.append("stop")
        elif op[0] == "beep":
            f = "" if op[1] is None else sb.a(op[1]) + ", "
            sb.line(f"bz.beep({f}on_ms={sb.a(op[2])}, off_ms={sb.a(op[3])}, times={sb.a(op[4])})")
            req.append(f"beep {'-' if op[1] is None else op[1].tok()} {op[2].tok()} {op[3].tok()} {op[4].tok()}")
        elif op[0] == "sweep":
            sb.line(f"bz.sweep({sb.a(op[1])}, {sb.a(op[2])}, duration_ms={sb.a(op[3])}, steps={sb.a(op[4])})")
            req.append(f"sweep {op[1].tok()} {op[2].tok()} {op[3].tok()} {op[4].tok()}")
        else:
            t = "" if op[2] is None else f", tempo={sb.a(op[2])}"
            spelled = op[1]                      # tune names are case-insensitive in the transpiler: spell some of them Capitalised / UPPER
            h = sum(map(ord, op[1])) + len(req)
            if h % 3 == 1:
                spelled = op[1].capitalize()
            elif h % 3 == 2:
                spelled = op[1].upper()
            sb.line(f"bz.melody({spelled!r}{t})")
            req.append(f"mel {op[1]} {'-' if op[2] is None else op[2].tok()}")
        sb.line("mon.write(bz.get_state())")
        sb.line("mon.write(bz.get_frequency())")
        sb.line("mon.write(bz.get_last_frequency())")
        sb.marker()
    return sb, req


ISTEPS = [1, 10, 100, -1, -50, 220, 0]
FSTEPS = [0.5, 0.25, -0.5, 1.5, 100.0, -110.25, 0.0]
SMALL_ISTEPS = [1, 1, 2, -1, 0]


def gen_iter(rng):
    """(ops, form, n, steps): a short op list whose variable-routed arguments move by steps[id(arg)] per iteration"""
    while True:
        ops = gen_ops(rng)[:rng.randint(1, 3)]
        form = rng.choice(["for", "for", "while", "loop", "loop"])
        n = rng.randint(2, 4)
        steps = {}
        nvar = 0
        for op in ops:
            for pos, a in enumerate(op):
                if not isinstance(a, Arg):
                    continue
                if rng.random() < 0.75:
                    a.var = True
                if a.var:
                    small = op[0] in ("beep", "sweep") and pos == 4       # counts / steps: keep them small
                    steps[id(a)] = (rng.choice(FSTEPS) if isinstance(a.v, float) else rng.choice(SMALL_ISTEPS if small else ISTEPS), rng.random() < 0.5)
                    nvar += steps[id(a)][0] != 0
        if nvar == 0:
            continue
        un = unroll(ops, n, steps)
        if in_domain(un) and all(ds.f32r(a.v) == a.v for op in un for a in op if isinstance(a, Arg) and isinstance(a.v, float)):
            return ops, form, n, steps


def unroll(ops, n, steps):
    out = []
    for k in range(n):
        for op in ops:
            out.append(tuple(Arg(a.v + k * steps[id(a)][0], True) if (isinstance(a, Arg) and id(a) in steps) else a for a in op))
    return out


def build_iter(ops, form, n, steps, pin, dflt):
    """the script with the loop, and the model request of the unrolled sequence"""
    sb = ds.ScriptBuilder(IMPORTS)
    names = {}
    orig_a = sb.a

    def a(arg):
        r = orig_a(arg)
        if arg.var:
            names[id(arg)] = r
        return r
    sb.a = a
    src0, _ = build_ops_into(sb, ops)
    updates = []
    for op in ops:
        for x in op:
            if isinstance(x, Arg) and id(x) in steps and steps[id(x)][0] != 0:
                st, aug = steps[id(x)]
                nm = names[id(x)]
                updates.append(f"{nm} += {st!r}" if aug else f"{nm} = {nm} + {st!r}")
    body = sb.body + updates
    decl = f"bz = Buzzer({pin})" if dflt is None else f"bz = Buzzer({pin}, default_frequency={dflt!r})"
    head = sb.head + ["mon = SerialMonitor(9600)"] + sb.vars + [decl, 'mon.write("#")']
    if form == "for":
        lines = head + [f"for i in range({n}):"] + ["    " + l for l in body]
    elif form == "while":
        lines = head + ["k = 0", f"while k < {n}:"] + ["    " + l for l in body] + ["    k = k + 1"]
    else:
        lines = head + ["while True:"] + ["    " + l for l in body]
    _, reqs = build_ops_into(ds.ScriptBuilder(IMPORTS), unroll(ops, n, steps))
    d = 440.0 if dflt is None else dflt
    return "\n".join(lines) + "\n", f"fwbuzzer|i{pin} {ds.tok32(ds.f32r(float(d)))}|" + "|".join(reqs)


def canon_segment(seg):
    evs = [l for l in seg if l.split(" ")[0] in ("tone", "notone", "delay")]
    pr = [l for l in seg if l.startswith("println ")]
    if len(pr) != 3:
        return "malformed:" + ";".join(seg)
    st = bytes.fromhex(pr[0].split(" ")[1][1:]).decode()
    return f"{','.join(evs)} st={st} cur={pr[1].split(' ')[1]} last={pr[2].split(' ')[1]}"


def monitor(ctx, ops, segs, src):
    """the property on the firmware trace, call by call"""
    sounding = False
    prev_last = None
    for i, (op, seg) in enumerate(zip(ops, segs)):
        evs = [l.split(" ") for l in seg if l.split(" ")[0] in ("tone", "notone", "delay")]
        pr = [l for l in seg if l.startswith("println ")]
        replay = {"script": src, "op_index": i, "op": repr([getattr(a, "v", a) for a in op]), "events": [" ".join(e) for e in evs]}
        tones = [int(e[2]) for e in evs if e[0] == "tone"]
        # NB: 0 < f < 0.5 rounds to tone(pin, 0); the property only speaks about requested frequencies <= 0.
        if op[0] == "beep" and op[1] is not None and float(op[1].v) <= 0 and tones:
            ctx.fail("buzzer:tone-for-nonpositive", "beep with frequency <= 0 started a tone", replay)
        if op[0] == "sweep" and float(op[1].v) <= 0 and float(op[2].v) <= 0 and tones:
            ctx.fail("buzzer:tone-for-nonpositive", "sweep between non-positive frequencies started a tone", replay)
        for e in evs:
            if e[0] == "tone":
                sounding = True
            elif e[0] == "notone":
                sounding = False
        has_duration = (op[0] == "pt" and op[2] is not None) or op[0] in ("beep", "sweep", "mel")
        state = len(pr) == 3 and pr[0].endswith("x31")
        zero_times = op[0] == "beep" and int(op[4].v) <= 0
        if has_duration and (sounding or state):
            ctx.fail("buzzer:beep-zero-times-keeps-sounding" if zero_times else "buzzer:not-silent-after-duration-call",
                     f"{op[0]} returned with the pin sounding={sounding} get_state()={state}", replay)
        if op[0] == "pt" and float(op[1].v) <= 0 and tones:
            ctx.fail("buzzer:tone-for-nonpositive", "play_tone with frequency <= 0 started a tone", replay)
        # the tone on the pin is the requested one (the getters' claim `last sounded` is about the pin): whole Hz, rounding either way allowed
        if op[0] == "pt" and float(op[1].v) >= 1 and (len(tones) != 1 or abs(tones[0] - float(op[1].v)) > 1):
            ctx.fail("buzzer:play_tone-frequency", f"play_tone({op[1].v}) put {tones} Hz on the pin", replay)
        # get_state()/get_frequency() report the tone CURRENTLY sounded: after play_tone / stop they agree with the pin
        if op[0] in ("pt", "stop") and len(pr) == 3 and state != sounding:
            ctx.fail("buzzer:state-disagrees-with-pin", f"{op[0]} returned with the pin sounding={sounding} while get_state()={state}", replay)
        if op[0] == "beep" and op[1] is not None and float(op[1].v) > 0:
            n = max(0, int(op[4].v))
            if len(tones) != n:
                ctx.fail("buzzer:beep-count", f"beep(times={op[4].v}) sounded {len(tones)} times", replay)
            on, off = int(op[2].v), int(op[3].v)
            want = []
            for k in range(n):
                want.append("tone")
                if on > 0:
                    want.append(f"delay {on}")
                want.append("notone")
                if k + 1 < n and off > 0:
                    want.append(f"delay {off}")
            got = [e[0] if e[0] != "delay" else f"delay {e[1]}" for e in evs]
            if got != want:
                ctx.fail("buzzer:beep-gaps", f"beep on/off pattern {got}, expected {want}", replay)
        if op[0] == "sweep":
            n = max(1, int(op[4].v))
            s, e_, total = max(0.0, float(op[1].v)), max(0.0, float(op[2].v)), int(op[3].v)
            total_delay = sum(int(e[1]) for e in evs if e[0] == "delay")
            if total_delay > total:
                ctx.fail("buzzer:sweep-too-long", f"sweep delays sum to {total_delay} ms > duration {total}", replay)
            if s > 0 and e_ > 0:
                if len(tones) != n:
                    ctx.fail("buzzer:sweep-steps", f"sweep(steps={op[4].v}) played {len(tones)} tones", replay)
                elif tones:
                    up = all(a <= b for a, b in zip(tones, tones[1:]))
                    dn = all(a >= b for a, b in zip(tones, tones[1:]))
                    if not ((up and s <= e_) or (dn and s >= e_)):
                        ctx.fail("buzzer:sweep-monotone", f"sweep tones not monotone: {tones}", replay)
                    if abs(tones[-1] - int(e_ + 0.5)) > 1:
                        ctx.fail("buzzer:sweep-end", f"sweep ended on {tones[-1]}, end frequency {e_}", replay)
                    if n > 1 and abs(tones[0] - int(s + 0.5)) > 1:
                        ctx.fail("buzzer:sweep-start", f"sweep started on {tones[0]}, start frequency {s}", replay)
        if op[0] == "mel":
            score = ctx.melodies[op[1]]
            tempo = float(op[2].v) if op[2] is not None else score["tempo"]
            if tempo <= 0:
                tempo = score["tempo"]
            beat = 60000.0 / tempo
            want_t = [int(f + 0.5) for f, _ in score["sequence"] if f > 0]
            if tones != want_t:
                ctx.fail("buzzer:melody-notes", f"melody {op[1]} played {tones}, score {want_t}", replay)
            delays = [int(e[1]) for e in evs if e[0] == "delay"]
            want_d = [b * beat for _, b in score["sequence"] if b * beat >= 1]
            if len(delays) != len(want_d) or any(abs(a - b) > 1.0 for a, b in zip(delays, want_d)):
                ctx.fail("buzzer:melody-durations", f"melody {op[1]} delays {delays}, expected about {want_d}", replay)
        # get_last_frequency() reports the tone LAST SOUNDED: a call during which the pin started no tone cannot change it
        if len(pr) == 3:
            cur_last = pr[2].split(" ")[1]
            if prev_last is not None and not tones and cur_last != prev_last:
                ctx.fail("buzzer:last-frequency-changed-without-a-tone", f"{op[0]} started no tone but get_last_frequency() went from {prev_last} to {cur_last}", replay)
            prev_last = cur_last
        else:
            prev_last = None
        if len(pr) == 3 and op[0] == "pt" and op[2] is None and float(op[1].v) > 0:
            f = common.f32(ds.f32r(float(op[1].v)))
            if pr[1].split(" ")[1] != f or pr[2].split(" ")[1] != f or not state:
                ctx.fail("buzzer:getters", f"after play_tone({op[1].v}) getters are {pr}", replay)


def in_domain(ops):
    """the decidable hypothesis of the theorems: no negative duration reaches an unsigned cast"""
    for op in ops:
        if op[0] == "pt" and op[2] is not None and float(op[2].v) < 0:
            return False
        if op[0] == "beep" and (float(op[2].v) < 0 or float(op[3].v) < 0):
            return False
        if op[0] == "sweep" and float(op[3].v) < 0:
            return False
    return True


CORPUS = [
    [("pt", Arg(440), None), ("beep", None, Arg(10), Arg(10), Arg(0))],          # finding: beep(times=0) leaves the tone on
    [("pt", Arg(440), Arg(0))],
    [("pt", Arg(440.0), Arg(0.0))],
    [("sweep", Arg(200), Arg(900), Arg(100), Arg(8))],
    [("sweep", Arg(200, True), Arg(900, True), Arg(7, True), Arg(2, True))],
    [("pt", Arg(-3), Arg(5)), ("pt", Arg(0.0), None), ("stop",)],
]


def run(ctx: Ctx) -> int:
    ctx.prove(["Reduino.Props.C16"])
    common.fresh_import()
    em = importlib.import_module("Reduino.transpile.emitter")
    ctx.melodies = em._BUZZER_MELODIES
    rng = ctx.rng
    cases = [(ops, 8, None) for ops in CORPUS]
    for _ in range(ctx.n(200, 900)):
        ops = gen_ops(rng)
        while not in_domain(ops):
            ops = gen_ops(rng)
        cases.append((ops, rng.choice([8, 3, 11]), rng.choice([None, None, 880.0, 262])))
    built = [build(*c) for c in cases]
    passes = [0] * len(cases)
    # iterated family (own PRNG: the straight-line stream above stays what it was)
    rng_i = random.Random(f"{ctx.seed}:C16:iterated")
    pinned = [([("pt", Arg(200, True), Arg(10, True))], "for", 3, [100, 5]), ([("pt", Arg(200, True), Arg(10, True))], "loop", 3, [100, 5]),
              ([("sweep", Arg(200), Arg(400, True), Arg(40), Arg(2)), ("beep", Arg(400, True), Arg(5), Arg(5), Arg(1))], "loop", 3, [200, 200]),
              ([("pt", Arg(440.5, True), None)], "while", 3, [-110.25]), ([("mel", "success", Arg(120, True))], "for", 2, [120])]
    iters = []
    for ops, form, n, sts in pinned:
        vs = [a for op in ops for a in op if isinstance(a, Arg) and a.var]
        iters.append((ops, form, n, {id(a): (st, i % 2 == 1) for i, (a, st) in enumerate(zip(vs, sts))}))
    iters += [gen_iter(rng_i) for _ in range(ctx.n(50, 500))]
    for ops, form, n, steps in iters:
        pin, dflt = rng_i.choice([8, 3, 11]), rng_i.choice([None, None, 880.0, 262])
        built.append(build_iter(ops, form, n, steps, pin, dflt))
        cases.append((unroll(ops, n, steps), pin, dflt))
        passes.append(n if form == "loop" else 0)
        ctx.count("iterated:" + form)
    results = ds.transpile_and_run_passes(ctx, [(b[0], p) for b, p in zip(built, passes)])
    model = ctx.lean.drive([b[1] for b in built])
    for (ops, pin, dflt), (src, req), (cpp, exc, res), m in zip(cases, built, results, model):
        ctx.count("sequences")
        for op in ops:
            ctx.count("op:" + op[0])
        if cpp is None:
            ctx.count("rejected")
            ctx.tie_diff("tie S_c buzzer (script rejected by the transpiler)", src, m, repr(exc))
            continue
        if res.compile_error or not res.ok:
            ctx.fail("buzzer:compile", f"emitted sketch does not compile/run: {(res.compile_error or res.stderr)[:300]}", {"script": src})
            continue
        segs = ds.split_ops(res.trace)[1:]
        impl = "|".join(canon_segment(s) for s in segs)
        ctx.cov["traces_validated_against_impl"] += 1
        ctx.case(req + ("|iter" if "\n    bz." in src else ""), nontrivial=True, sample={"script": src, "model": m[:300]} if len(ctx.cov["samples"]) < 2 else None)
        if m != impl:
            ctx.tie_diff("tie S_c buzzer (Fw.Buzzer vs compiled emitted C++)", {"script": src, "request": req}, m, impl)
        monitor(ctx, ops, segs, src)
    ctx.cov["rule"] = ("sequences of 1-8 buzzer calls (play_tone with/without duration, stop, beep, sweep, melody x 7 tunes) with literal and "
                       "run-time (variable-routed) int/float arguments incl. zero and negative frequencies/counts/steps/tempos; iterated sequences: 1-3 "
                       "calls in the body of for-range / while-condition / while True (2-4 iterations or passes) whose variable arguments are "
                       "re-assigned in the body (v = v + step / v += step, int and float steps of either sign); every sequence is "
                       "transpiled, compiled with g++ against the mock core and run; distinct = distinct model request lines")
    return ctx.finish(TRUSTED, search=None)
