"""C18 — LCD animations never block, stay inside their row, finish unless looping.

Proof: lean/Reduino/Props/C18.lean over Fw/LcdAnim.lean.
Ties: S_c (firmware model vs the compiled sketch's mock cell matrix after every loop() pass, scripted clock) and
H (host model vs the real LCD.animate/tick).  Oracle: monitors on both traces (no delay, geometry, termination bound,
looping never ends, rate limit, tick injected once per pass, host tick never raises).

A further firmware family (own PRNG, monitors only): panels of 2 and 4 rows whose rows WITHOUT an animation carry static text, animations of every
style with texts up to more than twice the row, stepping on every pass, run until well after the row is full.  Every lcd.cursor / lcd.print event is
replayed through an HD44780 address map (row r starts at DDRAM 0x00, 0x40, 0x00+cols, 0x40+cols; 40 bytes per controller line), so a character written
at a column >= cols is followed to the cell it would reach on the device; the static rows must read unchanged after every pass, in the mock's matrix
and in the replayed DDRAM, and no written cell may lie outside columns 0..cols-1 of the animation's own row."""
from __future__ import annotations

import importlib
import random

import common
import devscript as ds
from common import Ctx, hexs

TRUSTED = [
    "Lean 4.33 kernel; axioms ⊆ {propext, Classical.choice, Quot.sound}",
    "harness/mockcore (cell matrix, virtual millis() with scripted drift) + host g++",
    "the counter model (Fw.tickW) is run with W = 2^64, the width of the host compiler's unsigned long; on the board W = 2^32 (the theorems hold for every W); ASCII text",
    "`ticked once per loop() pass without delay` is decided on the emitted code by the trace monitor",
    "HD44780 address map in the harness (row offsets 0x00/0x40/cols/0x40+cols, 40-byte lines) for following writes past the row; the mock matrix itself drops them as lcd.overflow",
]
HEAD = ["from Reduino.Displays import LCD", "from Reduino.Communication import SerialMonitor", "from Reduino.Utils import sleep"]
STYLES = ["scroll", "blink", "typewriter", "bounce"]
ALPHA = "abcdefghijklmnopqrstuvwxyzABCDEFGHIJ0123456789 .!"


def gen_anims(rng, cols, rows):
    n = rng.randint(1, 3)
    out = []
    for _ in range(n):
        ln = rng.choice([0, 1, 2, max(1, cols - 2), cols - 1, cols, cols + 1, cols + 5, rng.randint(0, cols + 8)])
        text = "".join(rng.choice(ALPHA) for _ in range(max(0, ln)))
        out.append((rng.choice(STYLES), rng.randrange(rows), text, rng.choice([0, 1, 50, 100, 200, 1000]), rng.random() < 0.35))
    return out


def bound(style, ln, cols, side):
    if style == "scroll":
        return (max(ln, cols) if side == "fw" else ln) + cols
    if style == "blink":
        return 1
    if style == "typewriter":
        return max(ln - 1, 1)
    return max(2 * (cols - ln), 1) if 0 < ln < cols else 1


def spec(anims):
    return ";".join(f"{s} {r} {'-' if not t else hexs(t)} {sp} {'T' if lp else 'F'}" for s, r, t, sp, lp in anims)


def fw_script(cols, rows, anims, sleep_ms, in_loop=False):
    lines = HEAD + ["mon = SerialMonitor(9600)", f"lcd = LCD(rs=12, en=11, d4=5, d5=4, d6=3, d7=2, cols={cols}, rows={rows})"]
    starts = [f"lcd.animate({s!r}, {r}, {t!r}, speed_ms={sp}, loop={lp})" for s, r, t, sp, lp in anims]
    if not in_loop:
        lines += starts
    lines.append('mon.write("#")')
    lines.append("while True:")
    if in_loop:
        lines += ["    " + s for s in starts]
    lines.append('    mon.write("#")')
    if sleep_ms:
        lines.append(f"    sleep({sleep_ms})")
    return "\n".join(lines) + "\n"


def static_script(cols, rows, anims, statics, sleep_ms):
    lines = HEAD + ["mon = SerialMonitor(9600)", f"lcd = LCD(rs=12, en=11, d4=5, d5=4, d6=3, d7=2, cols={cols}, rows={rows})"]
    lines += [f"lcd.line({r}, {t!r})" for r, t in sorted(statics.items())]
    lines += [f"lcd.animate({s!r}, {r}, {t!r}, speed_ms={sp}, loop={lp})" for s, r, t, sp, lp in anims]
    lines += ['mon.write("#")', "while True:", '    mon.write("#")']
    if sleep_ms:
        lines.append(f"    sleep({sleep_ms})")
    return "\n".join(lines) + "\n"


class Hd44780:
    """DDRAM of a 2-line-mode controller as the LiquidCrystal library addresses it (rows 2 and 3 continue rows 0 and 1)"""

    def __init__(self, cols, rows):
        self.cols, self.rows = cols, rows
        self.off = [0x00, 0x40, 0x00 + cols, 0x40 + cols]
        self.ram = {}
        self.addr = 0

    def clear(self):
        self.ram, self.addr = {}, 0

    def cursor(self, c, r):
        self.addr = (self.off[max(0, min(r, self.rows - 1))] + c) & 0x7F

    def put(self, ch):
        self.ram[self.addr] = ch
        a = self.addr + 1
        self.addr = 0x40 if a == 0x28 else 0x00 if a >= 0x68 else a

    def where(self, addr):
        for r in range(self.rows):
            if self.off[r] <= addr < self.off[r] + self.cols:
                return r, addr - self.off[r]
        return None

    def row(self, r):
        return "".join(self.ram.get(self.off[r] + c, " ") for c in range(self.cols))


def static_rows_monitor(ctx, trace, cols, rows, anims, statics, replay):
    """rows that carry no animation keep their text; every written cell lies in columns 0..cols-1 of a row of its animation"""
    dev = Hd44780(cols, rows)
    anim_rows = {a[1] for a in anims}
    want = {r: t.ljust(cols)[:cols] for r, t in statics.items()}
    started, k = False, -1
    for l in trace:
        w = l.split(" ")
        if l.startswith("== loop"):
            started, k = True, k + 1
        elif w[0] == "lcd.clear":
            dev.clear()
        elif w[0] == "lcd.cursor":
            dev.cursor(int(w[2]), int(w[3]))
        elif w[0] == "lcd.print":
            cx, cy, text = int(w[2]), int(w[3]), bytes.fromhex(w[4][1:]).decode("latin-1")
            for i, ch in enumerate(text):
                if started and (cy not in anim_rows or not 0 <= cx + i < cols):
                    hit = dev.where(dev.addr)
                    ctx.fail("anim:cell-off-row", f"pass {k}: a frame wrote {ch!r} at column {cx + i} of row {cy} on a {cols}x{rows} display (animated rows {sorted(anim_rows)}): "
                             + (f"on an HD44780 that is row {hit[0]} column {hit[1]} of the panel" if hit else "off-screen DDRAM on an HD44780"), {**replay, "pass": k})
                    started = None          # one report per run; keep replaying
                dev.put(ch)
        elif w[0] == "lcd.cells" and started is not False:
            grid = bytes.fromhex(w[3][1:]).decode("latin-1").split("\n")
            for r, t in want.items():
                if grid[r] != t or dev.row(r) != t:
                    ctx.fail("anim:static-row-changed", f"pass {k}: row {r} carries no animation and held {t!r}; now the cell matrix reads {grid[r]!r}, the HD44780 DDRAM {dev.row(r)!r}", {**replay, "pass": k})
                    return


def canon(h):
    raw = bytes.fromhex(h[1:])
    return "x" + b"\n".join(raw.split(b"\n")[:-1]).hex()


def rate_monitor(ctx, loop_segs, anims, start, replay):
    """on the real firmware trace: an animation that owns its row steps (prints to that row) no more often than every speed_ms,
    measured as the counter difference modulo 2^64"""
    rows_used = [a[1] for a in anims]
    times = {i: [] for i, a in enumerate(anims) if rows_used.count(a[1]) == 1 and a[3] > 0}
    for k, seg in enumerate(loop_segs):
        body = seg[seg.index(f"== loop {k}") + 1:] if f"== loop {k}" in seg else seg
        head = body[: next((i for i, l in enumerate(body) if l.startswith("delay")), len(body))]
        now = None
        for l in head:
            w = l.split(" ")
            if w[0] == "millis":
                if int(w[1]) == 0:
                    return          # stamp 0 means "no step yet" to the helpers: the clock is not running in the property's sense
                now = (int(w[1]) - start) % 2 ** 64
            elif w[0] == "lcd.print" and now is not None:
                for i in times:
                    if int(w[3]) == anims[i][1] and (not times[i] or times[i][-1] != now):
                        times[i].append(now)
    for i, ts in times.items():
        sp = anims[i][3]
        for a, b in zip(ts, ts[1:]):
            if (b - a) % 2 ** 64 < sp:
                ctx.fail("anim:steps-too-close", f"{anims[i][0]} on row {anims[i][1]} stepped {(b - a) % 2 ** 64} ms after its previous step (speed_ms={sp})", replay)
                return


def run(ctx: Ctx) -> int:
    ctx.prove(["Reduino.Props.C18"])
    common.fresh_import()
    LCD = importlib.import_module("Reduino.Displays.LCD").LCD
    rng = ctx.rng
    cases = []
    for _ in range(ctx.n(150, 500)):
        cols, rows = rng.choice([1, 2, 4, 8, 12, 16, 20]), rng.randint(1, 4)
        anims = gen_anims(rng, cols, rows)
        sleep_ms = rng.choice([0, 30, 100, 250])
        need = max(bound(s, len(t), cols, "fw") for s, _, t, _, _ in anims)
        passes = min(need + 6, 70)
        drifts = [rng.choice([0, 0, 1, 7, 40, 120]) for _ in range(passes * len(anims))]
        # a quarter of the runs start just before the millisecond counter wraps (64-bit on the host: same arithmetic, other modulus)
        start = (2 ** 64 - rng.choice([3, 40, 99, 101, 400, 1500])) if rng.random() < 0.25 else 0
        cases.append((cols, rows, anims, sleep_ms, passes, drifts, start))
    # pinned: every style, alone on its display, run across the wrap of the millisecond counter with early and late ticks
    for style in STYLES:
        for off, sp in ((50, 100), (400, 1000), (1500, 200)):
            cases.append((8, 2, [(style, 0, "hello", sp, True)], 30, 40, [rng.choice([0, 7, 40, 120]) for _ in range(40)], 2 ** 64 - off))
    # ---------- firmware side ---------------------------------------------------------------------------------
    import cxx
    STARTS = [c[6] for c in cases]
    cases = [c[:6] for c in cases]
    srcs = [fw_script(c, r, a, s) for c, r, a, s, p, d in cases]
    outs = [cxx.transpile(s) for s in srcs]
    jobs = [(cpp, cases[i][4], "t " + " ".join(map(str, cases[i][5])) + (f"\nT {STARTS[i]}" if STARTS[i] else "")) for i, (cpp, e) in enumerate(outs) if cpp is not None]
    res_iter = iter(cxx.run_many(ctx, jobs))
    results = [next(res_iter) if cpp is not None else None for cpp, e in outs]
    # runs that start near the wrap are driven through the counter model (Fw.tickW, W = 2^64 for the host compiler's unsigned long);
    # Props.C18.fw_run_across_wrap relates it to the natural-number model
    fw_model = ctx.lean.drive([f"lcdanim|fw|{c} {r}|{' '.join(map(str, d))}|{s}|{p}|{spec(a)}" if not st else
                               f"lcdanim|fwW|{c} {r}|{' '.join(map(str, d))}|{s}|{p}|{spec(a)}|{2 ** 64}|{st}"
                               for (c, r, a, s, p, d), st in zip(cases, STARTS)])
    for (cols, rows, anims, sleep_ms, passes, drifts), src, (cpp, exc), res, m, start in zip(cases, srcs, outs, results, fw_model, STARTS):
        replay = {"script": src, "drifts": drifts, "passes": passes, "clock_start": start}
        for a in anims:
            ctx.count("style:" + a[0] + (":loop" if a[4] else ""))
        if cpp is None:
            ctx.tie_diff("tie S_c anim (script rejected by the transpiler)", src, m[:60], repr(exc))
            continue
        if res.compile_error or not res.ok:
            ctx.fail("anim:compile", f"sketch does not compile/run: {(res.compile_error or res.stderr)[:300]}", replay)
            continue
        segs = ds.split_ops(res.trace)
        ctx.cov["traces_validated_against_impl"] += 1
        ctx.case(f"{cols} {rows} {spec(anims)} {sleep_ms} {drifts[:6]}", nontrivial=True, sample={"script": src, "model": m[:160]} if len(ctx.cov["samples"]) < 2 else None)
        mp = m.split("|")
        impl_grids = []
        for seg in segs:
            cells = [l for l in seg if l.startswith("lcd.cells ")]
            impl_grids.append(canon(cells[-1].split(" ")[3]) if cells else "none")
        model_grids = [x.split(" ")[0] for x in mp]
        if start:
            ctx.count("run-across-counter-wrap")
        rate_monitor(ctx, segs[1:], anims, start, replay)
        if impl_grids != model_grids[: len(impl_grids)] or len(impl_grids) != len(model_grids):
            k = next((i for i, (a, b) in enumerate(zip(impl_grids, model_grids)) if a != b), min(len(impl_grids), len(model_grids)))
            ctx.tie_diff("tie S_c anim (Lcd.Fw animation model vs compiled templates, cells after each pass)",
                         {**replay, "pass": k - 1}, model_grids[k] if k < len(model_grids) else "none", impl_grids[k] if k < len(impl_grids) else "none")
        # ---- monitors on the real firmware trace
        loop_segs = segs[1:]
        steps = [0] * len(anims)
        for k, seg in enumerate(loop_segs):
            body = seg[seg.index(f"== loop {k}") + 1:] if f"== loop {k}" in seg else seg
            head = body[: next((i for i, l in enumerate(body) if l.startswith("delay")), len(body))]
            if any(l.startswith("delay") for l in head):
                ctx.fail("anim:delay-in-tick", "a delay() was issued while ticking animations", {**replay, "pass": k})
            if any(l.startswith("lcd.overflow") for l in seg):
                ctx.fail("anim:frame-off-row", "an animation frame wrote outside the display", {**replay, "pass": k})
            for l in seg:
                if l.startswith("lcd.print "):
                    w = l.split(" ")
                    c, ln = int(w[2]), (len(w[4]) - 1) // 2
                    if c < 0 or c + ln > cols:
                        ctx.fail("anim:frame-off-row", f"print at col {c} len {ln} on {cols} columns", {**replay, "pass": k})
            nm = sum(1 for l in head if l.startswith("millis "))
            act = mp[k].split("a=")[1].split(" ")[0] if k < len(mp) else ""
            if act and nm != act.count("1"):
                ctx.fail("anim:not-ticked-once-per-pass", f"pass {k}: {nm} tick(s) for {act.count('1')} active animation(s)", {**replay, "pass": k})
        # termination / looping from the model's view of the real cells is covered by the tie; check flags via the model line
        final_act = mp[-1].split("a=")[1].split(" ")[0]
        stepped_total = ["".join(x.split("t=")[1][i] for x in mp[1:] if len(x.split("t=")[1]) > i).count("s") for i in range(len(anims))]
        for i, (s, r, t, sp, lp) in enumerate(anims):
            b = bound(s, len(t), cols, "fw")
            if lp and final_act[i] != "1":
                ctx.fail("anim:looping-ended", f"looping {s} became inactive", replay)
            if not lp and stepped_total[i] > b:
                ctx.fail("anim:too-many-steps", f"non-looping {s} (len {len(t)}, cols {cols}) took {stepped_total[i]} steps > bound {b}", replay)
            if not lp and stepped_total[i] >= b and final_act[i] != "0":
                ctx.fail("anim:never-finishes", f"non-looping {s} still active after {stepped_total[i]} steps (bound {b})", replay)
    # ---------- pinned finding: animation started inside the main loop is never ticked ---------------------------
    src = fw_script(8, 2, [("scroll", 0, "hello", 0, False)], 0, in_loop=True)
    cpp, exc = cxx.transpile(src)
    if cpp is not None:
        r = cxx.run_many(ctx, [(cpp, 3, "")])[0]
        if r.ok and not any(l.startswith("millis") for l in r.trace):
            ctx.fail("anim:loop-started-never-ticked", "an animation started inside the while True: body is never ticked", {"script": src})
    # ---------- static rows next to animations with long texts (own PRNG; monitors only) ------------------------------
    rng_s = random.Random(f"{ctx.seed}:C18:static-rows")
    scases = []
    for cols, rows in ((16, 2), (20, 4), (20, 4), (8, 2), (16, 4), (20, 2)):
        for style in STYLES if (cols, rows) in ((16, 2), (20, 4)) else rng_s.sample(STYLES, min(4, ctx.n(2, 4))):
            ar = rng_s.randrange(rows)
            ln = rng_s.choice([cols + 1, cols + 2, cols + 5, 2 * cols + 3, 40 - cols + 2, cols, cols - 1])
            anims = [(style, ar, "".join(rng_s.choice(ALPHA) for _ in range(ln)), rng_s.choice([0, 0, 1, 20]), rng_s.random() < 0.4)]
            if rows == 4 and rng_s.random() < 0.4:
                r2 = rng_s.choice([r for r in range(rows) if r != ar])
                anims.append((rng_s.choice(STYLES), r2, "".join(rng_s.choice(ALPHA) for _ in range(rng_s.choice([3, cols + 3]))), 0, True))
            statics = {r: "".join(rng_s.choice(ALPHA.strip()) for _ in range(rng_s.choice([cols, cols, cols - 3, 1]))) for r in range(rows) if r not in {a[1] for a in anims}}
            scases.append((cols, rows, anims, statics, 30, min(2 * ln + cols + 8, 110)))
    ssrcs = [static_script(c, r, a, st, sl) for c, r, a, st, sl, p in scases]
    souts = [cxx.transpile(x) for x in ssrcs]
    sres = iter(cxx.run_many(ctx, [(cpp, scases[i][5], "") for i, (cpp, e) in enumerate(souts) if cpp is not None]))
    for (cols, rows, anims, statics, sl, passes), src, (cpp, exc) in zip(scases, ssrcs, souts):
        replay = {"script": src, "passes": passes}
        ctx.count("static-rows:" + anims[0][0] + (":longer-than-row" if len(anims[0][2]) > cols else ""))
        if cpp is None:
            ctx.tie_diff("tie S_c anim (script rejected by the transpiler)", src, "accepted", repr(exc))
            continue
        res = next(sres)
        if res.compile_error or not res.ok:
            ctx.fail("anim:compile", f"sketch does not compile/run: {(res.compile_error or res.stderr)[:300]}", replay)
            continue
        ctx.cov["traces_validated_against_impl"] += 1
        ctx.case(f"static {cols} {rows} {spec(anims)} {sorted(statics.items())}", nontrivial=True)
        if any(l.startswith("lcd.overflow") for l in res.trace[res.trace.index("== loop 0"):] if "== loop 0" in res.trace):
            ctx.count("static-rows:overflow-event")
        static_rows_monitor(ctx, res.trace, cols, rows, anims, statics, replay)
    # ---------- host side -----------------------------------------------------------------------------------------
    hcases = []
    for _ in range(ctx.n(400, 1500)):
        cols, rows = rng.choice([1, 2, 4, 8, 16, 20, 40]), rng.randint(1, 4)
        anims = gen_anims(rng, cols, rows)
        t, times = 0, []
        need = max(bound(s, len(x), cols, "host") for s, _, x, _, _ in anims)
        for _ in range(min(need + 6, 90)):
            t += rng.choice([1, 10, 50, 99, 100, 101, 200, 350, 1000])
            times.append(t)
        hcases.append((cols, rows, anims, times))
    # pinned: the degenerate forms (empty text, text as wide as the row or wider), looping, with ticks closer together than speed_ms
    for style, text in (("bounce", ""), ("bounce", "abcdefgh"), ("bounce", "abcdefghijk"), ("typewriter", ""), ("scroll", ""), ("blink", "")):
        for lp in (True, False):
            hcases.append((8, 2, [(style, 1, text, 100, lp)], [10, 20, 30, 150, 160, 170, 300, 301, 420]))
    hmodel = ctx.lean.drive([f"lcdanim|host|{c} {r}|{' '.join(map(str, ts))}|{spec(a)}" for c, r, a, ts in hcases])
    for (cols, rows, anims, times), m in zip(hcases, hmodel):
        replay = {"cols": cols, "rows": rows, "anims": anims, "times": times}
        lcd = LCD(rs=12, en=11, d4=5, d5=4, d6=3, d7=2, cols=cols, rows=rows)
        try:
            for s, r, t, sp, lp in anims:
                lcd.animate(s, r, t, speed_ms=sp, loop=lp)
            states = list(lcd.animations.values())
            drawn = []
            real_line = lcd.line
            lcd.line = lambda row, *a, **k: (drawn.append(row), real_line(row, *a, **k))[1]
            own_row = [[x[1] for x in anims].count(a[1]) == 1 for a in anims]
            out = ["x" + lcd.dump().encode().hex() + " a=" + "".join("1" if st.active else "0" for st in states) + " t="]
            steps = [0] * len(anims)
            last = [None] * len(anims)
            for now in times:
                before = [(st.last_tick, st.active, st.offset, st.visible, st.show, st.cycles) for st in states]
                del drawn[:]
                lcd.tick(now)
                flags = ""
                for i, st in enumerate(states):
                    after = (st.last_tick, st.active, st.offset, st.visible, st.show, st.cycles)
                    stepped = before[i][1] and after != before[i]
                    flags += "s" if stepped else "-"
                    if stepped:
                        steps[i] += 1
                    if stepped or (own_row[i] and before[i][1] and anims[i][1] in drawn):      # a state change or a redraw of its row
                        if last[i] is not None and anims[i][3] > 0 and now - last[i] < anims[i][3]:
                            ctx.fail("anim:host-rate-limit", f"host {anims[i][0]} stepped at {last[i]} and {now} (speed {anims[i][3]})", replay)
                        last[i] = now
                out.append("x" + lcd.dump().encode().hex() + " a=" + "".join("1" if st.active else "0" for st in states) + " t=" + flags)
                if any(len(rw) != cols for rw in lcd.buffer) or len(lcd.buffer) != rows:
                    ctx.fail("anim:host-frame-geometry", f"host buffer rows {[len(x) for x in lcd.buffer]}", replay)
            for i, (s, r, t, sp, lp) in enumerate(anims):
                b = bound(s, len(t), cols, "host")
                if lp and not states[i].active:
                    ctx.fail("anim:host-looping-ended", f"host looping {s} became inactive", replay)
                if not lp and steps[i] > b:
                    ctx.fail("anim:host-too-many-steps", f"host {s} took {steps[i]} steps > {b}", replay)
            impl = "|".join(out)
        except Exception as e:  # noqa: BLE001  (the property: tick never raises)
            ctx.fail("anim:host-tick-raises", f"host animate/tick raised {type(e).__name__}: {e}", replay)
            continue
        ctx.cov["traces_validated_against_impl"] += 1
        ctx.case(f"h {cols} {rows} {spec(anims)} {times[:5]}", nontrivial=True)
        if impl != m:
            a, b = impl.split("|"), m.split("|")
            k = next((i for i, (x, y) in enumerate(zip(a, b)) if x != y), 0)
            ctx.tie_diff("tie H anim (Lcd.Host animation model vs real LCD.animate/tick)", {**replay, "tick_index": k - 1}, b[k][:200], a[k][:200])
    ctx.cov["rule"] = ("1-3 animations (all four styles, texts from empty to longer than the row, loop on/off, speed 0..1000) on displays of 1-20 columns x 1-4 rows; "
                       "firmware: compiled sketch run for bound+6 passes with scripted clock drift and a per-pass sleep (early/on-time/late ticks); host: tick time "
                       "sequences with gaps 1..1000 ms; static-rows family: 2- and 4-row panels with static text on the rows that carry no animation, texts up to more than "
                       "twice the row, a step on every pass, every written cell followed through the HD44780 address map")
    return ctx.finish(TRUSTED, search=None)
