"""C19 — host actuator models keep their invariants under every operation history.

Proof: lean/Reduino/Props/C19.lean (invariants by induction over call lists, over an ordered field K).
Tie H: the model's executable definitions (at Float) vs the real classes on the same call sequences, bit-exact.
Oracle: the property's invariants evaluated on the real objects after every call."""
from __future__ import annotations

import math

import hostrun
from common import Ctx, enc

TRUSTED = [
    "Lean 4.33 kernel; axioms ⊆ {propext, Classical.choice, Quot.sound}",
    "harness/hostrun.py + Driver.lean canonical printers (tie H)",
    "theorems are over an arbitrary linearly ordered field K (exact arithmetic); IEEE-754 rounding is covered only by the bit-exact tie",
    "harness/extract.py (Gen.rampSteps)",
]

INTS = [-1, 0, 1, 2, 5, 127, 128, 254, 255, 256, 300]
FLTS = [-0.5, 0.0, 0.5, 1.0, 1.5, 127.5, 254.9, 255.0, 255.5]


def tok(v):
    if isinstance(v, bool):
        return "b1" if v else "b0"
    return enc(v)


def pick(rng, *pools):
    pool = rng.choice(pools)
    return rng.choice(pool)


def gen_led(rng):
    n = rng.randint(1, 12)
    ops = []
    for _ in range(n):
        k = rng.choice(["on", "off", "toggle", "sb", "sb", "blink", "fi", "fo", "fp"])
        if k in ("on", "off", "toggle"):
            ops.append(k)
        elif k == "sb":
            ops.append(f"sb {tok(pick(rng, INTS, FLTS, [True, False]))}")
        elif k == "blink":
            ops.append(f"blink {tok(pick(rng, [0, 1, 10, -1], [0.0, 2.5, -0.5]))} {tok(pick(rng, [1, 2, 3, 0, -1], [True, False], [1.0, 2.0, 0.0]))}")
        elif k in ("fi", "fo"):
            ops.append(f"{k} {tok(pick(rng, [1, 5, 50, 254, 255, 300, 0, -3], [True, False]))} {tok(pick(rng, [0, 10, -1], [0.5, -0.5]))}")
        else:
            m = rng.randint(0, 5)
            ents = [tok(pick(rng, [0, 1, 2, 128, 255, 256, -1], [0.0, 1.0, 0.5, 200.7], [True, False])) for _ in range(m)]
            ops.append("fp " + " ".join([tok(pick(rng, [0, 7, -1], [1.5]))] + ents))
    return "led||" + "|".join(ops)


def gen_rgb(rng):
    comp = lambda: tok(pick(rng, [0, 1, 2, 100, 127, 128, 254, 255, 256, -1], [0, 255, 10, 20, 30], [True, False], [1.0, 0.5]))
    ctor = " ".join(tok(pick(rng, [3, 5, 6, 9, 10, 11], [0, -1], [True], [1.5])) for _ in range(3)) if rng.random() < 0.15 else "i9 i10 i11"
    ops = []
    for _ in range(rng.randint(1, 8)):
        k = rng.choice(["sc", "on", "off", "fade", "fade", "blink"])
        if k in ("sc", "on"):
            c3 = f"{comp()} {comp()} {comp()}"
            ops.append(f"{k} {c3}")
            if rng.random() < 0.3:      # blink with exactly the colour the LED already shows
                ops.append(f"blink {c3} {tok(pick(rng, [1, 2, 3]))} {tok(pick(rng, [0, 200], [0.5]))}")
        elif k == "off":
            ops.append("off")
        elif k == "fade":
            ops.append(f"fade {comp()} {comp()} {comp()} {tok(pick(rng, [0, 100, 1000, 7, -1], [0.0, 33.3, -0.1]))} {tok(pick(rng, [1, 2, 3, 4, 7, 50, 0, -2], [True], [2.0, 0.0]))}")
        else:
            ops.append(f"blink {comp()} {comp()} {comp()} {tok(pick(rng, [1, 2, 3, 0, -1], [True, False], [2.0]))} {tok(pick(rng, [0, 200, -1], [0.5, -0.5]))}")
    return f"rgb|{ctor}|" + "|".join(ops)


def gen_servo(rng):
    cfgs = [(0.0, 180.0, 544.0, 2400.0), (0, 180, 544, 2400), (-90.0, 90.0, 1000.0, 2000.0), (10, 170, 600, 2300),
            (45.0, 135.0, 544.5, 2399.5), (0, 270, 500, 2500), (0.5, 0.75, 1, 2)]
    if rng.random() < 0.12:
        cfgs = [(180, 0, 544, 2400), (0, 0, 544, 2400), (0, 180, 2400, 544), (0, 180, 600, 600.0)]
    c = rng.choice(cfgs)
    lo, hi, pl, ph = [float(x) for x in c]
    ops = []
    for _ in range(rng.randint(1, 10)):
        if rng.random() < 0.5:
            cand = [lo, hi, (lo + hi) / 2, lo + (hi - lo) / 3, lo - 1, hi + 1, lo + 0.25, hi - 0.125, rng.uniform(lo, hi)]
            v = rng.choice(cand)
            if rng.random() < 0.3 and float(v).is_integer():
                v = int(v)
            ops.append(f"w {tok(v)}")
        else:
            cand = [pl, ph, (pl + ph) / 2, pl + (ph - pl) / 3, pl - 1, ph + 1, pl + 0.5, rng.uniform(pl, ph)]
            v = rng.choice(cand)
            if rng.random() < 0.3 and float(v).is_integer():
                v = int(v)
            ops.append(f"wu {tok(v)}")
    return "servo|" + " ".join(tok(x) for x in c) + "|" + "|".join(ops)


SPEEDS = [0, 1, -1, 2, -3, 0.0, -0.0, 0.5, -0.5, 1.0, -1.0, 1.5, -2.5, 0.25, 0.001, 1e-9, 0.3, -0.7, True, False]


def gen_motor(rng):
    ctor = "i2 i3 i5"
    if rng.random() < 0.12:
        ctor = " ".join(tok(pick(rng, [1, 2, 3], [True], [2.0])) for _ in range(3))
    ops = []
    for _ in range(rng.randint(1, 10)):
        k = rng.choice(["ss", "ss", "bw", "stop", "coast", "inv", "inv", "ramp", "rf"])
        if k in ("ss", "bw"):
            ops.append(f"{k} {tok(rng.choice(SPEEDS))}")
        elif k in ("stop", "coast", "inv"):
            ops.append(k)
        elif k == "ramp":
            ops.append(f"ramp {tok(rng.choice(SPEEDS))} {tok(pick(rng, [0, 100, 2000, 7, -1], [0.0, 33.3, -0.5]))}")
        else:
            ops.append(f"rf {tok(pick(rng, [0, 50, -1], [12.5, -0.5]))} {tok(rng.choice(SPEEDS))}")
    return f"motor|{ctor}|" + "|".join(ops)


GENS = {"led": gen_led, "rgb": gen_rgb, "servo": gen_servo, "motor": gen_motor}


# ---- the property itself, evaluated on the real objects ------------------------------------------------------

def close(a, b, tol=1e-9):
    return abs(a - b) <= tol * max(1.0, abs(a), abs(b))


def oracle(ctx: Ctx, mods, line: str):
    """Replays `line` on fresh real objects, checking the C19 invariants after every call."""
    f = line.split("|")
    kind, ctor, ops = f[0], f[1], f[2:]
    rec = mods["rec"]

    def bad(key, what, i):
        ctx.fail(f"{kind}:{key}", what, {"request": line, "op_index": i, "op": ops[i] if 0 <= i < len(ops) else "ctor"})

    for i in range(len(ops)):
        prefix = "|".join([kind, ctor] + ops[: i + 1])
        if kind == "led":
            _, before = hostrun.run_led(mods, ops[:i])
            snap = (before.brightness, before.state)
            out, o = hostrun.run_led(mods, ops[: i + 1])
            last = out.split("|")[-1]
            b, s = o.get_brightness(), o.get_state()
            if not (isinstance(b, int) and 0 <= b <= 255):
                bad("range", f"brightness {b!r} outside 0..255 after {ops[i]}", i)
            if bool(s) != (b > 0):
                bad("state", f"state {s} but brightness {b} after {ops[i]}", i)
            if last.startswith("raise") and not ops[i].startswith("fp") and (o.brightness, o.state) != snap:
                bad("atomic", f"failed call {ops[i]} changed the object {snap}->{(o.brightness, o.state)}", i)
            if last.startswith("ok") and ops[i].startswith("blink"):
                a = [hostrun.dec(t) for t in ops[i].split()[1:]]
                sl = _sleeps(last)
                if len(sl) != 2 * int(a[1]) or any(x != enc(a[0]) and x != tok(a[0]).replace("b", "i") for x in sl):
                    bad("blink-sleep", f"blink slept {sl} for duration {a[0]} times {a[1]}", i)
        elif kind == "rgb":
            out0, before = hostrun.run_rgb(mods, ctor, ops[:i])
            if before is None:
                return
            snap = (before.get_color(), before.get_state())
            out, o = hostrun.run_rgb(mods, ctor, ops[: i + 1])
            last = out.split("|")[-1]
            c, s = o.get_color(), o.get_state()
            if not all(isinstance(x, int) and 0 <= x <= 255 for x in c):
                bad("range", f"colour {c} outside 0..255 after {ops[i]}", i)
            if bool(s) != any(x != 0 for x in c):
                bad("state", f"state {s} with colour {c}", i)
            if last.startswith("raise") and (c, s) != snap:
                bad("atomic", f"failed call {ops[i]} changed the object {snap}->{(c, s)}", i)
            if last.startswith("ok") and ops[i].startswith("fade"):
                a = [hostrun.dec(t) for t in ops[i].split()[1:]]
                tgt = tuple(int(x) for x in a[:3])
                tr = [tuple(int(y) for y in t.split(",")) for t in last.split("tr=")[1].split(";") if t]
                if c != tgt:
                    bad("fade-target", f"fade ended on {c}, target {tgt}", i)
                stepped = not (a[3] == 0 or snap[0] == tgt)
                if stepped and len(tr) != int(a[4]):
                    bad("fade-steps", f"fade made {len(tr)} steps, asked {a[4]}", i)
                seq = [snap[0]] + tr
                for ch in range(3):
                    col = [t[ch] for t in seq]
                    up = all(x <= y for x, y in zip(col, col[1:]))
                    dn = all(x >= y for x, y in zip(col, col[1:]))
                    if not (up or dn):
                        bad("fade-monotone", f"channel {ch} not monotone: {col}", i)
                sl = [hostrun.dec(x) for x in _sleeps(last)]
                if sum(sl) > float(a[3]) * (1 + 1e-12) + 1e-9:
                    bad("fade-sleep", f"fade slept {sum(sl)} > {a[3]}", i)
            if last.startswith("ok") and ops[i].startswith("blink"):
                a = [hostrun.dec(t) for t in ops[i].split()[1:]]
                if c != snap[0]:
                    bad("blink-restore", f"blink ended on {c}, started from {snap[0]}", i)
                sl = _sleeps(last)
                if len(sl) != 2 * int(a[3]):
                    bad("blink-sleep", f"blink slept {len(sl)} times for times={a[3]}", i)
        elif kind == "servo":
            out, o = hostrun.run_servo(mods, ctor, ops[: i + 1])
            if o is None:
                return
            last = out.split("|")[-1]
            a, p = o.read(), o.read_us()
            lo, hi, pl, ph = o._min_angle, o._max_angle, o._min_pulse, o._max_pulse
            eps = 1e-9
            if not (lo - eps <= a <= hi + eps):
                bad("angle-range", f"angle {a} outside [{lo},{hi}] after {ops[i]}", i)
            if not (pl - eps <= p <= ph + eps):
                bad("pulse-range", f"pulse {p} outside [{pl},{ph}] after {ops[i]}", i)
            lin = pl + (a - lo) / (hi - lo) * (ph - pl)
            if not close(lin, p, 1e-9):
                bad("linear", f"angle {a} and pulse {p} do not correspond (map gives {lin})", i)
            if last.startswith("ok"):
                v = float(hostrun.dec(ops[i].split()[1]))
                if ops[i].startswith("w ") and a != v:
                    bad("roundtrip", f"read() {a} after write({v})", i)
                if ops[i].startswith("wu ") and p != v:
                    bad("roundtrip", f"read_us() {p} after write_us({v})", i)
            else:
                _, before = hostrun.run_servo(mods, ctor, ops[:i])
                if (before.read(), before.read_us()) != (a, p):
                    bad("atomic", f"failed call {ops[i]} changed the servo", i)
        elif kind == "motor":
            out0, before = hostrun.run_motor(mods, ctor, ops[:i])
            if before is None:
                return
            snap = (before.get_speed(), before.get_applied_speed(), before.is_inverted(), before.get_mode())
            out, o = hostrun.run_motor(mods, ctor, ops[: i + 1])
            last = out.split("|")[-1]
            sp, ap, inv, mode = o.get_speed(), o.get_applied_speed(), o.is_inverted(), o.get_mode()
            if not abs(sp) <= 1.0:
                bad("speed-range", f"|speed| = {abs(sp)} > 1 after {ops[i]}", i)
            if ap != (-sp if inv else sp):
                bad("applied", f"applied {ap} speed {sp} inverted {inv}", i)
            # mode law: drive iff applied != 0; else brake iff last command stop/run_for, else coast
            j = i
            while j >= 0 and out.split("|")[j + 1].startswith("raise"):
                j -= 1   # failing calls do not count as commands
            lastcmd = ops[j].split()[0] if j >= 0 else "init"
            want = "drive" if ap != 0 else ("brake" if lastcmd in ("stop", "rf") else "coast")
            if mode != want:
                bad("mode", f"mode {mode}, expected {want} (applied {ap}, last command {lastcmd})", i)
            if last.startswith("raise") and (sp, ap, inv, mode) != snap:
                bad("atomic", f"failed call {ops[i]} changed the motor", i)
            if last.startswith("ok"):
                k = ops[i].split()[0]
                a = [hostrun.dec(t) for t in ops[i].split()[1:]]
                sl = [float(hostrun.dec(x)) for x in _sleeps(last)]
                if k == "inv" and inv == snap[2]:
                    bad("invert", "invert() did not toggle", i)
                if k == "ramp":
                    tgt = max(-1.0, min(1.0, float(a[0])))
                    tr = [hostrun.dec(x) for x in last.split("tr=")[1].split(",") if x]
                    if len(tr) != 20:
                        bad("ramp-steps", f"ramp made {len(tr)} steps", i)
                    if not close(sp, tgt, 1e-9):
                        bad("ramp-target", f"ramp ended at {sp}, target {tgt}", i)
                    seq = [snap[0]] + tr
                    tolm = 1e-12
                    if not (all(x <= y + tolm for x, y in zip(seq, seq[1:])) or all(x >= y - tolm for x, y in zip(seq, seq[1:]))):
                        bad("ramp-monotone", f"ramp not monotone: {seq}", i)
                    if sum(sl) > float(a[1]) * (1 + 1e-9) + 1e-9:
                        bad("ramp-sleep", f"ramp slept {sum(sl)} > {a[1]}", i)
                if k == "rf":
                    if mode != "brake" or sp != 0:
                        bad("runfor-brake", f"run_for ended {mode} speed {sp}", i)
                    if sl != [float(a[0])]:
                        bad("runfor-sleep", f"run_for slept {sl} for {a[0]}", i)


def _sleeps(last: str):
    s = last.split("sl=")[1].split(" ")[0]
    return [x for x in s.split(",") if x]


CORPUS = [
    "rgb|i9 i10 i11|on i255 i255 i255|blink i255 i255 i255 i2 i5",
    "rgb|i9 i10 i11|sc i10 i20 i30|blink i10 i20 i30 i1 i0|fade i7 i7 i7 i10 i2|blink i7 i7 i7 i3 i1",
    "motor|i2 i3 i5|rf i-1 f3fc999999999999a",
    "motor|i2 i3 i5|ss f3fe0000000000000|rf fbfe0000000000000 f3fc999999999999a|inv",
    "motor|i2 i3 i5|stop|inv",
    "motor|i2 i3 i5|rf i10 f3fe0000000000000|inv|inv",
    "servo|i10 i170 i600 i2300|wu i2300|wu i1450|w i90",
    "servo|f4046800000000000 f4060e00000000000 f4081040000000000 f40a2bf0000000000|wu i1000",
    "led||sb i300|sb i-1|sb f406fe00000000000|blink i-1 i2|blink i5 i0|fi i0 i1|fo i5 i-1",
    "rgb|i9 i10 i11|fade i256 i0 i0 i100 i5|fade i1 i0 i0 i100 i2|blink i1 i2 i3 i2 i5",
    "rgb|i9 i10 i11|sc i10 i20 i30|fade i0 i255 i7 i90 i7|fade i0 i255 i7 i90 i7",
]


def run(ctx: Ctx) -> int:
    ctx.prove(["Reduino.Props.C19"])
    mods = hostrun.load_actuators()
    n = ctx.n(1200, 6000)
    lines = list(CORPUS)
    for i in range(n):
        kind = ["led", "rgb", "servo", "motor"][i % 4]
        lines.append(GENS[kind](ctx.rng))
    model = ctx.lean.drive([hostrun.model_line(l) for l in lines])
    for line, m in zip(lines, model):
        impl = hostrun.run_line(mods, line)
        ctx.cov["traces_validated_against_impl"] += 1
        nontrivial = ("raise" in m) or ("sl=i" in m) or ("sl=f" in m) or ("tr=" in m and not m.endswith("tr="))
        ctx.case(line, nontrivial, sample={"request": line, "answer": m[:300]} if nontrivial else None)
        ctx.count(line.split("|")[0])
        for part in m.split("|"):
            ctx.count("res:" + part.split(" ")[0])
        if "unsup" in m or "bad-op" in m:
            ctx.count("unsupported")
            continue
        if m != impl:
            ctx.tie_diff("tie H (host actuator model vs real classes)", line, m, impl)
        oracle(ctx, mods, line)
    ctx.cov["rule"] = ("call sequences (1-12 calls) over Led/RGBLed/Servo/DCMotor with int/float/bool arguments drawn from in-range, boundary and "
                       "out-of-range pools, from one PRNG; a case is non-trivial when some call raised, slept or produced a set_color/set_speed trace; "
                       "distinct = distinct request lines")
    return ctx.finish(TRUSTED, search=search)


def search(ctx: Ctx):
    """Failing-input search after a broken obligation/tie: more sequences, oracle only."""
    mods = hostrun.load_actuators()
    for d in ctx.tie_diffs:
        oracle(ctx, mods, d["request"])
    for i in range(ctx.n(5000, 20000)):
        if ctx.failures:
            return
        kind = ["led", "rgb", "servo", "motor"][i % 4]
        oracle(ctx, mods, GENS[kind](ctx.rng))
