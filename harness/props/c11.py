"""C11 — transpiling never runs user code, has no side effects, fails only cleanly.

Proof: lean/Reduino/Props/C11.lean over the model of `_eval_const` (non-interference, whitelist, size bound).
Ties: (i) the evaluator model vs the real `_eval_const` on generated expression trees (incl. non-whitelisted nodes);
(ii) audit tie: real parse()/emit() in a subprocess under sys.addaudithook with canaries and a time limit, on supported
scripts, scripts with a hostile expression in every argument position, arbitrary valid Python, and byte noise — outcome
class must be returns / ValueError / SyntaxError-for-non-Python, with no audit event; import lines in every spelling and place, with user modules and
packages lying next to the script (markers written when their code runs; sys.modules; audit events); the module-level state of Reduino and
Reduino.transpile.* is compared before/after by a structural description that also covers counters, iterators, function defaults and closures, class
attributes; (iii) no state carried between calls: identifier reuse across device kinds, and pooled + name-minting scripts (tuple assignments that need
temporaries) after random in-process histories against a module-reloaded reference."""
from __future__ import annotations

import ast
import importlib
import json
import os
import random
import subprocess

import common
import scripts_pool
from common import Ctx, hexs

TRUSTED = [
    "Lean 4.33 kernel; axioms ⊆ {propext, Classical.choice, Quot.sound}",
    "'no file/process/network/environment access', 'terminates promptly' and 'only ValueError/SyntaxError' are run-time facts: they rest on the audit tie "
    "(sys.addaudithook + canaries + 5 s limit in a subprocess) over the generated inputs — labelled partial",
    "'mutates its input-independent state' is observed as a change of the structural description (`describe` in the audit child) of the module-level objects of Reduino and "
    "Reduino.transpile.*: state hidden in C-level objects without repr/length hint/getstate, or in other modules, is seen only through the history oracle of (iii)",
    "the evaluator model covers int/bool/str/list values and the whole operator table + - * // % ** << >> & | ^ /, unary + - not (unary ~ and @ are unsupported nodes), and/or, "
    "comparisons, conditionals, f-strings, casts int/bool/str, len/abs/max/min; float VALUES are outside the model: `/` and `**` with a negative exponent answer 'ok float' "
    "(accepted, value not predicted) after Python's own ZeroDivisionError/OverflowError checks, and the tie compares such an outcome only when the float-producing operation "
    "is the root of the expression (under unary + - / abs); what the evaluator does with a float inside a larger expression, and the cast float(…), are exercised only by the audit tie",
]

# ----------------------------------------------------------------------------------------- (i) evaluator tie
FLOAT_LIMIT = 2 ** 1024 - 2 ** 970      # the least int that does not fit a double (rounds to 2**1024)
FORB = {"Attribute": "obj.attr", "Call": "foo(1)", "Lambda": "(lambda: 1)", "Subscript": "xs[0]", "ListComp": "[i for i in range(3)]", "Set": "{1, 2}",
        "Dict": "{1: 2}", "CallKw": "abs(x=1)", "Import": "__import__('os')", "Method": "'a'.upper()", "Getattr": "getattr(k, 'real')", "Starred": "max(*xs)", "Invert": "~5", "MatMult": "(3 @ 2)"}
STRS = ["", "a", "ab", "12", " 7 ", "x y"]


def gen_expr(rng, d, env):
    """returns (python source, s-expression)"""
    if d <= 0 or rng.random() < 0.25:
        k = rng.choice(["int", "int", "bool", "str", "name"])
        if k == "int":
            n = rng.choice([0, 1, 2, 3, 5, 7, 10, 255, 1000])
            return str(n), f"(c (i {n}))"
        if k == "bool":
            b = rng.random() < 0.5
            return str(b), f"(c (b {'T' if b else 'F'}))"
        if k == "str":
            s = rng.choice(STRS)
            return repr(s), f"(c (s {hexs(s)}))"
        x = rng.choice(list(env) + ["undefined_name"])
        return x, f"(n {x})"
    k = rng.choice(["bin", "bin", "bin", "un", "and", "or", "cmp", "if", "f", "call", "seq", "forb"])
    if k == "bin":
        op = rng.choice(["add", "sub", "mul", "floordiv", "mod", "pow", "shl", "shr", "band", "bor", "bxor", "div"])
        a, sa = gen_expr(rng, d - 1, env)
        if op in ("pow", "shl", "shr"):
            n = rng.choice([0, 1, 2, 3, 4])
            b, sb = str(n), f"(c (i {n}))"
            if op == "pow":
                a, sa = (lambda m: (str(m), f"(c (i {m}))"))(rng.choice([0, 1, 2, 3, 7, 10]))
                if rng.random() < 0.2:      # negative exponent: a float (or ZeroDivisionError for base 0)
                    n = rng.choice([1, 2, 3])
                    b, sb = f"(-{n})", f"(un neg (c (i {n})))"
        elif op in ("band", "bor", "bxor") and rng.random() < 0.6:
            a, sa = gen_bitarg(rng)
            b, sb = gen_bitarg(rng)
        else:
            b, sb = gen_expr(rng, d - 1, env)
        sym = {"add": "+", "sub": "-", "mul": "*", "floordiv": "//", "mod": "%", "pow": "**", "shl": "<<", "shr": ">>", "band": "&", "bor": "|", "bxor": "^", "div": "/"}[op]
        return f"({a} {sym} {b})", f"(bin {op} {sa} {sb})"
    if k == "un":
        op = rng.choice(["pos", "neg", "not", "pos", "neg", "not", "inv"])
        a, sa = gen_expr(rng, d - 1, env)
        if op == "inv":      # `~` is not in `_UN`: an unsupported node, whatever its operand (which is not evaluated)
            return f"(~{a})", "(forb Invert)"
        return f"({ {'pos': '+', 'neg': '-', 'not': 'not '}[op]}{a})", f"(un {op} {sa})"
    if k in ("and", "or"):
        a, sa = gen_expr(rng, d - 1, env)
        b, sb = gen_expr(rng, d - 1, env)
        return f"({a} {k} {b})", f"({k} {sa} {sb})"
    if k == "cmp":
        l, sl = gen_scalar(rng, d - 1, env)
        parts, sparts = [], []
        for _ in range(rng.randint(1, 3)):
            op = rng.choice(["eq", "ne", "lt", "le", "gt", "ge"])
            e, se = gen_scalar(rng, d - 1, env)
            parts.append(f"{ {'eq': '==', 'ne': '!=', 'lt': '<', 'le': '<=', 'gt': '>', 'ge': '>='}[op]} ({e})")
            sparts.append(f"({op} {se})")
        return f"(({l}) {' '.join(parts)})", f"(cmp {sl} {' '.join(sparts)})"
    if k == "if":
        c, sc = gen_expr(rng, d - 1, env)
        a, sa = gen_expr(rng, d - 1, env)
        b, sb = gen_expr(rng, d - 1, env)
        return f"({a} if {c} else {b})", f"(if {sc} {sa} {sb})"
    if k == "f":
        src, sx = "f\"", []
        for _ in range(rng.randint(1, 3)):
            if rng.random() < 0.5:
                lit = rng.choice(["a", "v=", " "])
                src += lit
                sx.append(f"(l {hexs(lit)})")
            else:
                e, se = gen_scalar(rng, d - 1, env)
                src += "{" + e + "}"
                sx.append(f"(e {se})")
        # adjacent literal parts are one Constant in the AST: merge them in the model request as well
        merged = []
        for p in sx:
            if merged and p.startswith("(l ") and merged[-1].startswith("(l "):
                merged[-1] = "(l x" + merged[-1][4:-1] + p[4:-1] + ")"
            else:
                merged.append(p)
        return src + "\"", "(f " + " ".join(merged) + ")"
    if k == "call":
        f = rng.choice(["len", "abs", "int", "bool", "str", "max", "min", "print"])
        if f in ("max", "min"):
            args = [(lambda m: (str(m), f"(c (i {m}))"))(rng.randint(-5, 9)) if rng.random() < 0.6 else gen_int(rng, d - 1, env) for _ in range(rng.randint(1, 3))]
        elif f == "len":
            args = [gen_expr(rng, d - 1, env) if rng.random() < 0.5 else (repr("abc"), f"(c (s {hexs('abc')}))")]
        elif f == "print":
            a, sa = gen_expr(rng, 0, env)
            return f"{f}({a})", "(forb Call)"
        else:
            args = [gen_scalar(rng, d - 1, env)]
        return f"{f}({', '.join(a for a, _ in args)})", f"(call {f} {' '.join(s for _, s in args)})"
    if k == "seq":
        t = rng.random() < 0.5
        es = [gen_scalar(rng, d - 1, env) for _ in range(rng.randint(0, 3))]
        src = ", ".join(e for e, _ in es)
        return (f"({src}{',' if len(es) == 1 else ''})" if t else f"[{src}]"), f"(seq {'T' if t else 'F'} {' '.join(s for _, s in es)})"
    kind = rng.choice(list(FORB))
    return FORB[kind], f"(forb {kind})"


def gen_bitarg(rng):
    """a number for `& | ^`: small / byte-sized / negative ints and bools"""
    r = rng.random()
    if r < 0.25:
        b = rng.random() < 0.5
        return str(b), f"(c (b {'T' if b else 'F'}))"
    n = rng.choice([0, 1, 2, 3, 5, 6, 7, 12, 85, 170, 255, 256, 1000, 65535])
    if r < 0.55:
        return f"(-{n})", f"(un neg (c (i {n})))"
    return str(n), f"(c (i {n}))"


def directed_float_cases():
    """the acceptance boundary of the float-producing operations: zero divisor / base, and the first magnitude that does not fit a double"""
    T = FLOAT_LIMIT
    ci = lambda n: (f"(-{-n})", f"(un neg (c (i {-n})))") if n < 0 else (str(n), f"(c (i {n}))")  # noqa: E731
    out = []
    for op, sym, pairs in (("div", "/", [(T, 1), (T - 1, 1), (3 * T, 3), (3 * T - 1, 3), (-3 * T, 3), (3 * T, -3), (-T + 1, -1), (1, 0), (0, 0), (0, 7), (1, T), (7, 2), (-7, 2)]),
                           ("pow", "**", [(T, -1), (T - 1, -1), (-T, -1), (2, -T), (2, -(T - 1)), (0, -1), (0, -T), (1, -1), (-2, -3)])):
        for x, y in pairs:
            (a, sa), (b, sb) = ci(x), ci(y)
            out.append((f"({a} {sym} {b})", f"(bin {op} {sa} {sb})"))
    out += [("(True / 2)", "(bin div (c (b T)) (c (i 2)))"), ("(1 / False)", "(bin div (c (i 1)) (c (b F)))"), ("('a' / 2)", f"(bin div (c (s {hexs('a')})) (c (i 2)))"),
            ("(-(7 / 2))", "(un neg (bin div (c (i 7)) (c (i 2))))"), ("abs(-7 / 2)", "(call abs (bin div (un neg (c (i 7))) (c (i 2))))"),
            ("(True & False)", "(bin band (c (b T)) (c (b F)))"), ("(True | 2)", "(bin bor (c (b T)) (c (i 2)))"), ("(True ^ True)", "(bin bxor (c (b T)) (c (b T)))"),
            ("((-5) & (-3))", "(bin band (un neg (c (i 5))) (un neg (c (i 3))))"), ("('a' & 1)", f"(bin band (c (s {hexs('a')})) (c (i 1)))"), ("(~(1 // 0))", "(forb Invert)")]
    return out


def _sx_parse(s):
    toks = s.replace("(", " ( ").replace(")", " ) ").split()
    pos = 0

    def rd():
        nonlocal pos
        t = toks[pos]
        pos += 1
        if t != "(":
            return t
        out = []
        while toks[pos] != ")":
            out.append(rd())
        pos += 1
        return out
    return rd()


def _float_op(t):
    return isinstance(t, list) and len(t) == 4 and t[0] == "bin" and (t[1] == "div" or (t[1] == "pow" and isinstance(t[3], list) and t[3][:2] == ["un", "neg"]))


def _float_free(t):
    if not isinstance(t, list):
        return True
    return not _float_op(t) and all(_float_free(x) for x in t)


def float_exact(sx):
    """is a model answer 'ok float' for this expression a prediction for the whole expression?  Yes when the float-producing operation is the root (under unary + - and
    abs, which keep a float a float) and nothing below it produces a float: the real evaluator must then return a float.  Elsewhere the float is consumed by an enclosing
    construct the model does not follow (IEEE arithmetic, truthiness and formatting of floats)."""
    t = _sx_parse(sx)
    while isinstance(t, list) and ((t[0] == "un" and t[1] in ("pos", "neg") and len(t) == 3) or (t[:2] == ["call", "abs"] and len(t) == 3)):
        t = t[2]
    return _float_op(t) and _float_free(t[2]) and _float_free(t[3])


def outcome_relation(model, impl, sx):
    """'same' | 'diff' | 'float-inner' (model left its value domain below the root: the real outcome is not predicted)"""
    if model == "ok float" and not float_exact(sx):
        return "float-inner"
    return "same" if model == impl else "diff"


def gen_scalar(rng, d, env):
    for _ in range(20):
        e, s = gen_expr(rng, d, env)
        if "(seq" not in s and "{" not in e and "(n lst)" not in s:
            return e, s
    return "1", "(c (i 1))"


def gen_int(rng, d, env):
    for _ in range(20):
        e, s = gen_expr(rng, d, env)
        if "(n " not in s and "(seq" not in s and "(c (b" not in s and "(un not" not in s and "cmp" not in s and "(c (s" not in s and "(f " not in s and "and" not in s and "or" not in s and "call bool" not in s and "call str" not in s:
            return e, s
    return "1", "(c (i 1))"


def canon(v):
    if isinstance(v, float):
        return "float"      # compared by kind only: the model does not compute with floats
    if isinstance(v, bool):
        return "bT" if v else "bF"
    if isinstance(v, int):
        return f"i{v}"
    if isinstance(v, str):
        return "s" + hexs(v)
    if isinstance(v, (list, tuple)):
        return ("(" if isinstance(v, tuple) else "[") + ",".join(canon(x) for x in v) + (")" if isinstance(v, tuple) else "]")
    return "other:" + type(v).__name__


# ----------------------------------------------------------------------------------------- (ii) audit tie
CHILD = r"""
import sys, json, os, time
events = []
ARMED = [False]
def hook(ev, args):
    if not ARMED[0]:
        return
    if ev in ("open",):
        path, mode, flags = args
        events.append((ev, str(path), str(mode)))
    elif ev in ("subprocess.Popen", "os.system", "os.exec", "os.spawn", "os.posix_spawn", "socket.connect", "socket.bind", "socket.getaddrinfo", "os.remove", "os.rename",
                "os.mkdir", "os.rmdir", "os.putenv", "os.unsetenv", "shutil.rmtree", "urllib.Request", "ctypes.dlopen", "exec", "compile", "import", "os.chdir", "os.kill"):
        a0 = args[0] if args else None
        if ev == "compile" and (a0 is None or True):
            # ast.parse compiles with PyCF_ONLY_AST: allowed; real code objects are not
            if len(args) > 1 and args[1] in ("<unknown>", "<string>"):
                return
        if ev == "import":
            # lazy imports of the interpreter's own helpers while parsing are not user code
            if str(a0) in ("unicodedata",) or str(a0).startswith(("encodings", "re.", "_", "tokenize", "token", "ast", "linecache", "traceback")):
                return
            events.append((ev, str(a0)))
            return
        events.append((ev, str(a0)[:80]))
sys.path.insert(0, sys.argv[1])
SITE = sys.argv[3] if len(sys.argv) > 3 else None
if SITE:
    sys.path.insert(1, SITE)          # the directory of the user's script: `python sketch.py` puts it on sys.path, target() then transpiles the file
    os.chdir(SITE)
from Reduino.transpile.parser import parse
from Reduino.transpile.emitter import emit
import Reduino.transpile.parser as P
import Reduino.transpile.emitter as Em
import Reduino.transpile.ast as IR
import types, re as _re, operator, functools
OURS = lambda: [m for n, m in sorted(sys.modules.items()) if n == "Reduino" or n.startswith("Reduino.transpile")]
def describe(v, depth, seen):
    # a comparable description of everything reachable from a module-level name that a later transpile could read: containers by content, functions by
    # their defaults / attributes / closure cells, classes of the transpiler by their data attributes, other objects (counters, iterators, generators of
    # names, random generators ...) by their own repr / length hint / getstate() and instance attributes
    if isinstance(v, (int, float, str, bool, bytes, complex, type(None))):
        return repr(v)
    if isinstance(v, types.ModuleType):
        return "<module " + v.__name__ + ">"
    if isinstance(v, _re.Pattern):
        return "<re %r %d>" % (v.pattern, v.flags)
    if id(v) in seen or depth > 8:
        return "<again " + type(v).__name__ + ">"
    seen = seen | {id(v)}
    d = lambda x: describe(x, depth + 1, seen)
    if isinstance(v, dict):
        return "{" + ", ".join(sorted(d(k) + ": " + d(x) for k, x in list(v.items()))) + "}"
    if isinstance(v, (list, tuple)):
        return type(v).__name__ + "(" + ", ".join(d(x) for x in v) + ")"
    if isinstance(v, (set, frozenset)):
        return type(v).__name__ + "(" + ", ".join(sorted(d(x) for x in v)) + ")"
    if isinstance(v, functools.partial):
        return "<partial " + d(v.func) + d(v.args) + d(v.keywords) + ">"
    if isinstance(v, (types.FunctionType, types.MethodType, staticmethod, classmethod, property)) or hasattr(v, "__wrapped__"):
        f = getattr(v, "__func__", None) or getattr(v, "__wrapped__", None) or getattr(v, "fget", None) or v
        if not isinstance(f, types.FunctionType) or not str(getattr(f, "__module__", "")).startswith("Reduino"):
            return "<callable " + str(getattr(f, "__qualname__", type(f).__name__)) + ">"
        cells = []
        for c in f.__closure__ or ():
            try:
                cells.append(d(c.cell_contents))
            except ValueError:
                cells.append("<empty cell>")
        return "<fn %s defaults=%s kw=%s attrs=%s cells=%s>" % (f.__qualname__, d(f.__defaults__), d(f.__kwdefaults__), d(vars(f)), cells)
    if isinstance(v, type):
        if not str(v.__module__).startswith("Reduino"):
            return "<class " + v.__module__ + "." + v.__qualname__ + ">"
        return "<class %s %s>" % (v.__qualname__, d({k: x for k, x in vars(v).items() if k not in ("__dict__", "__weakref__", "__doc__", "__module__")}))
    out = "<" + type(v).__name__
    if type(v).__repr__ is not object.__repr__:
        try:
            out += " " + repr(v)
        except Exception:
            pass
    try:
        out += " hint=%d" % operator.length_hint(v, -1)
    except Exception:
        pass
    if hasattr(v, "getstate"):
        try:
            out += " state=%d" % hash(repr(v.getstate()))
        except Exception:
            pass
    if hasattr(v, "__dict__"):
        out += " " + d(vars(v))
    for k in getattr(type(v), "__slots__", ()) or ():
        if isinstance(k, str) and hasattr(v, k):
            out += " %s=%s" % (k, d(getattr(v, k)))
    return out + ">"
def snapshot():
    snap = {}
    for m in OURS():
        for k, v in list(vars(m).items()):
            if k == "_VERIF_SKIP_LOG" or k.startswith("__"):
                continue
            snap[m.__name__ + "." + k] = describe(v, 0, frozenset())
    return snap
state0 = snapshot()
sys.addaudithook(hook)
src = open(sys.argv[2], encoding="utf-8", errors="surrogateescape").read()
env0 = dict(os.environ)
mods0 = set(sys.modules)
ARMED[0] = True
t0 = time.time()
try:
    out = emit(parse(src))
    res = {"outcome": "returns", "len": len(out)}
except ValueError as e:
    ARMED[0] = False
    res = {"outcome": "ValueError"}
except SyntaxError as e:
    ARMED[0] = False
    res = {"outcome": "SyntaxError"}
except BaseException as e:
    ARMED[0] = False
    import traceback
    tb = traceback.extract_tb(e.__traceback__)
    res = {"outcome": "crash:" + type(e).__name__, "msg": str(e)[:200], "where": tb[-1].name if tb else "?"}
ARMED[0] = False
state1 = snapshot()
res["state_changed"] = sorted(k for k in set(state0) | set(state1) if k not in state0 or k not in state1 or state0[k] != state1[k])
res["events"] = events
res["env_changed"] = dict(os.environ) != env0
# modules of the USER (anything importable from the script's directory) that were loaded while transpiling; the package itself leaves a marker when its code runs
res["user_modules_loaded"] = sorted(n for n in set(sys.modules) - mods0 if SITE and str(getattr(sys.modules[n], "__file__", "") or "").startswith(SITE))
res["user_code_ran"] = bool(SITE) and os.path.exists(os.path.join(SITE, "ran-%d" % os.getpid()))
res["secs"] = round(time.time() - t0, 3)
print(json.dumps(res))
"""

HOSTILE = ["__import__('os').system('touch {canary}')", "open('{canary}', 'w').write('x')", "exec(\"open('{canary}','w')\")", "eval(\"__import__('os').getcwd()\")",
           "(lambda: open('{canary}','w'))()", "[open('{canary}','w') for _ in range(1)][0]", "getattr(__import__('os'), 'getcwd')()", "print('side effect')",
           "__import__('subprocess').run(['true'])", "__import__('socket').socket()", "__import__('os').environ.setdefault('REDUINO_CANARY', '1')",
           "type('X', (), {{'__add__': lambda s, o: open('{canary}', 'w')}})() + 1", "globals()", "input()", "exit()", "1 if open('{canary}','w') else 2"]

POSITIONS = [
    "led = Led({h})\n", "led = Led(13)\nled.set_brightness({h})\n", "sleep({h})\n", "led = Led(13)\nled.blink({h}, times={h})\n", "x = {h}\n",
    "if {h}:\n    x = 1\n", "while {h}:\n    x = 1\n    break\n", "for i in range({h}):\n    x = i\n", "xs = [1, {h}, 3]\n", "mon = SerialMonitor(9600)\nmon.write(f\"v={{{h}}}\")\n",
    "def f(a={h}):\n    return a\n", "@{h}\ndef g():\n    return 1\n", "s = Servo({h})\ns.write({h})\n", "lcd = LCD(i2c_addr={h})\nlcd.line({h}, \"x\")\n",
    "bz = Buzzer(8)\nbz.play_tone({h}, {h})\n", "led = Led(13)\nled.flash_pattern({h})\n", "lcd = LCD(i2c_addr=39)\nlcd.glyph(0, {h})\n", "us = Ultrasonic(5, 6, sensor={h})\n",
    "pin_mode({h}, OUTPUT)\n", "x = 3\nx += {h}\n", "a, b = {h}, 2\n", "while True:\n    sleep({h})\n", "mon = SerialMonitor({h})\n", "target({h})\n",
]

VALID_PYTHON = [
    "import os\nimport sys as _s\nfrom math import *\n", "class A:\n    x = 1\n    def m(self):\n        return self.x\na = A()\nprint(a.m())\n",
    "def add(a, b):\n    return a + b\nx = add(1)\n", "def add(a, b):\n    return a + b\nx = add(1, 2, 3)\n", "def f(n):\n    return f([n])\nf(1)\n",
    "def outer():\n    def inner():\n        return 1\n    return inner()\ny = outer()\n", "x = [i for i in range(3) if i]\ny = {k: 1 for k in 'ab'}\nz = {1, 2}\n",
    "with open('/dev/null') as fh:\n    pass\n", "try:\n    x = 1 / 0\nexcept ZeroDivisionError as e:\n    x = 0\nfinally:\n    y = 2\n", "x = 1\ndel x\nassert True\nglobal_q = lambda v: v\n",
    "async def co():\n    await other()\n", "x: int = 3\ny: 'str' = 'a'\n", "a = b = c = 1\n", "a, b = (1,)\n", "a, *b = [1, 2, 3]\n", "x = yield_ = 3\n", "print(*[1, 2], sep='')\n",
    "if (n := 10) > 5:\n    pass\n", "match 3:\n    case 3:\n        x = 1\n", "x = 1 if True else 2 if False else 3\n", "x = not not 1\n", "s = 'a' 'b' \"c\"\n", "x = 0x10 + 0b11 + 0o7 + 1_000\n",
    "x = 1e999\ny = -1e999\nz = 1j\n", "x = '''multi\nline'''\n", "def g(*args, **kw):\n    return args\ng(1, k=2)\n", "x = [1, 2, 3][1:2]\n", "x = (yield)\n" if False else "x = ...\n",
    "led = Led(13)\nled.nosuch()\nled.on().off()\n", "x = 3\nx.y = 4\nx[0] = 1\n", "\n\n\n", "# only a comment\n", "while True:\n    pass\n", "pass\n", "x = [1,2\n", "def f(:\n", "\tx = 1\n  y = 2\n",
    "x = " + "+".join(["1"] * 200) + "\n", "x = " + "(" * 40 + "1" + ")" * 40 + "\n", "x = -(-(-(-1)))\n", "x = 2 ** 10 ** 2\n", "x = 1 << 64\n", "x = 'a' * 1000\n",
]

# literal-only expressions on which the transpile-time evaluator meets a Python TypeError / ZeroDivisionError / OverflowError:
# the transpiler may accept (emit the expression) or reject with ValueError, never crash with another exception
CONFUSED = ["1 << 1.0", "3 & 1.5", "-'250'", "1 < 'a'", "max(1, 'a')", "[250]", "(100, 150)", "'a' * 'b'", "1 % 'x'", "abs('x')", "len(5)", "int('x')", "1 / 0", "5 % 0",
            "2 ** 0.5 ** 'a'", "not [] + 1", "'a' + 1", "min()", "float('nan') < ''", "1 if 'a' < 1 else 2", "~1.5", "+'x'", "-[1]", "10 ** 400 * 1.0", "str(1) - 1", "bool([]) + ''"]
# values put into EVERY parameter of every constructor / method / Core helper (one at a time, the others take ordinary values)
ARG_HOSTILE = ["1e999", "-1e999", "1e308 * 10", "1e999 - 1e999", "float('inf')", "float('nan')", "[1e999]", "[1, float('inf')]", "max(1e999, 1)", "int(1e999)", "1e999 > 3",
               "[0.0, 1, 2, 3, 4, 5, 6, 7]", "[8 / 2, 1, 1, 1, 1, 1, 1, 1]", "[1.5]", "8 / 2",
               "'x'", "[1]", "None", "-1", "10 ** 30", "-(10 ** 30)", "1 / 0", "True", "2.5", "-2.5", "()", "{}", "0", "''", "(1, 2)", "[[1]]", "['a']", "0.0001", "2 ** 0.5",
               "'a' * 3", "not 1", "1 < 2 < 3", "f'{1}'", "[True, 2.0]", "7 // 2.0", "1e3", "0x1F", "-0.0"]
# ---- import lines.  The front end drops them; resolving, checking or following one on the host is executing user code: a package `__init__` runs as soon as a
# submodule of it is looked up (importlib.util.find_spec("pkg.sub") imports `pkg`).  The user's modules live next to the script (USER_SITE is put on sys.path like the
# script's directory is by `python sketch.py`); each of them leaves a marker file when its code runs.  Standard-library packages that the child has not loaded stand for
# "importable but not the user's": loading them shows as `import` audit events.
USER_MODULES = {"solo.py": "", "fieldkit/__init__.py": "from . import pins\n", "fieldkit/pins.py": "", "fieldkit/sub/__init__.py": "", "fieldkit/sub/deep.py": "",
                "boards/__init__.py": "", "boards/uno/__init__.py": "", "boards/uno/pinout.py": ""}
MARKER = ("import os as _os\nopen(_os.path.join({site!r}, 'ran-%d' % _os.getpid()), 'w').write(__name__)\nSTATUS_PIN = 13\nLEVEL = 3\n"
          "def setup_board():\n    return 13\n")
IMPORT_TARGETS = ["solo", "fieldkit", "fieldkit.pins", "fieldkit.sub", "fieldkit.sub.deep", "boards.uno", "boards.uno.pinout", "boards.nosuch", "nosuch_pkg.sub",
                  "xml.dom.minidom", "wsgiref.util", "email.mime.text", "Reduino.Actuators.Led", "Reduino.transpile.parser", "Reduino.Utils"]
IMPORT_FORMS = ["import {m}", "import {m} as kit", "import os, {m}", "from {m} import STATUS_PIN", "from {m} import STATUS_PIN as pin, LEVEL", "from {m} import *",
                "from {m} import (STATUS_PIN, LEVEL)", "import {m}  # board support", "from {m} import setup_board  # noqa", "import  {m}", "from  {m}  import  LEVEL",
                "import {m};", "from {m} import STATUS_PIN; x = 1", "kit = __import__(\"{m}\")", "import importlib\nkit = importlib.import_module(\"{m}\")"]
IMPORT_PLACES = ["{i}\nled = Led(13)\nled.on()\n", "led = Led(13)\n{i}\nwhile True:\n    led.toggle()\n", "led = Led(13)\nwhile True:\n    {i}\n    led.toggle()\n",
                 "def helper():\n    {i}\n    return 1\nled = Led(13)\n", "led = Led(13)\nx = 1\nif x > 0:\n    {i}\n    led.on()\n",
                 "try:\n    {i}\nexcept ImportError:\n    x = 0\nled = Led(13)\n", "{i}\nled = Led(STATUS_PIN)\nwhile True:\n    led.toggle()\n    sleep(LEVEL)\n",
                 "for k in range(2):\n    {i}\nled = Led(13)\n"]


def make_user_site(site):
    for rel, extra in USER_MODULES.items():
        f = site / rel
        f.parent.mkdir(parents=True, exist_ok=True)
        f.write_text(MARKER.format(site=str(site)) + extra)


def import_inputs(rng, full):
    combos = [(m, f, p) for m in IMPORT_TARGETS for f in IMPORT_FORMS for p in IMPORT_PLACES]
    if not full:
        # every (target, form) pair at one random place, plus every (target, place) pair with one random form
        combos = [(m, f, rng.choice(IMPORT_PLACES)) for m in IMPORT_TARGETS for f in IMPORT_FORMS if rng.random() < 0.5] + \
                 [(m, rng.choice(IMPORT_FORMS), p) for m in IMPORT_TARGETS for p in IMPORT_PLACES if rng.random() < 0.35]
    out = []
    for m, f, p in combos:
        line = f.format(m=m)
        ind = " " * (len(p[:p.index("{i}")]) - len(p[:p.index("{i}")].rstrip(" ")))
        out.append(scripts_pool.HEADER + p.replace("{i}", line.replace("\n", "\n" + ind)))
    return out


def minting_scripts(rng, n):
    """scripts whose translation invents names (temporaries of tuple assignments to declared names) at top level, in the main loop, in for/if bodies (sibling
    branches), in a helper function, several times per script: the numbering of invented names is the classic piece of state that survives a call"""
    out = {}
    for i in range(n):
        names = rng.sample(["a", "b", "c", "lo", "hi", "prev", "cur"], rng.choice([2, 2, 3]))
        decl = "mon = SerialMonitor(9600)\n" + "".join(f"{v} = {j + 1}\n" for j, v in enumerate(names))
        rot = names[1:] + names[:1]

        def stmt():
            return ", ".join(names) + " = " + ", ".join(rng.choice([r, f"{r} + {names[0]}", f"{r} * 2"]) for r in rot)
        w = f"mon.write({names[0]})\n"
        place = ["top", "loop", "for", "def", "if", "twice"][i % 6]
        body = {"top": decl + stmt() + "\n" + w,
                "loop": decl + "while True:\n    " + stmt() + "\n    " + w,
                "for": decl + "for i in range(3):\n    " + stmt() + "\n" + w,
                "def": "mon = SerialMonitor(9600)\ndef step(" + ", ".join(names) + "):\n    " + stmt() + f"\n    return {names[0]}\nmon.write(step(" + ", ".join(str(j) for j in range(len(names))) + "))\n",
                "if": decl + f"if {names[0]} < {names[1]}:\n    " + stmt() + "\nelse:\n    " + stmt() + "\n" + w,
                "twice": decl + stmt() + "\n" + stmt() + "\nwhile True:\n    " + stmt() + "\n    " + stmt() + "\n    " + w}[place]
        out[f"minting-{place}-{i}"] = scripts_pool.HEADER + body
    return out


KNOWN_SLOW = [("x = 9**9**9\n", "eval:pow-bomb"), ("x = 1 << (10**9)\n", "eval:shift-bomb"), ("x = " + "+".join(["1"] * 3000) + "\n", "eval:deep-recursion")]


def run(ctx: Ctx) -> int:
    ctx.prove(["Reduino.Props.C11", "Reduino.GenOb.Eval"])
    common.fresh_import()
    P = importlib.import_module("Reduino.transpile.parser")
    rng = ctx.rng
    # ---- (i)
    env_py = {"k": 4, "flag": True, "name": "dev", "lst": [1, 2], "unk": P._ExprStr("unk")}
    env_model = "k=(i 4),flag=(b T),name=(s " + hexs("dev") + "),lst=(l F (i 1) (i 2)),unk=?"
    cases = [gen_expr(rng, rng.choice([1, 2, 3]), ["k", "flag", "name", "lst", "unk"]) for _ in range(ctx.n(1500, 20000))] + directed_float_cases()
    model = ctx.lean.drive([f"ec|{env_model}|{sx}" for _, sx in cases])
    for (src, sx), m in zip(cases, model):
        try:
            ast.parse(src, mode="eval")
        except SyntaxError:
            continue
        try:
            v = P._eval_const(src, dict(env_py))
            impl = "ok " + canon(v)
        except ValueError:
            impl = "err value"
        except RecursionError:
            impl = "err recursion"
        except Exception:  # noqa: BLE001
            impl = "err py"
        ctx.cov["traces_validated_against_impl"] += 1
        ctx.case(sx, nontrivial=impl.startswith("ok"), sample={"expr": src, "model": m} if len(ctx.cov["samples"]) < 3 and "forb" in sx and impl.startswith("ok") else None)
        ctx.count("eval:" + impl.split(" ")[0] + (":forbidden-present" if "forb" in sx else ""))
        rel = outcome_relation(m, impl, sx)
        if m == "ok float":
            ctx.count("eval:model-float:" + ("root" if rel != "float-inner" else "inner"))
        if rel == "diff" and "other:" not in impl:
            ctx.tie_diff("tie evalConst (Lang.EC.eval vs _eval_const)", {"expr": src, "sexpr": sx}, m, impl)
    # ---- (ii) audit
    inputs = []
    canary = ctx.work / "canary"
    for name, src in scripts_pool.all_scripts().items():
        inputs.append(("supported:" + name, src, None))
    for h in HOSTILE:
        hh = h.format(canary=str(canary))
        for pos in (POSITIONS if ctx.tier == "thorough" or ctx.broken else rng.sample(POSITIONS, 8)):
            inputs.append(("hostile", scripts_pool.HEADER + pos.replace("{h}", hh), None))
    for h in CONFUSED:
        for pos in POSITIONS:
            inputs.append(("confused-literal", scripts_pool.HEADER + pos.replace("{h}", h), None))
            for wrap in ("while True:\n", "if True:\n", "def fn():\n", "for i in range(2):\n"):
                if rng.random() < (1.0 if ctx.tier == "thorough" else 0.15):
                    inputs.append(("confused-literal", scripts_pool.HEADER + wrap + "".join("    " + l + "\n" for l in pos.replace("{h}", h).splitlines()), None))
    import bindprobe
    for cls, meth, params in bindprobe.callables():
        for p_ in params:
            hs = ARG_HOSTILE if ctx.tier == "thorough" or ctx.broken else ARG_HOSTILE[:15] + rng.sample(ARG_HOSTILE[15:], 6)
            for h in hs:
                vals = {q[0]: bindprobe.values_for(cls, meth, q[0])[0] for q in params}
                vals[p_[0]] = h
                shape = (tuple(q[0] for q in params), len([q for q in params if q[1] == "pos"]), tuple(q[0] for q in params if q[1] != "pos"))
                src = bindprobe.call_text(cls, meth, params, shape, vals)
                inputs.append(("argument", src, None))
                if rng.random() < (1.0 if ctx.tier == "thorough" else 0.2):
                    ls = src.splitlines()
                    inputs.append(("argument", "\n".join(ls[:-1]) + "\nwhile True:\n    " + ls[-1] + "\n", None))
    for nm in ("len", "abs", "max", "min", "int", "float", "bool", "str", "range", "sleep", "print", "HIGH", "OUTPUT"):
        inputs.append(("shadowing", scripts_pool.HEADER + f"def {nm}(a, b):\n    return a + b\nx = {nm}(1, 2)\nsleep(max(100, 250))\n", None))
        inputs.append(("shadowing", scripts_pool.HEADER + f"{nm} = 5\ny = {nm} + 1\nsleep(abs(-20))\n", None))
    longport = "/dev/serial/by-id/usb-Arduino__www.arduino.cc__0043_85735313932351E0B1C2-if00"
    for tail in ("", "  # the usual port", " ", ")", " extra", "\n", ", upload=False", ")  # x", "'"):
        for q in ('"', "'"):
            inputs.append(("target-line", f"from Reduino import target\ntarget({q}{longport}{q}){tail}\nfrom Reduino.Actuators import Led\nled = Led(13)\n", None))
            inputs.append(("target-line", f"from Reduino import target\ntarget({q}{longport}{q}{tail}\nled = 1\n", None))
            inputs.append(("target-line", f"from Reduino import target\nport = target({q}{longport} {longport}{q}){tail}\n", None))
    # ---- pumped near-misses of the line shapes the front end recognises by regular expression: an opener it knows, a long run of a repeated
    # separator-bearing unit, and no closing bracket — bare (not Python), inside a string literal and inside a trailing comment (both valid Python).
    # Every line of a script is tried against the directive and statement patterns, so a pattern with nested repetition shows up as a timeout.
    openers = ["target(", "target(COM3", "target('COM3'", "led = Led(", "led.blink(", "led.flash_pattern([", "rgb.fade(", "lcd.message(", "bz.sweep(", "arm = Servo(",
               "for i in range(", "mon.write(", "sleep(", "x = max(", "def f(", "if (", "while (", "mon.write(f\"{", "x = [", "btn = Button(7, on_click=", "lcd.glyph(0, ["]
    pumps = [", 1", " , a=1", "  ", "((", ", 'a'", ", [1", " x", ",", "\\\"", "{1}", "1 + ", ", COM3"]
    decl = ("led = Led(13)\nrgb = RGBLed(9, 10, 11)\nlcd = LCD(rs=12, en=11, d4=5, d5=4, d6=3, d7=2)\nbz = Buzzer(8)\nmon = SerialMonitor(9600)\n")
    combos = [(o, u) for o in openers for u in pumps]
    if not (ctx.tier == "thorough" or ctx.broken):
        combos = [c for c in combos if c[0].startswith("target(")] + rng.sample(combos, 40)
    for o, u in combos:
        body = o + u * 28
        inputs.append(("pumped", scripts_pool.HEADER + decl + body + "\n", None))
        if '"' not in body:
            inputs.append(("pumped", scripts_pool.HEADER + decl + 'usage = "' + body + '"\nmon.write(usage)\n', None))
        inputs.append(("pumped", scripts_pool.HEADER + decl + "led.on()  # " + body + "\nwhile True:\n    led.toggle()  # " + body + "\n", None))
    inputs.append(("python", scripts_pool.HEADER + "mon = SerialMonitor(9600)\nc = 1\nif c > 0:\n    al\u00e9 = 1\nmon.write(c)\n", None))
    inputs.append(("python", scripts_pool.HEADER + "mon = SerialMonitor(9600)\nwhile True:\n    mon.write(digital_read(7)\n              + analog_read(\"A1\"))\n", None))
    inputs.append(("python", scripts_pool.HEADER + "mon = SerialMonitor(9600)\nmon.write(value=3)\n", None))      # K11g
    for v in VALID_PYTHON:
        inputs.append(("python", scripts_pool.HEADER + v, None))
    for p in sorted((common.SRC / "Reduino").rglob("*.py"))[:12]:
        inputs.append(("python:repo-source", p.read_text(), None))
    for i in range(ctx.n(30, 300)):
        n = rng.randint(1, 200)
        inputs.append(("noise", bytes(rng.randrange(256) for _ in range(n)).decode("utf-8", "surrogateescape"), None))
        base = rng.choice(list(scripts_pool.all_scripts().values()))
        cut = rng.randrange(len(base))
        inputs.append(("mutated", base[:cut] + rng.choice(["(", ")", "\"", "\n\t", ":", "=", "\\", "\x00", "é", "  "]) + base[cut + rng.randint(0, 3):], None))
    for src, key in KNOWN_SLOW:
        inputs.append(("bomb", scripts_pool.HEADER + src, key))
    site = ctx.work / "usersite"
    make_user_site(site)
    for src in import_inputs(random.Random(f"{ctx.seed}:C11:imports"), ctx.tier == "thorough" or bool(ctx.broken)):      # own stream: appended after all older inputs
        inputs.append(("import", src, None))
    child = ctx.work / "audit_child.py"
    child.write_text(CHILD)
    procs = []
    for i, (kind, src, key) in enumerate(inputs):
        f = ctx.work / f"in{i}.txt"
        f.write_text(src, encoding="utf-8", errors="surrogateescape")
        procs.append((kind, src, key, f))
    from concurrent.futures import ThreadPoolExecutor

    def one(item):
        kind, src, key, f = item
        try:
            p = subprocess.run([common.PY, str(child), str(common.SRC), str(f)] + ([str(site)] if kind == "import" else []), capture_output=True, text=True, timeout=5 if kind != "bomb" else 3,
                               env={k: v for k, v in os.environ.items() if k != "REDUINO_CANARY"})
            if p.returncode != 0 or not p.stdout.strip():
                return {"outcome": "crash:process", "msg": p.stderr[-300:], "events": []}
            return json.loads(p.stdout.strip().splitlines()[-1])
        except subprocess.TimeoutExpired:
            return {"outcome": "timeout", "events": []}
    with ThreadPoolExecutor(max_workers=16) as ex:
        outs = list(ex.map(one, procs))
    for (kind, src, key, f), r in zip(procs, outs):
        ctx.cov["traces_validated_against_impl"] += 1
        ctx.case(f"{kind}:{hash(src)}", nontrivial=kind != "noise")
        ctx.count(f"audit:{kind}:{r['outcome'].split(':')[0]}")
        replay = {"kind": kind, "source": src[:600], "result": {k: v for k, v in r.items() if k != "events"}, "events": r.get("events", [])[:5]}
        # ast.parse/compile of the source text reports an `open` of the pseudo file name; real paths never start with "<"
        bad_events = [e for e in r.get("events", []) if not (e[0] == "open" and str(e[1]).startswith("<"))]
        if canary.exists():
            ctx.fail("exec:canary", "user code ran during transpilation (canary file created)", replay)
            canary.unlink()
        if r.get("user_code_ran") or r.get("user_modules_loaded"):
            ctx.fail("exec:user-module-imported", f"transpiling executed a module of the user on the host: loaded {r.get('user_modules_loaded')}, marker written by its code: {r.get('user_code_ran')}", replay)
        if bad_events or r.get("env_changed"):
            ctx.fail("exec:side-effect", f"audit events during transpilation: {bad_events[:3]} env_changed={r.get('env_changed')}", replay)
        if r.get("state_changed"):
            ctx.fail("state:module-level-mutated", f"transpiling this input changed module-level state that later transpiles read: {r['state_changed'][:4]}", replay)
        o = r["outcome"]
        if o == "timeout":
            ctx.fail(key or "eval:timeout", "transpilation did not terminate within the limit", replay)
        elif o.startswith("crash"):
            exc = o.split(":")[1]
            if key:
                ctx.fail(key, f"internal error {exc}", replay)
            else:
                ctx.fail(f"clean-failure:{exc}@{r.get('where', '?')}", f"transpiler raised {exc} in {r.get('where')} ({r.get('msg', '')[:100]}) instead of ValueError/SyntaxError", replay)
        elif o == "SyntaxError":
            try:
                ast.parse(src)
                is_python = True
            except (SyntaxError, ValueError):
                is_python = False
            if is_python:
                nonascii = any(ord(ch) > 127 for ch in src)
                spans = False
                try:
                    import io
                    import tokenize
                    spans = any(t.type == tokenize.NL and t.line.strip() and not t.line.strip().startswith("#") and not t.line.split("#")[0].strip() == ""
                                for t in tokenize.generate_tokens(io.StringIO(src).readline)) or "\\\n" in src
                except Exception:  # noqa: BLE001
                    pass
                kwcall = False      # a keyword argument to `sleep(...)` / `<monitor>.write(...)`: the argument TEXT `value=3` is handed to ast.parse(mode="eval")
                try:
                    kwcall = any(isinstance(nd, ast.Call) and nd.keywords and ((isinstance(nd.func, ast.Name) and nd.func.id == "sleep") or (isinstance(nd.func, ast.Attribute) and nd.func.attr == "write"))
                                 for nd in ast.walk(ast.parse(src)))
                except Exception:  # noqa: BLE001
                    pass
                suffix = ":non-ascii-source" if nonascii else (":statement-spans-lines" if spans else (":keyword-argument-to-write-or-sleep" if kwcall else ""))
                ctx.fail("clean-failure:SyntaxError-for-valid-python" + suffix, "SyntaxError raised for text that IS Python", replay)
        elif o == "returns" and kind in ("noise", "mutated", "python"):
            try:
                ast.parse(src)
            except (SyntaxError, ValueError):
                ctx.fail("clean-failure:non-python-accepted", "text that is not Python was accepted without SyntaxError", replay)
    # ---- (iii) no state between calls: identifier reuse across device kinds
    parse = P.parse
    emit = importlib.import_module("Reduino.transpile.emitter").emit
    decls = {"Led": "x = Led(13)", "Servo": "x = Servo(9)", "Potentiometer": "x = Potentiometer(\"A0\")", "SerialMonitor": "x = SerialMonitor(9600)", "Ultrasonic": "x = Ultrasonic(5, 6)",
             "Button": "x = Button(7)", "Buzzer": "x = Buzzer(8)", "DCMotor": "x = DCMotor(2, 3, 4)", "LCD": "x = LCD(i2c_addr=39)", "RGBLed": "x = RGBLed(9, 10, 11)", "int": "x = 5", "list": "x = [1, 2]"}
    uses = ["y = x.read()", "x.write(1)", "x.on()", "x.off()", "x.stop()", "y = x.measure_distance()", "y = x.is_pressed()", "x.toggle()", "y = len(x)", "x.clear()"]

    def out(src):
        try:
            return emit(parse(src))
        except Exception as e:  # noqa: BLE001
            return "raise:" + type(e).__name__
    fresh = {}
    pairs = [(a, b, u) for a in decls for b in decls for u in uses if a != b]
    if ctx.tier != "thorough":
        pairs = rng.sample(pairs, 300)
    CH = "import sys, json\nsys.path.insert(0, sys.argv[1])\nfrom Reduino.transpile.parser import parse\nfrom Reduino.transpile.emitter import emit\nres = {}\n" \
         "for k, s in json.load(open(sys.argv[2])).items():\n    try:\n        res[k] = emit(parse(s))\n    except Exception as e:\n        res[k] = 'raise:' + type(e).__name__\n    break\nprint(json.dumps(res))\n"
    seconds = sorted({scripts_pool.HEADER + decls[b] + "\n" + u + "\n" for _, b, u in pairs})
    hist = dict(scripts_pool.all_scripts())
    hist.update(minting_scripts(random.Random(f"{ctx.seed}:C11:minting"), ctx.n(12, 60)))
    seconds += sorted(set(hist.values()) - set(seconds))
    # fresh-process reference for every second script (one process each is too slow: a fresh interpreter per 40 scripts, first only … so instead
    # reference = output in THIS process before any first script of a different kind was parsed is not available either) -> use subprocess batches of 1
    ref = {}
    ch = ctx.work / "fresh_child.py"
    ch.write_text("import sys, json\nsys.path.insert(0, sys.argv[1])\nfrom Reduino.transpile.parser import parse\nfrom Reduino.transpile.emitter import emit\nimport importlib\n"
                  "res = {}\nfor s in json.load(open(sys.argv[2])):\n    for m in [m for m in sys.modules if m.startswith('Reduino.transpile')]:\n        importlib.reload(sys.modules[m])\n"
                  "    from Reduino.transpile.parser import parse\n    from Reduino.transpile.emitter import emit\n    try:\n        res[s] = emit(parse(s))\n    except Exception as e:\n        res[s] = 'raise:' + type(e).__name__\nprint(json.dumps(res))\n")
    sf = ctx.work / "seconds.json"
    sf.write_text(json.dumps(seconds))
    p = subprocess.run([common.PY, str(ch), str(common.SRC), str(sf)], capture_output=True, text=True, timeout=300)
    if p.returncode != 0:
        raise common.ToolFailure("fresh child failed: " + p.stderr[-400:])
    ref = json.loads(p.stdout.strip().splitlines()[-1])
    for a, b, u in pairs:
        first = scripts_pool.HEADER + decls[a] + "\n" + u + "\n"
        second = scripts_pool.HEADER + decls[b] + "\n" + u + "\n"
        out(first)
        got = out(second)
        ctx.case(f"state:{a}:{b}:{u}", nontrivial=True)
        if got != ref[second]:
            ctx.fail("state:leaks-between-calls", f"transpiling a script that binds `x` to {a} changes the result for a later script that binds `x` to {b}",
                     {"first": first, "second": second})
            break
    # the firmware for a text does not depend on what the process transpiled before: pooled feature scripts and name-minting scripts, each after random histories
    # of the others and of itself, against the module-reloaded reference
    hrng = random.Random(f"{ctx.seed}:C11:history")
    leaked = False
    for rnd in range(ctx.n(2, 10)):
        order = sorted(hist)
        hrng.shuffle(order)
        order += order[: len(order) // 2]
        for j, nm in enumerate(order):
            got = out(hist[nm])
            ctx.case(f"history:{rnd}:{j}:{nm}", nontrivial=not got.startswith("raise"))
            ctx.count("history:" + ("rejected" if got.startswith("raise") else "returns"))
            if got != ref[hist[nm]] and not leaked:
                leaked = True
                ctx.fail("state:leaks-between-calls", f"the firmware generated for script {nm!r} depends on the scripts transpiled earlier in the same process",
                         {"script": hist[nm], "transpiled_before": [hist[x] for x in order[max(0, j - 4):j]], "fresh_output": ref[hist[nm]], "output_after_history": got})
    ctx.cov["rule"] = ("(i) random expression trees (depth <= 3) over the whitelisted and 12 non-whitelisted node kinds; (ii) feature scripts, 16 hostile expressions x argument "
                       "positions, ~45 valid-Python torture snippets, the repo's own sources, byte noise and single-character mutations, each in a fresh audited subprocess; "
                       "(iii) identifier reuse across device kinds in one process vs module-reloaded reference; pooled feature scripts and generated name-minting scripts (tuple assignments "
                       "needing temporaries at top level / main loop / for / if-else / helper function) after random in-process histories vs module-reloaded reference; "
                       "(ii) also: import lines (15 spellings incl. __import__/importlib x 8 places x user modules and packages lying next to the script, absent ones, unloaded stdlib "
                       "packages, Reduino's own) with the user's directory on sys.path — markers written by the user's modules, sys.modules and audit events; module state compared "
                       "by a structural description of every module-level object of Reduino and Reduino.transpile.* (containers, function defaults/attributes/closures, class data, "
                       "counters/iterators/generators by repr, length hint, getstate)")
    return ctx.finish(TRUSTED, search=None)
