"""C12 — target(): validate first, transpile faithfully, upload only on request.

Proof: lean/Reduino/Props/C12.lean over the effect model Toolchain.target (all 160 scenarios, by kernel decide).
Tie Fx: the real Reduino.target() with subprocess.run / tempfile.mkdtemp / Path.{read_text,mkdir,write_text} / __main__
instrumented and a fault injector, over the WHOLE scenario space x several scripts (exhaustive)."""
from __future__ import annotations

import configparser
import importlib
import io
import pathlib
import shutil
import subprocess
import sys
import types

import common
from common import Ctx

TRUSTED = [
    "Lean 4.33 kernel; axioms ⊆ {propext}",
    "the effect alphabet and fault points of Toolchain/Target.lean (tied exhaustively to the real target() by harness/props/c12.py)",
    "the instrumentation of subprocess.run, tempfile.mkdtemp and pathlib.Path methods stands in for the OS and PlatformIO",
]

SCRIPTS = {
    "plain": "from Reduino import target\nfrom Reduino.Actuators import Led\ntarget('COM3')\nled = Led(13)\nwhile True:\n    led.toggle()\n",
    "servo": "from Reduino import target\nfrom Reduino.Actuators import Servo\ntarget('COM3')\ns = Servo(9)\nwhile True:\n    s.write(90)\n",
    "lcd_par": "from Reduino import target\nfrom Reduino.Displays import LCD\ntarget('COM3')\nlcd = LCD(rs=12, en=11, d4=5, d5=4, d6=3, d7=2)\nlcd.line(0, 'hi')\n",
    "lcd_i2c": "from Reduino import target\nfrom Reduino.Displays import LCD\ntarget('COM3')\nlcd = LCD(i2c_addr=0x27)\nlcd.line(0, 'hi')\n",
    "all": ("from Reduino import target\nfrom Reduino.Actuators import Servo\nfrom Reduino.Displays import LCD\ntarget('COM3')\n"
            "a = LCD(rs=12, en=11, d4=5, d5=4, d6=3, d7=2)\nb = LCD(i2c_addr=0x27, cols=20, rows=4)\ns = Servo(9)\ns2 = Servo(10)\nwhile True:\n    s.write(10)\n"),
    # library-backed devices declared at the top of the `while True:` body (they live in Program.loop_body), alone and next to one declared before it
    "servo_loop": "from Reduino import target\nfrom Reduino.Actuators import Servo\ntarget('COM3')\nwhile True:\n    arm = Servo(9)\n    arm.write(90)\n",
    "lcd_then_servo_loop": ("from Reduino import target\nfrom Reduino.Actuators import Servo\nfrom Reduino.Displays import LCD\ntarget('COM3')\n"
                            "lcd = LCD(rs=12, en=11, d4=5, d5=4, d6=3, d7=2)\nwhile True:\n    arm = Servo(9)\n    arm.write(45)\n"),
    "i2c_loop": "from Reduino import target\nfrom Reduino.Displays import LCD\ntarget('COM3')\nwhile True:\n    panel = LCD(i2c_addr=0x27)\n    panel.line(0, 'hi')\n",
}
NEEDS = {"plain": [], "servo": ["Servo"], "lcd_par": ["LiquidCrystal"], "lcd_i2c": ["LiquidCrystal_I2C"], "all": ["Servo", "LiquidCrystal", "LiquidCrystal_I2C"],
         "servo_loop": ["Servo"], "lcd_then_servo_loop": ["Servo", "LiquidCrystal"], "i2c_loop": ["LiquidCrystal_I2C"]}
FAULTS = ["none", "read", "parse", "emit", "mkdtemp", "mkdir", "write-main", "write-ini", "build", "upload", "build-killed", "upload-killed"]
# `*-killed`: the PlatformIO process dies from a signal (negative return code) instead of exiting with a positive status; the same fault for the model


def base_fault(f):
    return f[:-7] if f.endswith("-killed") else f


class Boom(Exception):
    pass


def run_real(R, pio, work: pathlib.Path, script: str, pair_valid: bool, upload: bool, pio_present: bool, fault: str):
    """returns (effects, outcome, details)"""
    effects = []
    proj = work / "tgt"
    shutil.rmtree(proj, ignore_errors=True)
    proj.mkdir(parents=True)
    main = proj / "script.py"
    main.write_text(SCRIPTS[script], encoding="utf-8")
    mod = types.ModuleType("__main__")
    mod.__file__ = str(main if fault != "read" else proj / "missing.py")
    saved_main = sys.modules["__main__"]
    tmpdirs = []

    def fake_run(argv, **kw):
        argv = list(argv)
        name = {("pio", "--version"): "pio--version", ("pio", "run"): "pio-run", ("pio", "run", "-t", "upload"): "pio-run-upload"}.get(tuple(argv), "run:" + " ".join(argv))
        if name != "pio--version" and (kw.get("cwd") is None or pathlib.Path(kw["cwd"]) not in tmpdirs):
            name += "@wrong-cwd"
        effects.append(name)
        if not pio_present:
            raise FileNotFoundError("pio")
        if (base_fault(fault) == "build" and name == "pio-run") or (base_fault(fault) == "upload" and name == "pio-run-upload"):
            code = -9 if fault.endswith("-killed") else 1
            if kw.get("check"):
                raise subprocess.CalledProcessError(code, argv)
            return subprocess.CompletedProcess(argv, code)
        return subprocess.CompletedProcess(argv, 0)

    def fake_mkdtemp(*a, **k):
        effects.append("mkdtemp")
        if fault == "mkdtemp":
            raise Boom("mkdtemp")
        d = proj / f"tmp{len(tmpdirs)}"
        d.mkdir()
        tmpdirs.append(d)
        return str(d)

    P = pathlib.Path
    orig = (P.read_text, P.mkdir, P.write_text)

    def read_text(self, *a, **k):
        if self.suffix == ".py":
            effects.append("read-main")
        return orig[0](self, *a, **k)

    def mkdir(self, *a, **k):
        if tmpdirs and str(self).startswith(str(proj)) and self.name == "src":
            effects.append("mkdir-src")
            if fault == "mkdir":
                raise Boom("mkdir")
        return orig[1](self, *a, **k)

    def write_text(self, data, *a, **k):
        nm = {"main.cpp": "write-main", "platformio.ini": "write-ini"}.get(self.name, "write:" + str(self))
        if tmpdirs and not str(self).startswith(str(tmpdirs[-1])):
            nm += "@outside"
        effects.append(nm)
        if fault == nm:
            raise Boom(nm)
        return orig[2](self, data, *a, **k)

    real_parse, real_emit = R.parse, R.emit

    def parse(src):
        if fault == "parse":
            raise Boom("parse")
        return real_parse(src)

    def emit(prog):
        if fault == "emit":
            raise Boom("emit")
        return real_emit(prog)

    err = io.StringIO()
    saved = (pio.subprocess.run, R.tempfile.mkdtemp, sys.stderr)
    details = {}
    try:
        sys.modules["__main__"] = mod
        pio.subprocess.run = fake_run
        R.tempfile.mkdtemp = fake_mkdtemp
        P.read_text, P.mkdir, P.write_text = read_text, mkdir, write_text
        R.parse, R.emit = parse, emit
        sys.stderr = err
        # valid pairs incl. board ids with characters the environment-name sanitiser rewrites
        VALID = [("atmelavr", "uno"), ("atmelavr", "digispark-tiny"), ("atmelavr", "a-star32U4"), ("atmelmegaavr", "nano_every"), ("atmelavr", "lightblue-bean")]
        plat, board = VALID[sum(map(ord, script + str(upload) + str(fault))) % len(VALID)] if pair_valid else ("atmelavr", "nano_every")
        details["pair"] = (plat, board)
        try:
            ret = R.target("COM7", upload=upload, platform=plat, board=board)
            outcome = "returns-cpp"
            details["ret"] = ret
        except ValueError:
            outcome = "ValueError"
        except RuntimeError:
            outcome = "RuntimeError"
        except Boom as e:
            outcome = "propagated:" + str(e)
        except subprocess.CalledProcessError as e:
            outcome = "propagated:" + ("upload" if "upload" in e.cmd else "build")
        except FileNotFoundError:
            outcome = "propagated:read"
    finally:
        sys.stderr = saved[2]
        sys.modules["__main__"] = saved_main
        pio.subprocess.run = saved[0]
        R.tempfile.mkdtemp = saved[1]
        P.read_text, P.mkdir, P.write_text = orig
        R.parse, R.emit = real_parse, real_emit
    if "Servo support requires" in err.getvalue():
        # position of the note relative to other effects is not observable through this patch set; the model places it after parse
        i = effects.index("read-main") + 1 if "read-main" in effects else len(effects)
        effects.insert(i, "stderr-servo")
    details["tmp"] = tmpdirs[-1] if tmpdirs else None
    return effects, outcome, details


def run(ctx: Ctx) -> int:
    ctx.prove(["Reduino.Props.C12"])
    common.fresh_import()
    R = importlib.import_module("Reduino")
    pio = importlib.import_module("Reduino.toolchain.pio")
    tr_parse = importlib.import_module("Reduino.transpile.parser").parse
    tr_emit = importlib.import_module("Reduino.transpile.emitter").emit
    cases = [(s, pv, up, pp, f) for s in SCRIPTS for pv in (True, False) for up in (True, False) for pp in (True, False) for f in FAULTS]
    T = lambda b: "T" if b else "F"
    lines = [f"target|{T(pv)}|{T(up)}|{T(pp)}|{T('Servo' in NEEDS[s])}|{base_fault(f)}" for (s, pv, up, pp, f) in cases]
    model = ctx.lean.drive(lines)
    for (s, pv, up, pp, f0), line, m in zip(cases, lines, model):
        eff, outcome, det = run_real(R, pio, ctx.work, s, pv, up, pp, f0)
        f = base_fault(f0)
        impl = f"effects={','.join(eff)} outcome={outcome}"
        replay = {"script": s, "source": SCRIPTS[s], "pair_valid": pv, "upload": up, "pio_present": pp, "fault": f0, "effects": eff, "outcome": outcome}
        ctx.cov["traces_validated_against_impl"] += 1
        ctx.case(line + "|" + s + "|" + f0, nontrivial=pv, sample={"scenario": replay} if len(ctx.cov["samples"]) < 3 and pv and f != "none" else None)
        ctx.count("outcome:" + outcome.split(":")[0])
        if impl != m:
            ctx.tie_diff("tie Fx (Toolchain.target vs Reduino.target)", replay, m, impl)
        # ---- the property on the real run -----------------------------------------------------------
        writes = [e for e in eff if e.startswith(("mkdtemp", "mkdir", "write"))]
        pios = [e for e in eff if e.startswith(("pio", "run:"))]
        if not pv:
            if outcome != "ValueError" or eff:
                ctx.fail("target:invalid-pair", f"invalid pair: outcome {outcome}, effects {eff}", replay)
            continue
        if not up and pios:
            ctx.fail("target:pio-needed-without-upload" if "pio--version" in pios else "target:pio-without-upload", f"upload=False but PlatformIO was invoked: {pios}", replay)
        if not up and f in ("none", "build", "upload") and outcome != "returns-cpp":
            ctx.fail("target:pio-needed-without-upload", f"transpile-only use failed: {outcome}", replay)
        if up and not pp:
            if outcome != "RuntimeError" or writes:
                ctx.fail("target:missing-pio", f"upload=True without PlatformIO: outcome {outcome}, writes {writes}", replay)
            continue
        reached = f != "none" and not (f in ("build", "upload") and not up)
        if reached and outcome != "propagated:" + f:
            ctx.fail("target:swallowed-failure", f"fault at {f} did not propagate: outcome {outcome}", replay)
        if f == "build" and up and "pio-run-upload" in eff:
            ctx.fail("target:upload-after-failed-build", f"upload ran after a failed build: {eff}", replay)
        if any("@" in e for e in eff):
            ctx.fail("target:wrong-dir", f"effect outside the project directory: {eff}", replay)
        if outcome == "returns-cpp":
            cpp = tr_emit(tr_parse(SCRIPTS[s]))
            if det.get("ret") != cpp:
                ctx.fail("target:return", "target() did not return emit(parse(source))", replay)
            tmp = det["tmp"]
            try:
                main_cpp = (tmp / "src" / "main.cpp").read_text(encoding="utf-8")
                cp = configparser.ConfigParser(interpolation=None)
                cp.read(tmp / "platformio.ini")
                sec = cp[cp.sections()[0]]
                libs = [x.strip() for x in sec.get("lib_deps", "").splitlines() if x.strip()]
                conf = (sec.get("platform"), sec.get("board"), sec.get("upload_port"), len(cp.sections()))
            except Exception as e:  # noqa: BLE001
                main_cpp, libs, conf = None, None, repr(e)
            if main_cpp != cpp:
                ctx.fail("target:main.cpp", "src/main.cpp is not the returned source", replay)
            want_pair = det.get("pair", ("atmelavr", "uno"))
            if conf != (want_pair[0], want_pair[1], "COM7", 1) or libs != NEEDS[s]:
                ctx.fail("target:config", f"platformio.ini names {conf} libs {libs}; expected {want_pair + ('COM7',)} libs {NEEDS[s]}", replay)
            tail = [e for e in eff if e in ("pio-run", "pio-run-upload")]
            if up and (tail != ["pio-run", "pio-run-upload"] or eff[-2:] != tail):
                ctx.fail("target:build-upload-order", f"upload=True: expected build then upload last, got {eff}", replay)
            if not up and tail:
                ctx.fail("target:upload-without-request", f"upload=False but {tail} ran", replay)
    ctx.cov["exhaustive"] = True
    ctx.cov["rule"] = ("the complete scenario space pair-valid x upload x pio-present x 10 fault points, for 5 scripts (no library, Servo, parallel LCD, "
                       "I2C LCD, all three); non-trivial = valid pair; distinct = distinct (scenario, script)")
    return ctx.finish(TRUSTED, search=None)
