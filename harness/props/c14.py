"""C14 — library deps, #includes and instantiated library classes always agree.

Proof: lean/Reduino/Props/C14.lean over Lang/Libs.lean.  Tie T: for random device multisets in the documented positions the
model's three lists vs the real _collect_required_libraries(parse(src)), the #include lines and the global library objects
of emit(...); plus a real compile of the sketch against the mock core (library classes exist only in their own headers).
Oracle: set (in)equality on the real outputs."""
from __future__ import annotations

import configparser
import importlib
import re

import common
import cxx
from common import Ctx

TRUSTED = [
    "Lean 4.33 kernel; axioms ⊆ {propext, Classical.choice, Quot.sound}",
    "the abstraction of a script to (kind, position) of its device declarations (harness/props/c14.py builds script and abstraction from one description)",
    "mock core: Servo / LiquidCrystal / LiquidCrystal_I2C are defined only in their own headers, so a missing #include is a compile error as on the device",
]
HEAD = ("from Reduino.Actuators import Led, Servo, Buzzer, DCMotor\nfrom Reduino.Displays import LCD\nfrom Reduino.Sensors import Button, Potentiometer\n"
        "from Reduino.Communication import SerialMonitor\n")


def gen(rng):
    devs = []
    n = 0
    for _ in range(rng.randint(0, 3)):
        n += 1
        devs.append(("servo", rng.choice(["setupTop", "loopTop"]), f"sv{n}", f"Servo({rng.choice([3, 5, 6, 9, 10])})"))
    for _ in range(rng.randint(0, 2)):
        n += 1
        rw = ", rw=7" if rng.random() < 0.3 else ""
        bl = ", backlight_pin=9" if rng.random() < 0.3 else ""
        devs.append(("lcdPar", "setupTop", f"lp{n}", f"LCD(rs=12, en=11, d4=5, d5=4, d6=3, d7=2{rw}{bl}, cols={rng.choice([8, 16, 20])}, rows={rng.choice([1, 2, 4])})"))
    for _ in range(rng.randint(0, 2)):
        n += 1
        devs.append(("lcdI2c", "setupTop", f"li{n}", f"LCD(i2c_addr={rng.choice(['0x27', '0x3F', '0', '0x00', '39', '0x20'])}, cols={rng.choice([16, 20])}, rows={rng.choice([2, 4])})"))
    for _ in range(rng.randint(0, 3)):
        n += 1
        k = rng.choice(["Led(13)", "Buzzer(8)", "DCMotor(2, 3, 4)", "Potentiometer(\"A0\")", "SerialMonitor(9600)", "Button(7)", "Button(6)", "Ultrasonic(4, 5)"])
        devs.append(("other", rng.choice(["setupTop", "loopTop"]) if not k.startswith("Serial") else "setupTop", f"o{n}", k))
    rng.shuffle(devs)
    return devs


USE = {"servo": "{n}.write(90)", "lcdPar": "{n}.line(0, \"hi\")", "lcdI2c": "{n}.line(0, \"hi\")"}
# housekeeping the transpiler injects at the head of the loop body (button polls, animation ticks) must not hide loop-declared devices
ANIM = "{n}.animate(\"scroll\", 0, \"hello\", speed_ms=100, loop=True)"


def build(devs, with_loop):
    lines = [HEAD.rstrip("\n")]
    lines += [f"{n} = {ctor}" for k, pos, n, ctor in devs if pos == "setupTop"]
    lines += [USE[k].format(n=n) for k, pos, n, ctor in devs if pos == "setupTop" and k in USE]
    lines += [ANIM.format(n=n) for k, pos, n, ctor in devs if pos == "setupTop" and k in ("lcdPar", "lcdI2c") and (len(n) + len(ctor)) % 3 == 0]
    loop_devs = [d for d in devs if d[1] == "loopTop"]
    if with_loop or loop_devs:
        lines.append("while True:")
        lines += [f"    {n} = {ctor}" for k, pos, n, ctor in loop_devs]
        lines += ["    " + USE[k].format(n=n) for k, pos, n, ctor in devs if k in USE] or ["    pass"]
        if not any(k in USE for k, *_ in devs):
            pass
    return "\n".join(lines) + "\n"


ORDER = ["Servo", "LiquidCrystal", "LiquidCrystal_I2C"]
INC = {"Servo": "#include <Servo.h>", "LiquidCrystal": "#include <LiquidCrystal.h>", "LiquidCrystal_I2C": "#include <LiquidCrystal_I2C.h>"}


def run(ctx: Ctx) -> int:
    ctx.prove(["Reduino.Props.C14"])
    common.fresh_import()
    R = importlib.import_module("Reduino")
    parser = importlib.import_module("Reduino.transpile.parser")
    emitter = importlib.import_module("Reduino.transpile.emitter")
    pio = importlib.import_module("Reduino.toolchain.pio")
    rng = ctx.rng
    cases = [[], [("servo", "loopTop", "sv1", "Servo(9)")], [("other", "setupTop", "o1", "Button(7)"), ("servo", "loopTop", "sv2", "Servo(9)")],
             [("servo", "loopTop", "sv2", "Servo(9)"), ("other", "loopTop", "o1", "Button(7)")],
             [("lcdPar", "setupTop", "lpan", "LCD(rs=12, en=11, d4=5, d5=4, d6=3, d7=2)"), ("servo", "loopTop", "sv3", "Servo(10)"), ("servo", "loopTop", "sv4", "Servo(9)")], [("lcdI2c", "setupTop", "li1", "LCD(i2c_addr=0, cols=16, rows=2)")],
             [("lcdPar", "setupTop", "lp1", "LCD(rs=12, en=11, d4=5, d5=4, d6=3, d7=2)"), ("lcdI2c", "setupTop", "li2", "LCD(i2c_addr=0x27)")]]
    cases += [gen(rng) for _ in range(ctx.n(240, 1500))]
    srcs = [build(d, rng.random() < 0.5) for d in cases]
    model = ctx.lean.drive(["libs|" + ";".join(f"{k} {pos}" for k, pos, n, c in d) for d in cases])
    compile_jobs, compile_idx = [], []
    reals = []
    for i, (devs, src) in enumerate(zip(cases, srcs)):
        try:
            prog = parser.parse(src)
            libs = R._collect_required_libraries(prog)
            cpp = emitter.emit(prog)
        except Exception as e:  # noqa: BLE001
            reals.append(("reject", repr(e)))
            continue
        inc = [n for n in ORDER if INC[n] in cpp]
        inst = []
        for n, pat in (("Servo", r"^Servo \w+;"), ("LiquidCrystal", r"^LiquidCrystal \w+\("), ("LiquidCrystal_I2C", r"^LiquidCrystal_I2C \w+\(")):
            if re.search(pat, cpp, flags=re.M):
                inst.append(n)
        dup = [l for l in set(cpp.split("\n")) if l.startswith("#include") and cpp.split("\n").count(l) > 1]
        reals.append((libs, inc, inst, dup, cpp))
        compile_jobs.append((cpp, 1, ""))
        compile_idx.append(i)
    comp = dict(zip(compile_idx, cxx.run_many(ctx, compile_jobs) if ctx.tier == "thorough" or True else []))
    for i, (devs, src, m, real) in enumerate(zip(cases, srcs, model, reals)):
        replay = {"script": src}
        ctx.count("devices:" + "+".join(sorted({k for k, *_ in devs})) if devs else "devices:none")
        if real[0] == "reject":
            ctx.tie_diff("tie T libs (script rejected by the transpiler)", replay, m, real[1])
            continue
        libs, inc, inst, dup, cpp = real
        ctx.cov["traces_validated_against_impl"] += 1
        impl = f"libs={','.join(libs)} inc={','.join(inc)} inst={','.join(inst)}"
        ctx.case(";".join(f"{k} {pos}" for k, pos, n, c in devs), nontrivial=bool(libs), sample={"script": src, "model": m} if len(ctx.cov["samples"]) < 3 and libs else None)
        if impl != m:
            ctx.tie_diff("tie T libs (Lang.Libs vs _collect_required_libraries / #include lines / global objects)", replay, m, impl)
        # the property on the real outputs
        need = [n for n, k in (("Servo", "servo"), ("LiquidCrystal", "lcdPar"), ("LiquidCrystal_I2C", "lcdI2c")) if any(d[0] == k for d in devs)]
        if not (sorted(libs) == sorted(inc) == sorted(inst) == sorted(need)):
            ctx.fail("libs:disagree", f"requested {libs}, included {inc}, instantiated {inst}, devices need {need}", replay)
        if len(set(libs)) != len(libs) or dup:
            ctx.fail("libs:duplicate", f"library requested or header included twice: {libs} {dup}", replay)
        # the requested libraries as they reach the build: write_project -> platformio.ini -> configparser
        try:
            pdir = ctx.work / f"proj{i}"
            pio.write_project(pdir, cpp, "COM3", lib_deps=libs)
            cp = configparser.ConfigParser()
            cp.read(pdir / "platformio.ini")
            sec = [sct for sct in cp.sections() if sct.startswith("env:")][0]
            ini_libs = [l.strip() for l in cp[sec].get("lib_deps", "").splitlines() if l.strip()]
        except Exception as e:  # noqa: BLE001
            ini_libs = ["<write_project failed: %r>" % (e,)]
        if sorted(ini_libs) != sorted(need):
            ctx.fail("libs:project-file-disagrees", f"platformio.ini requests {ini_libs} while the sketch includes {inc} (devices need {need})", replay)
        r = comp.get(i)
        if r is not None and (r.compile_error or not r.ok):
            ctx.fail("libs:compile", f"sketch does not build against the library headers it includes: {(r.compile_error or r.stderr)[:300]}", replay)
    ctx.cov["rule"] = ("random device multisets: 0-3 servos (before the loop or at the top of its body), 0-2 parallel and 0-2 I2C LCDs (before the loop, addresses incl. 0), "
                       "0-3 other devices; non-trivial = at least one library needed; every accepted sketch is also compiled against the mock core")
    return ctx.finish(TRUSTED, search=None)
