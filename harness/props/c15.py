"""C15 — inputs: button edges, pot reads, ultrasonic ranging.

Proof: lean/Reduino/Props/C15.lean over Fw/Inputs.lean (and Host.Button).
Tie S_c: model vs emitted C++ compiled against the mock core with scripted digitalRead/analogRead/pulseIn/millis.
Oracle: monitors on the firmware trace (one sample per pass, click = rising edge, trigger spacing, attempts, fallback)
and the host Button's click count.

Button runs come in two families: the untimed one (the clock stands still: no delay in the pass) and the TIMED one (own PRNG): the pass
ends in sleep(k) with k from 1 ms to 25 ms, the millisecond clock starts at 0 / a small value / seconds after power-up / just before the
counter wraps, and the signals are dense in edges (alternating, single-sample pulses, bursts) — so released->pressed transitions arrive
1 ms to 100 ms apart by millis().  The property ties the handler to the SAMPLED signal only, for every timing: the same monitors and
the same model answer apply."""
from __future__ import annotations

import importlib
import random
import struct

import common
import devscript as ds
from common import Ctx

TRUSTED = [
    "Lean 4.33 kernel; axioms ⊆ {propext, Classical.choice, Quot.sound}",
    "harness/mockcore: scripted digitalRead/analogRead/pulseIn, virtual millis() advanced by delay() and scripted drift; host g++",
    "float32 rounding of the distance is outside the theorems (exact arithmetic); the counter model is run with W = 2^64 (host unsigned long), the board's W is 2^32 (theorems: every W)",
    "`each pot.read() is one analogRead` is decided on the emitted code by the trace monitor, not by a Lean theorem",
    "button timing: time passes only through delay() at the end of a pass (virtual clock); pass lengths 1-25 ms and six start values are sampled, the Lean model has no clock (the property has none)",
]

HEAD = ["from Reduino.Sensors import Button, Potentiometer, Ultrasonic", "from Reduino.Communication import SerialMonitor", "from Reduino.Utils import sleep"]


def button_script(in_loop: bool, nreads: int, form: str = "write", sleep_ms: int = 0):
    lines = HEAD + ["mon = SerialMonitor(9600)", "def on_press():", '    mon.write("C")', "k = 0"]
    if not in_loop:
        lines.append("btn = Button(7, on_click=on_press)")
    lines.append("while True:")
    if in_loop:
        lines.append("    btn = Button(7, on_click=on_press)")
    if form == "redecl":     # the same name bound again WITHOUT a handler: the first handler must be gone (host: a new Button object)
        i = lines.index("btn = Button(7, on_click=on_press)") if not in_loop else None
        if i is not None:
            lines.insert(i + 1, "btn = Button(7)")
    if form == "while":      # the sampled state is also used as a condition of nested control flow: still one sample per pass
        lines += ["    k = 0", "    while btn.is_pressed() and k < 2:", "        k += 1", "    if btn.is_pressed():", "        k += 1"]
    for _ in range(nreads):
        lines.append("    mon.write(btn.is_pressed())")
    lines.append('    mon.write("#")')
    if sleep_ms:             # a pass that takes time: the clock moves between two samples
        lines.append(f"    sleep({sleep_ms})")
    return "\n".join(lines) + "\n"


def edge_dense_signal(rng, n):
    """signals with many released->pressed transitions close together: alternation, single-sample pulses, bursts separated by holds"""
    kind = rng.randrange(4)
    if kind == 0:
        first = rng.randrange(2)
        return [(first + i) % 2 for i in range(n)]
    if kind == 1:
        out = []
        while len(out) < n:
            out += [0] * rng.randint(1, 3) + [1]
        return out[:n]
    if kind == 2:
        out = [0]
        while len(out) < n:
            out += [1, 0] * rng.randint(1, 4) + [rng.randrange(2)] * rng.randint(2, 6)
        return out[:n]
    return [int(rng.random() < 0.5) for _ in range(n)]


def button_canon(trace, nreads):
    """per pass c<clicked>v<value>; also returns monitor facts"""
    passes, cur = [], None
    setup_reads = []
    for l in trace:
        if l.startswith("== loop"):
            cur = {"dr": [], "click": 0, "vals": []}
            passes.append(cur)
        elif l.startswith("== end"):
            cur = None
        elif cur is None:
            if l.startswith("dr 7 "):
                setup_reads.append(int(l.split()[2]))
        else:
            if l.startswith("dr 7 "):
                cur["dr"].append(int(l.split()[2]))
            elif l == "println x43":
                cur["click"] += 1
            elif l in ("println x31", "println x30"):
                cur["vals"].append(l == "println x31")
    return setup_reads, passes


def run(ctx: Ctx) -> int:
    ctx.prove(["Reduino.Props.C15"])
    common.fresh_import()
    sensors = importlib.import_module("Reduino.Sensors")
    rng = ctx.rng
    sources, metas = [], []

    # ---------------- Button ---------------------------------------------------------------------------------
    maxlen = 8 if ctx.tier == "thorough" else 5
    sigs = [[(m >> i) & 1 for i in range(n)] for n in range(1, maxlen + 1) for m in range(2 ** n)]
    sigs += [[int(rng.random() < 0.5) for _ in range(rng.randint(9, 40))] for _ in range(ctx.n(20, 200))]
    # one compiled sketch per (placement, reads); signals are only inputs -> many runs of few binaries
    bjobs = []
    for in_loop in (False, True):
        for nreads in (1, 2, 3):
            src = button_script(in_loop, nreads)
            for sig in sigs if (not in_loop and nreads == 1) else rng.sample(sigs, min(len(sigs), ctx.n(12, 60))):
                bjobs.append((in_loop, nreads, src, sig))
    for in_loop in (False, True):
        src = button_script(in_loop, 1, "while")
        for sig in rng.sample(sigs, min(len(sigs), ctx.n(12, 60))):
            bjobs.append((in_loop, 1, src, sig))
    src_redecl = button_script(False, 1, "redecl")
    for sig in rng.sample(sigs, min(len(sigs), ctx.n(12, 60))):
        bjobs.append((False, 1, src_redecl, sig))
    # pinned finding witness: button declared in the loop body, held at power-up
    bjobs.append((True, 1, button_script(True, 1), [1, 1, 0, 1]))
    # timed family (own PRNG: the streams above and below stay what they were): every pass takes sleep_ms, the clock starts at `start`
    rng_t = random.Random(f"{ctx.seed}:C15:timed-button")
    BSTART = {}
    for sleep_ms in (1, 2, 5, 10, 19, 20, 25):
        for in_loop, nreads in ((False, 1), (True, 2)) if sleep_ms in (1, 5, 20) else ((False, 1),):
            src = button_script(in_loop, nreads, "write", sleep_ms)
            tsigs = [[0, 0, 1, 0, 1], [0, 1, 0, 1, 0, 1, 0, 1], [1, 0, 1, 0, 1, 1, 0, 1]] if (sleep_ms in (1, 5) and not in_loop) else []
            tsigs += [edge_dense_signal(rng_t, rng_t.randint(4, 30)) for _ in range(ctx.n(3, 20))]
            for sig in tsigs:
                job = (in_loop, nreads, src, sig)
                BSTART[len(bjobs)] = rng_t.choice([0, 0, 1, 17, 1000, 1000, 65536, 2 ** 32 - 40, 2 ** 64 - 40])
                bjobs.append(job)

    # ---------------- Ultrasonic ---------------------------------------------------------------------------------
    ujobs = []
    for _ in range(ctx.n(40, 500)):
        prog = []
        for _ in range(rng.randint(1, 3)):
            prog.append("call")
            if rng.random() < 0.7:
                prog.append(f"sleep {rng.choice([0, 1, 10, 30, 59, 60, 61, 100])}")
        passes = rng.randint(1, 4)
        echoes = [rng.choice([0, 0, 0, 583, 1000, 1, 29999, 5830, 2]) for _ in range(passes * 9)]
        if rng.random() < 0.2:
            echoes = [0] * len(echoes)
        drifts = [rng.choice([0, 0, 1, 5, 12, 30, 70]) for _ in range(passes * 30)]
        ujobs.append((prog, passes, echoes, drifts))

    def ultra_script(prog):
        lines = HEAD + ["mon = SerialMonitor(9600)", "us = Ultrasonic(5, 6)", "while True:"]
        for p in prog:
            if p == "call":
                lines += ["    d = us.measure_distance()", "    mon.write(d)"]
            else:
                lines.append(f"    sleep({p.split()[1]})")
        return "\n".join(lines) + "\n"

    # ---------------- Potentiometer ---------------------------------------------------------------------------------
    pjobs = []
    for nreads in (0, 1, 2, 3):
        lines = HEAD + ["mon = SerialMonitor(9600)", 'pot = Potentiometer("A0")', "while True:"]
        for k in range(nreads):
            lines.append("    mon.write(pot.read())" if k != 1 else "    v = pot.read() + 0\n    mon.write(v)")
        lines.append('    mon.write("#")')
        pjobs.append((nreads, "\n".join(lines) + "\n", [rng.randint(0, 1023) for _ in range(12)]))
        if nreads:
            # the same name bound again to another pin: reads use the pin of the latest declaration
            relines = [l if l != 'pot = Potentiometer("A0")' else 'pot = Potentiometer("A3")\npot = Potentiometer("A0")' for l in lines]
            pjobs.append((nreads, "\n".join(relines) + "\n", [rng.randint(0, 1023) for _ in range(12)]))

    # ---------------- compile each distinct source once, run with each input ------------------------------------------
    import cxx
    distinct = {}
    for j in bjobs:
        distinct.setdefault(j[2], None)
    for j in ujobs:
        distinct.setdefault(ultra_script(j[0]), None)
    for j in pjobs:
        distinct.setdefault(j[1], None)
    cpps = {}
    for s in distinct:
        cpp, exc = cxx.transpile(s)
        cpps[s] = (cpp, exc)
    runs = []   # (kind, job, src, passes, inputs)
    STARTS = {}
    for bi, j in enumerate(bjobs):
        runs.append(("button", j, j[2], len(j[3]) - 1, "d 7 " + " ".join(map(str, j[3])) + (f"\nT {BSTART[bi]}" if BSTART.get(bi) else "")))      # the first sample is taken by setup(), wherever the button is declared
    for j in ujobs:
        # a quarter of the runs start just before the millisecond counter wraps (host `unsigned long` is 64-bit: same arithmetic, other modulus);
        # their traces are read relative to the start value, so models and monitors see the same times as in an unwrapped run
        start = (2 ** 64 - rng.choice([7, 31, 59, 61, 100, 250, 1000])) if rng.random() < 0.25 else 0
        runs.append(("ultra", j, ultra_script(j[0]), j[1], "p 6 " + " ".join(map(str, j[2])) + "\nt " + " ".join(map(str, j[3])) + (f"\nT {start}" if start else "")))
        STARTS[len(runs) - 1] = start
    for j in pjobs:
        runs.append(("pot", j, j[1], 3, "a 14 " + " ".join(map(str, j[2]))))
    jobs = []
    for kind, j, src, passes, inputs in runs:
        cpp, exc = cpps[src]
        if cpp is None:
            ctx.tie_diff(f"tie S_c {kind} (script rejected by the transpiler)", src, "accepted", repr(exc))
            jobs.append(None)
        else:
            jobs.append((cpp, max(passes, 0), inputs))
    results = iter(cxx.run_many(ctx, [j for j in jobs if j is not None]))
    results = [next(results) if j is not None else None for j in jobs]
    for idx, st in STARTS.items():
        r = results[idx]
        if st and r is not None and r.trace:
            absolute = [int(l.split()[1]) for l in r.trace if l.startswith("millis ")]
            if 0 in absolute:
                results[idx] = None            # the helper uses 0 as "never triggered": a stamp exactly at the wrap is outside what is checked here
                ctx.count("ultra:wrap-run-skipped (stamp exactly 0)")
                continue
            r.trace[:] = [("millis %d" % ((int(l.split()[1]) - st) % 2 ** 64)) if l.startswith("millis ") else l for l in r.trace]
            ctx.count("ultra:run-across-counter-wrap")

    reqs = []
    for ridx, (kind, j, src, passes, inputs) in enumerate(runs):
        if kind == "button":
            in_loop, nreads, _, sig = j
            in_loop = False      # placement only: since fix 5cf46d6 a button declared in the loop body is sampled in setup() like any other
            reqs.append(f"fwbutton|{'-' if in_loop else sig[0]}|" + " ".join(map(str, sig if in_loop else sig[1:])))
        elif kind == "ultra":
            prog, passes, echoes, drifts = j
            if STARTS.get(ridx):      # across the wrap: the counter model (W = 2^64, the host compiler's unsigned long), Props.C15.ultra_measure_across_wrap
                reqs.append(f"fwultraW|{2 ** 64}|{STARTS[ridx]}|" + " ".join(map(str, echoes)) + "|" + " ".join(map(str, drifts)) + "|" + ";".join(prog * passes))
            else:
                reqs.append("fwultra|" + " ".join(map(str, echoes)) + "|" + " ".join(map(str, drifts)) + "|" + ";".join(prog * passes))
        else:
            reqs.append("fwbutton|0|0")
    model = ctx.lean.drive(reqs)

    for (kind, j, src, passes, inputs), res, m, req in zip(runs, results, model, reqs):
        if res is None:
            continue
        ctx.count(kind)
        if res.compile_error or not res.ok:
            ctx.fail(f"{kind}:compile", f"sketch does not compile/run: {(res.compile_error or res.stderr)[:300]}", {"script": src})
            continue
        ctx.cov["traces_validated_against_impl"] += 1
        replay = {"script": src, "inputs": inputs, "passes": passes}
        if kind == "button":
            in_loop, nreads, _, sig = j
            declared_in_loop, in_loop = in_loop, False
            setup_reads, ps = button_canon(res.trace, nreads)
            impl = " ".join(f"c{min(p['click'], 1)}v{1 if (p['vals'] and p['vals'][0]) else 0}" for p in ps)
            timed = "    sleep(" in src
            if timed:
                ctx.count("button:timed-run")
                ds_ = [int(l.split()[1]) for l in res.trace if l.startswith("delay ")]
                ctx.count("button:timed-run rising edges < 20 ms apart", int(bool(ds_) and max(ds_) < 20 and sum(1 for a, b in zip(sig, sig[1:]) if b and not a) >= 2))
            ctx.case(req + f"|{nreads}" + (f"|{inputs.split(chr(10))[-1]}|{src.count('sleep(')}" if timed else ""), nontrivial=any(sig), sample={"script": src, "signal": sig, "model": m} if len(ctx.cov["samples"]) < 2 else None)
            nohandler = "btn = Button(7)\n" in src          # re-declared without a handler (the model and the host emulation below assume one)
            if impl != m and not nohandler:
                ctx.tie_diff("tie S_c button (Fw.Button vs compiled ButtonPoll)", {**replay, "request": req}, m, impl)
            # property monitors
            if (not in_loop) and len(setup_reads) != 1:
                ctx.fail("button:setup-sample", f"setup() sampled the button {len(setup_reads)} times", replay)
            sampled = ([] if in_loop else setup_reads[:1]) + [p["dr"][0] if p["dr"] else None for p in ps]
            prev = 0 if in_loop else (setup_reads[0] if setup_reads else 0)
            held_at_start = sig[0] == 1
            for k, p in enumerate(ps):
                if len(p["dr"]) != 1:
                    ctx.fail("button:samples-per-pass", f"pass {k}: button sampled {len(p['dr'])} times", replay)
                    break
                s = p["dr"][0]
                true_prev = sig[k] if not in_loop else (sig[k - 1] if k > 0 else None)
                # for a button declared in the loop the signal before the first pass is the power-up level = sig[0]
                want_click = bool(s) and not bool(prev)
                rising = bool(s) and not bool(true_prev if true_prev is not None else s)
                if "btn = Button(7)\n" in src:
                    rising = False          # re-declared without a handler: nothing to call
                if p["click"] != (1 if rising else 0):
                    key = "button:startup-click-loop-declared" if (declared_in_loop and k == 0 and p["click"] == 1 and sig[0] == 1) else "button:click-not-rising-edge"
                    ctx.fail(key, f"pass {k}: handler ran {p['click']} time(s); sample {s}, previous level {true_prev if true_prev is not None else s}", replay)
                if len(p["vals"]) != nreads or any(v != bool(s) for v in p["vals"]):
                    ctx.fail("button:is_pressed-not-sample", f"pass {k}: is_pressed() returned {p['vals']} for sample {s}", replay)
                prev = s
            # host agreement when the signal starts released
            if not in_loop and sig[0] == 0 and not nohandler:
                clicks = []
                feed = {"i": 0}

                def provider(seq=sig[1:], feed=feed):      # a consuming source (queue / recorded trace): every read takes the next sample
                    v = seq[min(feed["i"], len(seq) - 1)]
                    feed["i"] += 1
                    return bool(v)
                hb = sensors.Button(7, on_click=lambda: clicks.append(1), state_provider=provider)
                got = [hb.is_pressed() for _ in sig[1:]]
                if feed["i"] != len(sig[1:]):
                    ctx.fail("button:host-samples-per-poll", f"host Button took {feed['i']} samples for {len(sig[1:])} is_pressed() calls", replay)
                elif got != [bool(v) for v in sig[1:]]:
                    ctx.fail("button:host-is_pressed-not-sample", f"host Button.is_pressed() returned {got} for the signal {sig[1:]}", replay)
                if len(clicks) != sum(p["click"] for p in ps):
                    ctx.fail("button:host-count", f"host Button clicked {len(clicks)} times, firmware {sum(p['click'] for p in ps)}", replay)
                # same sampled signal, but the simulated level glitches between two samples (set_pressed path)
                clicks2 = []
                hb2 = sensors.Button(7, on_click=lambda: clicks2.append(1))
                for lv in sig[1:]:
                    for g in range(rng.randint(0, 2)):
                        hb2.set_pressed(not lv)
                    hb2.set_pressed(bool(lv))
                    hb2.is_pressed()
                if len(clicks2) != sum(p["click"] for p in ps):
                    ctx.fail("button:host-count-glitch", f"host Button (set_pressed with glitches between samples) clicked {len(clicks2)} times for sampled signal {sig[1:]}, firmware {sum(p['click'] for p in ps)}", replay)
        elif kind == "ultra":
            prog, npass, echoes, drifts = j
            # canonical events per call
            calls, cur, last_m, after_echo = [], None, 0, False
            for l in res.trace:
                w = l.split()
                if w[0] == "millis":
                    last_m = int(w[1])
                    if cur is None:
                        cur = []
                    if after_echo:
                        cur.append(f"stamp {last_m}")
                        after_echo = False
                elif w[0] == "delay" and cur is not None and cur is not False:
                    cur.append(f"delay {w[1]}") if (cur and cur[-1].startswith("stamp")) or not cur else None
                elif l == "dw 5 1":
                    cur.append(f"pulse {last_m}")
                elif w[0] == "pulsein":
                    cur.append(f"echo {w[4]}")
                    after_echo = True
                elif w[0] == "println" and w[1].startswith("g"):
                    calls.append(",".join(cur or []) + f" result={w[1]}")
                    cur = None
            impl = "|".join(calls)
            ctx.case(req, nontrivial=any(echoes), sample={"script": src, "inputs": inputs, "model": m[:200]} if len(ctx.cov["samples"]) < 4 else None)
            if impl != m:
                ctx.tie_diff("tie S_c ultrasonic (Fw.Ultra vs compiled helper)", {**replay, "request": req}, m, impl)
            # monitors on the raw trace
            last_stamp, last_good, pulses_in_call, pend = 0, None, 0, None
            clock = 0
            for l in res.trace:
                w = l.split()
                if w[0] == "millis":
                    clock = int(w[1])
                    if pend == "stamp":
                        last_stamp = clock
                        pend = None
                elif l == "dw 5 1":
                    pulses_in_call += 1
                    if last_stamp != 0 and clock - last_stamp < 60:
                        ctx.fail("ultra:retrigger-early", f"trigger pulse {clock - last_stamp} ms after the previous one (clock {clock})", replay)
                elif w[0] == "pulsein":
                    pend = "stamp"
                    cur_echo = int(w[4])
                    if cur_echo > 0:
                        first_good = cur_echo
                elif w[0] == "println" and w[1].startswith("g"):
                    got = struct.unpack(">f", bytes.fromhex(w[1][1:]))[0]
                    if pulses_in_call > 3 or pulses_in_call < 1:
                        ctx.fail("ultra:attempts", f"measure_distance() triggered {pulses_in_call} times", replay)
                    if cur_echo > 0:
                        want = cur_echo * 0.0343 / 2
                        last_good = want
                    else:
                        want = last_good if last_good is not None else 400.0
                        if pulses_in_call != 3:
                            ctx.fail("ultra:attempts", f"gave up after {pulses_in_call} attempts", replay)
                    if abs(got - want) > 1e-3 * max(1.0, abs(want)):
                        ctx.fail("ultra:value", f"measure_distance() returned {got}, expected {want}", replay)
                    pulses_in_call = 0
        else:
            nreads, _, vals = j
            it = iter(vals)
            for seg in ds.split_ops(res.trace):
                ars = [l for l in seg if l.startswith("ar 14 ")]
                prints = [l for l in seg if l.startswith("println ") and l != ds.MARK]
                if "== setup" in seg:
                    ars = [l for l in seg[seg.index("== loop 0"):] if l.startswith("ar 14 ")] if "== loop 0" in seg else []
                    prints = [l for l in seg[seg.index("== loop 0"):] if l.startswith("println ")] if "== loop 0" in seg else []
                want = [str(next(it, 0)) for _ in range(nreads)]
                got = [bytes.fromhex(p.split()[1][1:]).decode() for p in prints]
                ctx.case(f"pot|{nreads}|{want}", nontrivial=nreads > 0)
                if len(ars) != nreads or got != want:
                    ctx.fail("pot:fresh-read", f"{nreads} read() calls: {len(ars)} analogRead events, printed {got}, ADC gave {want}", {"script": src, "inputs": inputs})
    ctx.cov["rule"] = ("button: every signal up to length 5 (quick) / 8 (thorough) plus random long ones, 1-3 is_pressed() calls per pass, declared before the "
                       "loop or at the top of its body; timed button runs: passes of 1-25 ms (sleep at the end of the body), clock starting at 0 / small / "
                       "seconds / just before 2^32 and 2^64, edge-dense signals (alternating, single-sample pulses, bursts); ultrasonic: programs of 1-3 measure calls and sleeps per pass, 1-4 passes, echo scripts with time-outs, "
                       "clock drift scripts around the 60 ms guard; pot: 0-3 reads per pass; non-trivial = signal/echo script not all zero")
    return ctx.finish(TRUSTED, search=None)
