"""C02 — type inference is sound: no value is narrowed or re-typed on the device.

Proof: lean/Reduino/Props/C02.lean (Lang/Types.lean, Lang/TypesTree.lean): for every type-stable program and EVERY execution path the
C++ store holds Python's values; inferred type = compiler's type on tame expressions; function result = join of returns; witnesses.
Expressions include the builtin calls abs / min / max / int() / float() / bool(): typed by `_BUILTIN_CALL_RETURN_TYPES` (re-extracted
every run into Gen/Types.lean, obligations `gen_builtin_*` in GenOb/Types.lean), evaluated in C++ as the Arduino macros / static_casts.
Ties: T — declared C++ types in the emission vs the model's block-structured `declareT`; S_py — model Python store vs CPython on
straight-line programs; S_c — model C++ store vs values printed by the compiled firmware; mergeReturn vs emitted return types;
function variants — Lang/TypesFun.lean's call model (Props/C02Fun.lean: call_preserves_value, variant_per_signature, witnesses) vs the emitted
definitions of a helper (result type, parameter types, declared locals) and the results CPython / the firmware print for every call.
Oracle E: values printed by the compiled firmware vs CPython for block-structured scripts mixing bool/int/float/str in every
order (top level, branches, loops), classified by the model's TypeStable verdict; a dedicated stream of builtin calls (tame shapes must
agree; a float operand to abs/min/max must come out as K02e `types:builtin-float-result` and nothing else); helper functions whose
locals are hoisted out of if/else, if/elif/else, for and while bodies — the same local name hoisted several times with different types
(two typed variants of one helper, several helpers), narrower type first and wider first, with and without a hoisting top-level if before
the defs (`function_hoists`; a loop hoist after an if hoist of the same name is K02f)."""
from __future__ import annotations

import itertools
import re
import struct

import common
import cxx
import pyoracle
import tygen
from common import Ctx

TRUSTED = [
    "Lean 4.33 kernel; axioms ⊆ {propext, Classical.choice, Quot.sound}",
    "exact arithmetic (ordered field) in the theorems; float32/float64 rounding is seen only through the ties (dyadic constants, 1e-5 relative tolerance on firmware floats)",
    "mock core + host g++ (32-bit int): AVR's 16-bit int range is a separate side condition",
    "builtin calls abs/min/max/int()/float()/bool() ARE in the expression model (mock core's macros = Arduino.h's; `_BUILTIN_CALL_RETURN_TYPES` regenerated, gen_builtin_*); "
    "lists/len() and str() are not",
    "helper functions (W8, Lang/TypesFun.lean, Props/C02Fun.lean): non-recursive helpers in structured form (straight-line body, then any one of the return expressions) ARE modelled — "
    "per-signature parse, parameters declared with the type of their LAST assignment, locals with their first, result = mergeReturn, arguments and the returned value converted; "
    "tied by `function variants` (emitted definitions of fn, CPython and firmware results per call).  Trusted there: C++ overload resolution picks the variant the parser selected "
    "(call sites pass variables of the exact types; float-literal call sites are K06c); one call signature per helper whose body re-types a parameter (otherwise the stored body "
    "depends on the order of the requests); recursion, helpers calling helpers, branches/loops inside bodies, globals read in bodies stay with the end-to-end oracles only",
    "int()/float() of a str operand and min/max of two strs evaluate to `none` in the model (numeral parsing / string ordering not modelled; never generated)",
]
DECL_RE = re.compile(r"^\s*(int|float|bool|String)\s+(\w+)\s*(=|;)", re.M)


def num_of_py(text):
    if text == "True":
        return 1
    if text == "False":
        return 0
    try:
        return int(text)
    except ValueError:
        try:
            return float(text)
        except ValueError:
            return text


def num_of_fw(text):
    if text.startswith("float:g"):
        return struct.unpack(">f", bytes.fromhex(text[7:]))[0]
    if text.startswith("double:h"):
        return struct.unpack(">d", bytes.fromhex(text[8:]))[0]
    try:
        return int(text)
    except ValueError:
        return text


def same(a, b):
    if isinstance(a, str) or isinstance(b, str):
        return a == b
    return abs(a - b) <= 1e-5 * max(1.0, abs(a), abs(b))


def writes(events):
    return [e[1] for e in events if e[0] == "w"]


def model_store(txt):
    """'x:i1,y:f<hex>' -> dict"""
    out = {}
    if txt in ("none", ""):
        return None if txt == "none" else {}
    for kv in txt.split(","):
        k, v = kv.split(":", 1)
        if v.startswith("i"):
            out[k] = int(v[1:])
        elif v.startswith("f"):
            out[k] = struct.unpack(">d", bytes.fromhex(v[1:]))[0]
        elif v.startswith("b"):
            out[k] = 1 if v == "bT" else 0
        elif v.startswith("s"):
            out[k] = bytes.fromhex(v[2:]).decode()
    return out


def fields(line):
    return dict(kv.split("=", 1) for kv in line.split(" ") if "=" in kv)


def gen_programs(ctx):
    rng = ctx.rng
    progs = []
    for i in range(ctx.n(120, 1500)):
        hz = rng.choice(tygen.HAZARDS) if rng.random() < 0.4 else None
        straight = rng.random() < 0.35
        g = tygen.TyGen(rng, hazard=hz, straight=straight)
        progs.append((g.program(), hz, straight))
    # builtin calls: a dedicated stream — tame shapes (TypeStable in the model) and, every third program, a float operand to abs/min/max (K02e);
    # half of them straight-line, so that the model's Python and C++ stores are tied to CPython and the firmware
    for i in range(ctx.n(36, 400)):
        hz = "builtin-float-result" if i % 3 == 0 else None
        g = tygen.TyGen(rng, hazard=hz, straight=(i % 2 == 0), builtins=True)
        progs.append((g.program(), hz, i % 2 == 0))
    # exhaustive: every order of up to three differently-typed assignments to one name, at top level / in a branch / in a loop
    vals = {"int": ("i", 2), "float": ("f", 2.5), "bool": ("b", True)}
    for n in (2, 3):
        for combo in itertools.product(vals, repeat=n):
            if len(set(combo)) < 2:
                continue
            for place in ("top", "branch", "loop"):
                body = []
                for j, c in enumerate(combo):
                    st = ("as", "z", vals[c])
                    if j > 0 and place == "branch":
                        st = ("if", [("lt", ("i", 0), ("i", 1))], [[st]], None)
                    elif j > 0 and place == "loop":
                        st = ("for", f"k{j}", 1, [st])
                    body.append(st)
                progs.append(({"pre": body + [("wr", "z")], "main": None}, "retype-orders:" + place, place == "top"))
    # every hazard at least twice at every seed (the random stream above draws a hazard for 40% of 120 programs out of 20 kinds: a kind can be absent
    # from a quick run); its own generator, so that the streams above stay what they were
    import random
    hrng = random.Random(f"{getattr(ctx, 'seed', 0)}:C02:every-hazard")
    for hz in tygen.HAZARDS:
        for straight in (False, True):
            progs.append((tygen.TyGen(hrng, hazard=hz, straight=straight).program(), hz, straight))
    return progs


def functions(ctx):
    """helper functions: parameters typed per call site and by what the body binds them to, results = join of the returns"""
    rng = ctx.rng
    head = "from Reduino.Communication import SerialMonitor\nmon = SerialMonitor(9600)\n"
    srcs = []
    for _ in range(ctx.n(60, 600)):
        np_ = rng.randint(1, 2)
        ps = ["u", "v"][:np_]
        body = []
        for _ in range(rng.randint(0, 2)):          # the body may rebind a parameter to a wider type
            q = rng.choice(ps)
            body.append(rng.choice([f"{q} = {q} * 0.5", f"{q} += 0.25", f"{q} = {q} + 1", f"{q} = {q} * 2", f"{q} -= 1.5", f"t = {q} * 0.5\n    {q} = t + {q}"]))
        rets = []
        for _ in range(rng.randint(1, 3)):
            rets.append(rng.choice([ps[0], f"{ps[0]} + {ps[-1]}", f"{ps[-1]} * 2", "1", "2.5", f"{ps[0]} * 0.5", f"{ps[0]} > 1"]))
        if "> 1" in "".join(rets) and len(set(">" in r for r in rets)) > 1 and rng.random() < 0.5:
            rets = [r for r in rets if ">" not in r] or ["1"]
        lines = ["def fn(" + ", ".join(ps) + "):"] + ["    " + b for b in body]
        for j, r_ in enumerate(rets[:-1]):
            lines += [f"    if {ps[0]} > {j + 3}:", f"        return {r_}"]
        lines.append(f"    return {rets[-1]}")
        kind = rng.choice(["int", "float"])           # all call sites of one script pass the same types (mixing them is C06 K06c)
        calls = []
        for j in range(rng.randint(1, 3)):
            args = [str(rng.randint(0, 9)) if kind == "int" else rng.choice(["0.5", "2.25", "7.5", "4.0"]) for _ in ps]
            calls += [f"r{j} = fn({', '.join(args)})", f"mon.write(r{j})"]
        if rng.random() < 0.3:
            calls += ["w = 3" if kind == "int" else "w = 1.5", f"z = fn({', '.join(['w'] * np_)})", "mon.write(z)"]
        srcs.append(head + "\n".join(lines + calls) + "\n")
    outs = [cxx.transpile(s) for s in srcs]
    jobs = [(cpp, 0, "") for cpp, e in outs if cpp is not None]
    it = iter(cxx.run_many(ctx, jobs))
    for src, (cpp, exc) in zip(srcs, outs):
        replay = {"script": src}
        if cpp is None:
            ctx.count("function:rejected")
            continue
        res = next(it)
        ctx.case(src, nontrivial=True)
        if res.compile_error:
            ctx.count("function:does-not-compile")      # C06's subject
            continue
        ev, err = pyoracle.run_script(src, 0)
        if err is not None:
            continue
        ctx.cov["traces_validated_against_impl"] += 1
        pyv = [num_of_py(t) for t in writes(ev)]
        fwv = [num_of_fw(t) for t in writes(pyoracle.fw_events(res.trace))]
        rebinding = bool(re.search(r"^    [uvt] [-+*]?= ", src, re.M))
        ctx.count("function:" + ("rebinds-parameter" if rebinding else "plain"))
        if len(pyv) != len(fwv) or not all(same(a, b) for a, b in zip(pyv, fwv)):
            bad = next(((a, b) for a, b in zip(pyv, fwv) if not same(a, b)), (len(pyv), len(fwv)))
            intdiv = False
            ctx.fail("types:function-" + ("parameter-rebound" if rebinding else "result"), f"firmware prints {bad[1]!r} where Python prints {bad[0]!r}", replay)


def hoist_script(head, top, fns, kinds):
    """one script of `function_hoists`: fns = [(local name, arm kind, hoisting construct)], kinds = call-site argument types in order"""
    lines = ["mode = 3"]
    if top:
        lines += ["if mode > 1:", "    gain = 1.5", "else:", "    gain = 2.5", "mon.write(gain)"]
    calls = ["wi = 3", "wf = 1.5", "wn = -0.75"]
    for j, fn in enumerate(fns):
        loc, arm = fn[0], fn[1]
        form = fn[2] if len(fn) > 2 else "if"
        x, y = HOIST_ARMS[arm]
        y = "4" if y == "a_int" else y
        if form == "if":
            lines += [f"def f{j}(a):", "    if a > 0:", f"        {loc} = {x}", "    else:", f"        {loc} = {y}", f"    return {loc}"]
        elif form == "elif":
            lines += [f"def f{j}(a):", "    if a > 2:", f"        {loc} = {x}", "    elif a > 0:", f"        {loc} = {y}", "    else:", f"        {loc} = {x}", f"    return {loc}"]
        elif form == "for":
            lines += [f"def f{j}(a):", "    for i in range(2):", f"        {loc} = {x}", f"    return {loc}"]
        else:
            lines += [f"def f{j}(a):", "    n = 0", "    while n < 2:", f"        {loc} = {x}", "        n += 1", f"    return {loc}"]
        for kd in kinds:
            for arg in (["wi", "0"] if kd == "int" else ["wf", "wn"]):
                nm = f"r{j}_{len(calls)}"
                calls += [f"{nm} = f{j}({arg})", f"mon.write({nm})"]
    return head + "\n".join(lines + calls) + "\n"


HOIST_ARMS = {"int": ("7", "a_int"), "float": ("2.5", "0.25"), "str": ('"pos"', '"neg"'), "param": ("a * 2", "a"), "parf": ("a * 0.5", "1.5")}
# the same local name hoisted more than once, narrower type first: by the int primary variant and then a float variant of ONE helper (`param` arms take
# the parameter's type), by two helpers (int then float, int then str-free float-by-parameter), with and without a hoisting top-level if before the defs,
# and through every hoisting construct (if/else, if/elif/else, for, while)
HOIST_PINNED_2 = [
    (True, [("t", "param", "if")], ["int", "float"]), (False, [("t", "param", "if")], ["int", "float"]), (True, [("t", "param", "elif")], ["int", "float"]),
    (True, [("t", "int", "if"), ("t", "float", "if")], ["int"]), (True, [("t", "int", "if"), ("t", "parf", "if")], ["float"]),
    (True, [("t", "int", "if"), ("t", "param", "if")], ["float"]), (True, [("q", "int", "elif"), ("q", "float", "elif")], ["int", "float"]),
    (True, [("t", "int", "if"), ("u", "float", "if"), ("t", "parf", "if"), ("u", "int", "if")], ["int"]),
    (True, [("t", "param", "for")], ["int", "float"]), (True, [("t", "param", "while")], ["int", "float"]),
    (True, [("t", "int", "for"), ("t", "float", "for")], ["int"]), (True, [("t", "int", "while"), ("t", "parf", "while")], ["int"]),
    (True, [("t", "float", "for"), ("t", "int", "if")], ["int"]), (False, [("t", "int", "if"), ("t", "float", "for")], ["int"]),
    # an if-hoisted local and a LOOP-hoisted local of the same name in another helper (K02f)
    (True, [("t", "int", "if"), ("t", "parf", "for")], ["int"]), (True, [("t", "int", "if"), ("t", "float", "while")], ["int"]),
    (True, [("t", "param", "for"), ("t", "int", "if")], ["int", "float"]),
]


def loop_after_if(top, fns):
    """K02f's shape: the script hoists a top-level name out of an if before the defs, and a local hoisted out of a for/while in one helper is spelled like a
    local hoisted out of an if in another helper"""
    return top and any((f[2] if len(f) > 2 else "if") in ("for", "while") and any(g[0] == f[0] and (g[2] if len(g) > 2 else "if") in ("if", "elif") for g in fns if g is not f) for f in fns)


def function_hoists(ctx):
    """locals first assigned in both arms of an if (all arms of an if/elif/else, the body of a for / while) inside helper functions: the hoisted
    declaration takes the type the local has in THAT body (per function and per call-signature specialisation), whatever other scopes hoisted a
    name spelled the same before (a local spelled like a module-level name is C01's K01j and is not generated here)"""
    import random
    rng = ctx.rng
    head = "from Reduino.Communication import SerialMonitor\nmon = SerialMonitor(9600)\n"
    ARMS = HOIST_ARMS
    cases = []
    shape = []                                          # per case: K02f's shape?
    pinned = [(True, [("t", "param"), ("t", "str")], ["int", "float"]), (True, [("t", "float"), ("t", "int")], ["int"]), (False, [("t", "param"), ("t", "str")], ["int", "float"]),
              (True, [("t", "str"), ("t", "param")], ["float", "int"]), (True, [("q", "int"), ("t", "parf"), ("t", "int")], ["int"])]
    for k in range(ctx.n(40, 300) + len(pinned)):
        if k < len(pinned):
            top, fns, kinds = pinned[k]
        else:
            top = rng.random() < 0.7
            fns = [(rng.choice(["t", "t", "q"]), rng.choice(list(ARMS))) for _ in range(rng.randint(1, 3))]
            kinds = rng.choice([["int"], ["float"], ["int", "float"], ["float", "int"]])
        cases.append(hoist_script(head, top, fns, kinds))
        shape.append(False)
    # second stream (its own generator: the draws above stay what they were): numeric locals only — a str local sharing a numeric local's name does not
    # compile under any confusion and would hide the silent narrowing —, every hoisting construct, mostly a top-level hoist first, names re-used a lot
    frng = random.Random(f"{ctx.seed}:C02:hoist-forms")
    for k in range(ctx.n(50, 400) + len(HOIST_PINNED_2)):
        if k < len(HOIST_PINNED_2):
            top, fns, kinds = HOIST_PINNED_2[k]
        else:
            top = frng.random() < 0.85
            forms = frng.choice([["if"], ["if"], ["if", "elif"], ["if", "elif", "for", "while"], ["for", "while"]])
            fns = [(frng.choice(["t", "t", "q"]), frng.choice(["int", "float", "param", "param", "parf"]), frng.choice(forms)) for _ in range(frng.randint(1, 4))]
            kinds = frng.choice([["int"], ["float"], ["int", "float"], ["int", "float"], ["float", "int"]])
        cases.append(hoist_script(head, top, fns, kinds))
        shape.append(loop_after_if(top, fns))
    # recursive helpers whose recursive call permutes differently typed arguments: every typed variant reachable from the call sites is needed
    for body, calls in [
        ("def mix(x, y, d):\n    if d > 0:\n        return mix(y, x, d - 1)\n    return x + y\n", ["mix(1, h, 3)", "mix(1, h, 2)", "mix(h, 1, 1)", "mix(2, 3, 1)"]),
        ("def rot(x, y, z, d):\n    if d > 0:\n        return rot(y, z, x, d - 1)\n    return x * 100 + y * 10 + z\n", ["rot(1, h, 3, 1)", "rot(1, h, 3, 2)", "rot(1, 2, h, 4)"]),
        ("def down(x, d):\n    if d > 0:\n        return down(x * h, d - 1)\n    return x\n", ["down(8, 2)", "down(wi, 1)", "down(h, 3)"]),
        ("def pick(a, b, d):\n    t = a + b\n    if d > 0:\n        t = pick(b, a, d - 1)\n    return t\n", ["pick(1, h, 1)", "pick(1, h, 2)", "pick(h, 1, 1)"]),
        # the result of the recursive call (wider than the int arguments) is FIRST kept in a local, or handed on to another helper
        ("def grow(x, d):\n    if d == 0:\n        return x * 0.5\n    t = grow(x, d - 1)\n    return t + 1\n", ["grow(3, 2)", "grow(h, 2)", "grow(wi, 1)", "grow(3, 0)"]),
        ("def half(v):\n    return v * 0.5\ndef chain(d):\n    if d == 0:\n        return 3.0\n    return half(chain(d - 1))\n", ["chain(2)", "chain(1)", "chain(0)", "half(3)"]),
        ("def mean_down(d):\n    if d == 1:\n        return 1.0\n    rest = mean_down(d - 1)\n    rest = rest + d\n    return rest * 0.5\n", ["mean_down(3)", "mean_down(1)", "mean_down(wi)"]),
        ("def acc(x, d):\n    if d == 0:\n        return x / 4.0\n    part = acc(x, d - 1)\n    total = part + x\n    return total\n", ["acc(2, 2)", "acc(wi, 1)", "acc(h, 1)"]),
        ("def twice(v):\n    return v + v\ndef walk(d):\n    if d == 0:\n        return 0.25\n    inner = walk(d - 1)\n    return twice(inner)\n", ["walk(3)", "walk(0)", "twice(2)"]),
    ]:
        for k in range(1, len(calls) + 1):
            for sel in ([calls[:k]] if k < len(calls) else [calls, calls[::-1]]):
                lines = ["h = 2.5", "wi = 3"] + body.rstrip("\n").split("\n")
                for j, c in enumerate(sel):
                    lines += [f"r{j} = {c}", f"mon.write(r{j})"]
                cases.append(head + "\n".join(lines) + "\n")
                shape.append(False)
    outs = [cxx.transpile(s) for s in cases]
    it = iter(cxx.run_many(ctx, [(cpp, 0, "") for cpp, e in outs if cpp is not None]))
    for src, (cpp, exc), k02f in zip(cases, outs, shape):
        replay = {"script": src}
        if cpp is None:
            ctx.count("function-hoist:rejected")
            continue
        res = next(it)
        ctx.case(src, nontrivial=True)
        if res.compile_error:
            ctx.fail("types:function-hoisted-local-does-not-compile", res.compile_error[:300], replay)
            continue
        ev, err = pyoracle.run_script(src, 0)
        if err is not None:
            ctx.tie_diff("generator invariant (scripts run under CPython)", replay, repr(err), "")
            continue
        ctx.cov["traces_validated_against_impl"] += 1
        ctx.count("function-hoist:compared" + (":loop-hoist-after-if-hoist-of-the-same-name" if k02f else ""))
        py = [t for t in writes(ev)]
        fw = [t for t in writes(pyoracle.fw_events(res.trace))]
        def eq(a, b):
            try:
                return same(num_of_py(a), num_of_fw(b))
            except Exception:  # noqa: BLE001  (text values)
                return a == b
        if len(py) != len(fw) or not all(eq(a, b) for a, b in zip(py, fw)):
            bad = next(((a, b) for a, b in zip(py, fw) if not eq(a, b)), (len(py), len(fw)))
            key = "types:function-recursive-variant" if "d - 1" in src else "types:function-loop-hoisted-local-after-if-hoist" if k02f else "types:function-hoisted-local"
            ctx.fail(key, f"firmware prints {bad[1]!r} where Python prints {bad[0]!r}", replay)


# ---- W8: helper functions in the type-assignment model (Lang/TypesFun.lean, Props/C02Fun.lean) -------------------------------------------
FN_DEF_RE = re.compile(r"^(\w+) fn\(([^)]*)\) \{\n(.*?)^\}", re.M | re.S)
FN_LOCAL_RE = re.compile(r"^\s+(int|float|bool|String)\s+(\w+)\s*(=|;)", re.M)
LIT = {"int": lambda v: ("i", v), "float": lambda v: ("f", v), "bool": lambda v: ("b", v)}


def model_val(txt):
    if txt == "none":
        return None
    if txt.startswith("i"):
        return int(txt[1:])
    if txt.startswith("f"):
        return struct.unpack(">d", bytes.fromhex(txt[1:]))[0]
    if txt.startswith("b"):
        return 1 if txt == "bT" else 0
    return bytes.fromhex(txt[2:]).decode()


def fn_sexp(ps, body, rets):
    return f"(fn (ps {' '.join(ps)}) (p {tygen.sx_block(body)}) (rets {' '.join(tygen.sx_e(r) for r in rets)}))"


def fn_source(ps, body, rets):
    lines = ["def fn(" + ", ".join(ps) + "):"] + (tygen.py_block(body, 1) if body else [])
    for j, r_ in enumerate(rets[:-1]):
        lines += [f"    if k == {j}:", f"        return {tygen.py_e(r_)}"]
    lines.append(f"    return {tygen.py_e(rets[-1])}")
    return lines


def gen_helper(rng):
    """a helper in structured form with 1-3 typed parameters + the selector `k` (which return is reached), stable under `sig` by construction:
    kept mode never assigns a parameter; rebind mode first re-binds parameters to a wider or the same type (the resolved type is the last one)"""
    g = tygen.TyGen(rng, builtins=rng.random() < 0.3)
    np_ = rng.randint(1, 3)
    ps = ["u", "v", "w"][:np_]
    sig = [rng.choice(["int", "float", "bool"]) for _ in ps]
    sc = {"int": ["k"], "float": [], "bool": [], "str": []}
    for p_, t in zip(ps, sig):
        sc[t] = sc[t] + [p_]
    mode = "kept" if rng.random() < 0.6 else "rebind"
    body = []
    if mode == "rebind":
        order = rng.sample(ps, rng.randint(1, len(ps)))
        for i_, p_ in enumerate(order):
            cur = next(c for c in ("int", "float", "bool") if p_ in sc[c])
            to = rng.choice({"int": ["int", "float", "float"], "float": ["float"], "bool": ["bool", "int", "float"]}[cur])
            # the definition types a parameter with its LAST type everywhere: an expression may read only parameters that already have it
            later = set(order[i_ + 1:]) | ({p_} if to != cur else set())
            e = g.expr(to, {c: [n for n in sc[c] if n not in later] for c in sc})
            if rng.random() < 0.6 and to != "bool":       # `p = p * 0.5`, `p = p + 1`: the usual shape
                e = (rng.choice(["add", "mul", "sub"]), ("v", p_), ("f", rng.choice(tygen.FLOATS)) if to == "float" else ("i", rng.randint(1, 4)))
            body.append(("as", p_, e))
            sc[cur] = [n for n in sc[cur] if n != p_]
            sc[to] = sc[to] + [p_]
    for name in ["s", "t"][:rng.randint(0, 2)]:
        c = rng.choice(["int", "float", "bool"])
        body.append(("as", name, g.expr(c, sc)))
        sc[c] = sc[c] + [name]
        if rng.random() < 0.3:
            body.append(("as", name, g.expr(c, sc)))
    rets = [g.expr(rng.choice(["int", "float", "bool"]), sc) for _ in range(rng.randint(1, 3))]
    return ps + ["k"], sig, mode, body, rets


def arg_value(rng, t):
    return {"int": lambda: rng.randint(-9, 9), "float": lambda: rng.choice(tygen.FLOATS + [-0.75, -2.5]), "bool": lambda: rng.random() < 0.5}[t]()


# pinned: the witnesses of Props/C02Fun.lean on the real transpiler (ps, body, rets, argument types, argument values, theorem)
FN_WITNESSES = [
    (["v", "k"], [("as", "v", ("mul", ("v", "v"), ("f", 0.5)))], [("v", "v")], ["int"], [3], "param_widening_rebinding_is_sound"),
    (["v", "k"], [("as", "v", ("mul", ("v", "v"), ("f", 0.5))), ("as", "w", ("v", "v")), ("as", "v", ("i", 1))], [("add", ("v", "w"), ("v", "v"))], ["int"], [3],
     "param_rebinding_counterexample"),
    (["v", "k"], [("as", "w", ("v", "v")), ("as", "v", ("i", 1))], [("add", ("v", "w"), ("v", "v"))], ["float"], [2.5], "argument_narrowed_at_call_counterexample"),
    (["v", "k"], [("as", "t", ("v", "v")), ("as", "v", ("mul", ("v", "v"), ("f", 0.5)))], [("add", ("v", "t"), ("v", "v"))], ["float"], [2.5], "primary_parse_body_counterexample"),
    (["v", "k"], [], [("s", "a"), ("i", 1)], ["int"], [3], "conflicting_return_types_rejected"),
]


def function_variants(ctx):
    """tie "function variants (Lang.Ty2 call model vs emitted prototypes and printed results)": helpers in structured form, called with int / float /
    bool VARIABLES; the model's variant (parameter types, local types, result type) against every emitted definition of `fn`, the model's Python
    result against CPython and the model's C++ result against the compiled firmware, for the return statement each call reaches"""
    rng = ctx.rng
    TIE = "tie function variants (Lang.Ty2 call model vs emitted prototypes and printed results)"
    head = "from Reduino.Communication import SerialMonitor\nmon = SerialMonitor(9600)\n"
    helpers = [gen_helper(rng) for _ in range(ctx.n(40, 400))]
    # round 1: which other call signatures keep a kept-mode helper stable (the generator only guarantees its own)
    cand = []
    for ps, sig, mode, body, rets in helpers:
        alts = []
        if mode == "kept":
            for _ in range(2):
                alt = [rng.choice(["int", "float", "bool"]) for _ in sig]
                if alt != sig and alt not in alts:
                    alts.append(alt)
        cand.append(alts)
    reqs = [f"ty|fun|{fn_sexp(ps, body, rets)}|(args {' '.join(tygen.sx_e(LIT[t](arg_value(rng, t))) for t in alt)} (i 0))"
            for (ps, sig, mode, body, rets), alts in zip(helpers, cand) for alt in alts]
    ans = iter(ctx.lean.drive(reqs)) if reqs else iter([])
    plans = []
    for (ps, sig, mode, body, rets), alts in zip(helpers, cand):
        sigs = [sig]
        for alt in alts:
            a = fields(next(ans))
            if a.get("stable") == "T" and a.get("ret") != "reject":
                sigs.append(alt)
        plans.append((ps, sigs, mode, body, rets, None))
    for ps, body, rets, sig, vals, thm in FN_WITNESSES:
        plans.append((ps, [sig], "witness", body, rets, (vals, thm)))
    # round 2: scripts and one model request per call
    srcs, reqs2, calls_of = [], [], []
    for ps, sigs, mode, body, rets, wit in plans:
        lines = fn_source(ps, body, rets)
        calls, declared = [], set()
        for sig in sigs:
            sels = list(range(len(rets))) if sig is sigs[0] else [rng.randrange(len(rets))]
            for sel in sels + ([rng.randrange(len(rets))] if wit is None else []):
                vals = wit[0] if wit is not None else [arg_value(rng, t) for t in sig]
                names = [f"a{j}{t[0]}" for j, t in enumerate(sig)]
                for n_, t, v in zip(names, sig, vals):
                    lines.append(f"{n_} = {tygen.py_e(LIT[t](v))}")
                r_ = f"r{len(calls)}"
                lines += [f"{r_} = fn({', '.join(names + [str(sel)])})", f"mon.write({r_})"]
                reqs2.append(f"ty|fun|{fn_sexp(ps, body, rets)}|(args {' '.join(tygen.sx_e(LIT[t](v)) for t, v in zip(sig, vals))} (i {sel}))")
                calls.append((sig, sel))
        srcs.append(head + "\n".join(lines) + "\n")
        calls_of.append(calls)
    model = iter(ctx.lean.drive(reqs2))
    outs = [cxx.transpile(s_) for s_ in srcs]
    it = iter(cxx.run_many(ctx, [(cpp, 0, "") for cpp, e in outs if cpp is not None]))
    for (ps, sigs, mode, body, rets, wit), src, calls, (cpp, exc) in zip(plans, srcs, calls_of, outs):
        ms = [fields(next(model)) for _ in calls]
        replay = {"script": src, "model": [" ".join(f"{k}={v}" for k, v in m.items()) for m in ms][:4]}
        ctx.case(src, nontrivial=True)
        ctx.count(f"function-variant:{mode}:{len(sigs)}-signature(s)")
        res = next(it) if cpp is not None else None
        if any(m.get("ret") == "reject" for m in ms) or cpp is None:
            real = "reject:" + (f"{type(exc).__name__}:{exc}" if cpp is None else "accepted")
            want = "reject:ValueError:conflicting return types" if any(m.get("ret") == "reject" for m in ms) else "accepted"
            ctx.count("function-variant:rejected (conflicting return types)")
            if real != want:
                ctx.tie_diff(TIE, replay, want, real)
            continue
        if wit is None and not all(m.get("stable") == "T" for m in ms):
            ctx.tie_diff("generator invariant (generated helpers are FunStable in the model)", replay, str([m.get("stable") for m in ms]), "")
            continue
        # prototypes: every emitted definition of fn is the model's variant of one of the call signatures, and every variant is emitted
        want_defs = {(m["ret"], tuple(m["params"].split(","))): dict(kv.split(":") for kv in m.get("locals", "").split(",") if ":" in kv) for m in ms}
        got_defs = {}
        for mdef in FN_DEF_RE.finditer(cpp):
            ptypes = tuple(x.strip().split(" ")[0] for x in mdef.group(2).split(",") if x.strip())
            got_defs[(mdef.group(1), ptypes)] = {m_.group(2): m_.group(1) for m_ in FN_LOCAL_RE.finditer(mdef.group(3))}
        if got_defs != want_defs:
            ctx.tie_diff(TIE, replay, f"definitions {sorted(want_defs.items())}", f"definitions {sorted(got_defs.items())}")
        if res.compile_error:
            ctx.fail("types:function-variant-does-not-compile", res.compile_error[:300], replay)
            continue
        ev, err = pyoracle.run_script(src, 0)
        if err is not None:
            ctx.tie_diff("generator invariant (scripts run under CPython)", replay, repr(err), "")
            continue
        ctx.cov["traces_validated_against_impl"] += 1
        pyv = [num_of_py(t) for t in writes(ev)]
        fwv = [num_of_fw(t) for t in writes(pyoracle.fw_events(res.trace))]
        if len(pyv) != len(calls) or len(fwv) != len(calls):
            ctx.tie_diff(TIE, replay, f"{len(calls)} results", f"CPython {len(pyv)}, firmware {len(fwv)}")
            continue
        differs = False
        for (sig, sel), m, a, b in zip(calls, ms, pyv, fwv):
            mpy, mc = model_val(m["py"].split(";")[sel]), model_val(m["c"].split(";")[sel])
            ctx.count("function-variant:call:" + ",".join(sig) + "->" + m["ret"])
            if isinstance(a, int) and abs(a) > 2147483647:
                break
            if mpy is None or not same(mpy, a):
                ctx.tie_diff(TIE + " [Python result]", replay, f"fn{sig} return #{sel} = {mpy!r}", f"{a!r}")
            if mc is None or not same(mc, b):
                ctx.tie_diff(TIE + " [C++ result]", replay, f"fn{sig} return #{sel} = {mc!r}", f"{b!r}")
            if not same(a, b):
                differs = True
                if wit is None:
                    ctx.fail("types:function-variant-stable-helper-differs", f"firmware returns {b!r} where Python returns {a!r} from a helper that is FunStable in the model", replay)
        if wit is not None:
            # the machine-checked witnesses: what Python and the device return is what the theorem says (value ties above); the divergence itself
            # is a C02 violation of the unchanged tree reported with W8 (not yet in KNOWN_FINDINGS.json), so it is counted here, not failed
            ctx.count(f"function-variant:witness:{wit[1]}:" + ("device-differs-from-Python-as-proved" if differs else "agrees"))
            if differs and "counterexample" in wit[1]:
                # a genuine C02 violation of the unchanged tree, proved as `Props.C02Fun.<name>` and recorded as known finding K02g (key per witness)
                ctx.fail(f"types:function-variant-witness:{wit[1]}", f"firmware returns {b!r} where Python returns {a!r} (the machine-checked witness {wit[1]})", replay)
            expect_diff = "counterexample" in wit[1]
            if differs != expect_diff:
                ctx.tie_diff(TIE + " [witness]", replay, f"{wit[1]}: differs={expect_diff}", f"differs={differs}")


def run(ctx: Ctx) -> int:
    ctx.prove(["Reduino.Props.C02", "Reduino.Props.C02Fun", "Reduino.GenOb.Types"])
    common.fresh_import()
    rng = ctx.rng
    progs = gen_programs(ctx)
    srcs = [tygen.py_source(p) for p, _, _ in progs]
    reqs = []
    for (p, hz, straight), src in zip(progs, srcs):
        reqs.append(f"ty|decl|{tygen.sx_tree(p)}")
        reqs.append(f"ty|run|{tygen.sx_flat(p)}|all" if straight else "ty|merge|int")
    model = ctx.lean.drive(reqs)
    outs = [cxx.transpile(s) for s in srcs]
    jobs = [(cpp, 1, "") for cpp, e in outs if cpp is not None]
    it = iter(cxx.run_many(ctx, jobs))
    for k, ((p, hz, straight), src, (cpp, exc)) in enumerate(zip(progs, srcs, outs)):
        mdecl, mrun = fields(model[2 * k]), fields(model[2 * k + 1])
        replay = {"script": src, "hazard": hz}
        stable = mdecl.get("stable") == "T"
        ctx.count(f"program:{'stable' if stable else 'unstable'}:{(hz or 'none').split(':')[0]}")
        for fn in ("abs", "min", "max", "int", "float", "bool"):
            if re.search(r"\b" + fn + r"\(", src):
                ctx.count("builtin-call:" + fn + (":straight" if straight else ""))
        ctx.case(src, nontrivial=True, sample={"script": src, "model": model[2 * k][:200]} if len(ctx.cov["samples"]) < 2 else None)
        if hz is None and not stable:
            ctx.tie_diff("generator invariant (hazard-free programs are TypeStable in the model)", replay, model[2 * k], "")
        if cpp is None:
            ctx.count("rejected")
            continue
        res = next(it)
        if res.compile_error:
            if stable:
                ctx.fail("types:stable-program-does-not-compile", res.compile_error[:300], replay)
            continue
        ctx.cov["traces_validated_against_impl"] += 1
        # T: declared types
        want = dict(kv.split(":") for kv in mdecl.get("decl", "").split(",") if ":" in kv)
        got = {m.group(2): m.group(1) for m in DECL_RE.finditer(cpp)}
        diff = {n: (want[n], got.get(n)) for n in want if got.get(n) != want[n] and not re.fullmatch(r"k\d+", n)}      # k<n>: for variables, declared in the for header
        if diff:
            ctx.tie_diff("tie T (declareT vs declared C++ types in the emission)", replay, str(diff), "")
        # E: CPython vs firmware
        ev, err = pyoracle.run_script(src, 1)
        if err is not None:
            ctx.tie_diff("generator invariant (scripts run under CPython)", replay, repr(err), "")
            continue
        pyv = [num_of_py(t) for t in writes(ev)]
        fwv = [num_of_fw(t) for t in writes(pyoracle.fw_events(res.trace))]
        # a Python int outside the 32-bit range of the host compiler's `int` is outside the side condition (trusted base):
        # compare only up to the first such value (what follows may depend on the wrapped value)
        cut = next((i for i, v in enumerate(pyv) if isinstance(v, int) and not isinstance(v, bool) and abs(v) > 2147483647), None)
        if cut is not None:
            ctx.count("int-range-exceeded (outside the side condition)")
            same_len = len(pyv) == len(fwv)
            pyv, fwv = pyv[:cut], fwv[:cut]
            if not same_len:
                continue
        agree = len(pyv) == len(fwv) and all(same(a, b) for a, b in zip(pyv, fwv))
        if straight and "py" in mrun and cut is None:
            names = [s[1] for s in p["pre"] if s[0] == "wr"]
            mpy, mc = model_store(mrun["py"]), model_store(mrun["c"])
            # the last write of each name is its final value
            final_py = {n: v for n, v in zip(names, pyv)}
            final_fw = {n: v for n, v in zip(names, fwv)} if len(fwv) == len(names) else {}
            last = {n: i for i, n in enumerate(names)}
            for n, i in last.items():
                if mpy is not None and n in mpy and not same(mpy[n], pyv[i]):
                    ctx.tie_diff("tie S_py (model Python store vs CPython)", replay, f"{n}={mpy[n]!r}", f"{n}={pyv[i]!r}")
                if mc is not None and final_fw and n in mc and not same(mc[n], fwv[i]):
                    ctx.tie_diff("tie S_c (model C++ store vs compiled firmware)", replay, f"{n}={mc[n]!r}", f"{n}={fwv[i]!r}")
        if hz == "builtin-float-result":
            ctx.count("builtin-float-result:" + ("firmware-differs" if not agree else "agrees (the int operand wins or the value is integral)"))
        if not agree:
            bad = next(((a, b) for a, b in zip(pyv, fwv) if not same(a, b)), (len(pyv), len(fwv)))
            what = f"firmware prints {bad[1]!r} where Python prints {bad[0]!r}"
            if stable:
                ctx.fail("types:stable-program-differs", what + " in a program every name of which only ever receives one type", replay)
            elif diff:
                # the declarations are not the ones the model of the CURRENT rules predicts: not one of the recorded consequences of those rules
                ctx.fail("types:declared-types-changed:" + (hz or "unstable").split(":")[0], what + f"; declared types differ from the modelled rules: {diff}", replay)
            else:
                ctx.fail("types:" + (hz or "unstable").split(":")[0], what, replay)
    functions(ctx)
    function_hoists(ctx)
    function_variants(ctx)
    # function results: join of all return expressions
    lits = {"int": "1", "float": "2.5", "bool": "True", "String": '"s"'}
    combos = [c for n in (1, 2, 3) for c in itertools.product(lits, repeat=n)]
    mm = ctx.lean.drive([f"ty|merge|{' '.join(c)}" for c in combos])
    fsrcs = []
    for c in combos:
        body = "".join(f"    if k == {j}:\n        return {lits[t]}\n" for j, t in enumerate(c[:-1])) + f"    return {lits[c[-1]]}\n"
        fsrcs.append("from Reduino.Communication import SerialMonitor\nmon = SerialMonitor(9600)\ndef pick(k):\n" + body + f"r = pick({len(c) - 1})\nmon.write(r)\n")
    fouts = [cxx.transpile(s) for s in fsrcs]
    for c, m, src, (cpp, exc) in zip(combos, mm, fsrcs, fouts):
        ctx.count("merge:" + m)
        ctx.case(src, nontrivial=True)
        real = "reject" if cpp is None else (re.search(r"^(\w+) pick\(", cpp, re.M) or [None, "?"])[1]
        if real != m:
            ctx.tie_diff("tie mergeReturn (model vs emitted return type)", {"script": src}, m, real)
    ctx.cov["rule"] = ("random block-structured scripts over bool/int/float/str names with builtin calls abs/min/max/int/float/bool among the expressions "
                       "(40% with one injected re-typing hazard, 35% straight-line), a stream where half of the compound expressions are builtin calls "
                       "(every third program with a float operand to abs/min/max), plus two programs per hazard kind, plus every order of 2-3 "
                       "differently-typed assignments to one name at top level / in a branch / in a loop, plus every return-type combination up to 3 returns; "
                       "each compiled and run for one pass against CPython; helper functions: parameter re-binding / return joins (`functions`), locals hoisted out of "
                       "if/else, if/elif/else, for, while in 1-4 helpers that re-use two local names with int / float / parameter-typed values, called with int and "
                       "float variables in both orders (pinned narrower-first / wider-first orders + two random streams), recursive typed variants, plus helpers in structured form (1-3 typed parameters, locals, 1-3 returns of mixed types, parameters kept or re-bound wider) called with int/float/bool variables (function-variants tie, W8)")
    return ctx.finish(TRUSTED, search=None)
