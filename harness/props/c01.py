"""C01 — reject-or-preserve for the core language.

Proof: lean/Reduino/Props/C01.lean: translation correctness of `tr` / `tr2` on the core fragment (Python semantics of the
source = C semantics of the emitted program, every N; strict reading of `/` and `%`, see TRUSTED).
Ties: T (text rendered from the model's `tr` vs the real emit(parse(...))), S_py (model Python semantics vs CPython),
S_c (model C semantics vs the compiled sketch).  Oracle E: CPython trace vs compiled-firmware trace of the same script,
on the fragment (since W6 with helper functions called at statement level) and on a stream of constructs just outside it (helper calls inside expressions, lists, comprehensions, f-strings, tuple assignments
whose right-hand sides have side effects or reach the targets through helper functions reading / writing globals)."""
from __future__ import annotations

import common
import cxx
import devscript as ds
import langgen
import pyoracle
from common import Ctx

TRUSTED = [
    "Lean 4.33 kernel; axioms ⊆ {propext, Classical.choice, Quot.sound}",
    "fragment: int/bool values, + - *, bitwise & | ^, // and %, abs(e), min/max over int-typed operands (n-ary calls = left fold), unary minus, comparisons, "
    "and/or/not over bools, conditional expressions, assignment, augmented assignment (every operator), tuple assignment to already declared names of "
    "the right-hand sides' types (W5), if/elif/else, while, for-range, break, serial write "
    "of ints and strings, sleep; names first assigned at top level or (tr2) one block below it; lists, floats, / ** << >> and `continue` are "
    "outside the theorem and exercised only by the end-to-end oracle",
    "helper functions (W6): `def`s before the prologue, called at statement level (`f(args)`, `x = f(args)` with x declared), int/bool/string parameters and one "
    "signature per helper, body over parameters and locals only (locals first assigned at the top level of the body, parameters never assigned, no tuples, no "
    "module-level names), at most one trailing return, earlier helpers only (no recursion).  The call statement of the model CARRIES the called definition "
    "(the driver fills it in from the `defs` list: `Prog.resolve`; `tr` checks `Prog.resolved`); the model's frame is fresh, so a module-level name in a body is a "
    "NameError of the model (CPython would read it: such scripts are not generated; K01j is the known defect about writes).  Emitted signature as MEASURED: the "
    "def-time parse types every parameter int, only `x = f(args)` requests the argument types, a call statement requests nothing (`Prog.sigsOk`: a helper never "
    "called with a target has all-int parameters; `funCallsStable`: value calls inside a body request the same types under both parses); prototypes only when "
    "more than one definition is emitted.  T compares prototypes, definitions (local declarations at first assignment, return) and call lines; S_py / S_c tie the "
    "call semantics of the model to CPython and g++.  C06's `wf`/`Closed` do not cover sketches with calls yet (g++ compiles each generated one in S_c)",
    "text (W13): string literals of printable ASCII, string-typed names (declaration, assignment, tuple assignment, promotion), conditional expressions over "
    "strings, str(e) of int-/string-typed e (emitted String(e)), + on two strings (literal left operand emitted as String(\"...\"); s += e), f-strings (the generator prints f\"..\" and sends the model the left fold "
    "of + over the parts that `_to_c_expr` emits for a JoinedStr — a formatted value is String(e), a plain f-string a literal; T ties that reading to the emitted text, "
    "S_py to CPython's formatting), serial lines compared as TEXT (the model prints an int with Lean's `toString`, the mock core with std::to_string, CPython with str); the model's "
    "`String` is a list of characters with `+` = append (tied to the mock core's String by S_c); strings in conditions / counts / arithmetic / comparisons are "
    "outside `InF`; a bool reaching `mon.write` is a `typeError` of the model's Python side (K01f), so no theorem speaks about such a run",
    "`//` and `%`: the theorem is about the STRICT reading of the C semantics, which stops with `signedDiv` at a `/` or `%` with a negative dividend or divisor "
    "(there C and Python may differ: K01b, K01c); runs that stop there are not compared in the strict S_c tie, but the RAW reading (C's truncating operators) is "
    "tied to g++ on every run, and a CPython-vs-firmware difference in such a run is reported under core:floor-division-negative / core:modulo-negative; "
    "a zero divisor: CPython raises (run skipped as python-raises), the model's raw run reports it and the host firmware dies with SIGFPE",
    "tuple assignment: the source tree carries the parser's `tmp_counter` at each tuple statement; the driver computes it (`Prog.renum`: loop bodies hand the "
    "counter back, `if` branches do not, the main loop continues after the prologue) and T compares the resulting `__tmp_assign_N` names with the emitted text; "
    "the C model ends the lifetime of the temporaries with the statement (C++: end of the block; no emitted statement reads them later, `WF.stmtOk`); a first "
    "assignment by tuple (all-new-at-global-scope form, local declarations of F17) is `outside-fragment` for the model and exercised by E only",
    "bitwise operators on negative ints: the model's own two's-complement definitions (bitAnd/bitOr/bitXor over Nat operations), tied to CPython and g++ by S_py / S_c",
    "abs/min/max: the model evaluates the chosen operand once, the Arduino macros twice (expressions of the fragment are pure)",
    "C int modelled as an unbounded integer with a 32-bit range check (`overflow`): 16-bit AVR int is a side condition the model does not check",
    "W14 list comprehension over range(a, b, s): `Fw/ListRange.lean` mirrors the helper template's counting walk and bound-checked fill walk (theorems for all a, b and s ≠ 0: "
    "the block holds exactly Python's range, no store outside it); C int unbounded there too (`exit_value_up/down`: no value beyond stop + step is computed), the lambda body a pure "
    "Int → Int (tied with affine bodies m*t + c, element type int); step 0: helper returns the empty list where CPython raises ValueError (counted, no oracle verdict)",
    "helper calls INSIDE expressions are outside the model: a tuple assignment whose values call helpers that read or write the globals being re-bound (all values before any "
    "store) is checked by E only, on pinned and random scripts (`helper_tuple_scripts`)",
    "harness/langgen.py printers (Python text and S-expression of one tree), harness/pyoracle.py (CPython + host modules), mock core + host g++",
]

FUEL = 4000
OPS_COUNTED = ["band", "bor", "bxor", "abs", "min", "max", "fdiv", "fmod"]


V = lambda x: ("v", x)
I = lambda n: ("i", n)
# W5: pinned tuple-assignment programs of the fragment (through T, S_py, S_c and E like the generated ones): Fibonacci in prologue and main
# loop; swaps / rotations in nested blocks; the counter threading of the temporaries (branches of an `if` restart from the parent's
# counter and do not hand it back, loop bodies do, the main loop continues after the prologue)
FIXED_TUPLES = [
    {"pre": [("as", "a", I(0)), ("as", "b", I(1)), ("tup", ["a", "b"], [V("b"), ("bin", "add", V("a"), V("b"))]), ("wr", V("a"))],
     "loop": [("tup", ["a", "b"], [V("b"), ("bin", "add", V("a"), V("b"))]), ("wr", V("a")), ("wr", V("b"))]},
    {"pre": [("as", "a", I(1)), ("as", "b", I(2)), ("as", "c", I(3)), ("as", "p", ("b", False)), ("as", "q", ("b", True)),
             ("if", ("cmp", "lt", V("a"), V("b")), [("tup", ["a", "b"], [V("b"), V("a")]), ("tup", ["p", "q"], [V("q"), V("p")])],
              [("tup", ["a", "b", "c"], [V("c"), V("a"), V("b")])]),
             ("tup", ["c", "a"], [V("a"), V("c")]),
             ("for", "i1", I(3), [("tup", ["a", "b", "c"], [V("b"), V("c"), ("bin", "add", V("a"), V("i1"))]), ("wr", V("a"))]),
             ("tup", ["a", "p"], [("bin", "mul", V("b"), I(2)), ("cmp", "gt", V("a"), V("c"))]),
             ("wr", V("a")), ("wr", V("b")), ("wr", V("c"))],
     "loop": [("if", V("p"), [("tup", ["a", "b"], [V("b"), V("a")])], [("if", V("q"), [("tup", ["b", "c"], [V("c"), V("b")])], [("tup", ["p", "q"], [("not", V("p")), V("p")])])]),
              ("tup", ["p", "q"], [V("q"), V("p")]), ("wr", V("a")), ("wr", V("b")), ("wr", V("c"))]},
    {"pre": [("as", "a", I(5)), ("as", "b", I(8)), ("as", "n1", I(0)),
             ("while", ("cmp", "lt", V("n1"), I(3)), [("aug", "n1", "add", I(1)), ("if", ("cmp", "gt", V("a"), V("b")), [("tup", ["a", "b"], [("bin", "sub", V("a"), V("b")), V("b")])], [("tup", ["b", "a"], [("bin", "sub", V("b"), V("a")), V("a")])]),
                                                    ("tup", ["a", "b"], [("bin", "add", V("a"), I(1)), ("bin", "add", V("b"), V("n1"))])]),
             ("tup", ["a", "b"], [V("b"), V("a")]), ("wr", V("a")), ("wr", V("b"))],
     "loop": None},
]


# W6: pinned programs with helper functions (procedure, value-returning helpers of every type, a helper calling an earlier one, calls in
# nested blocks and in the main loop, locals declared at the top level of the body, loops and `break` inside a body)
FIXED_HELPERS = [
    {"helpers": [
        {"name": "shout", "params": [("v", "int")], "body": [("wr", V("v")), ("sl", I(5))], "ret": None, "rty": None},
        {"name": "scale", "params": [("v", "int"), ("flag", "bool")],
         "body": [("as", "t", ("bin", "mul", V("v"), I(2))), ("if", V("flag"), [("as", "t", ("bin", "add", V("t"), I(1)))], []),
                  ("as", "k", I(0)), ("while", ("cmp", "lt", V("k"), I(2)), [("aug", "t", "add", V("k")), ("aug", "k", "add", I(1))]),
                  ("call", None, "shout", [V("t")])], "ret": V("t"), "rty": "int"},
        {"name": "lab", "params": [("z", "string"), ("n", "int")], "body": [("as", "r", ("bin", "add", V("z"), ("str", V("n"))))], "ret": V("r"), "rty": "string"},
        {"name": "big", "params": [("n", "int")], "body": [("as", "g", ("cmp", "gt", V("n"), I(20)))], "ret": ("or", V("g"), ("cmp", "lt", V("n"), I(0))), "rty": "bool"}],
     "pre": [("as", "a", I(0)), ("as", "p", ("b", False)), ("as", "s", ("s", "a")), ("call", "a", "scale", [I(4), ("b", True)]), ("call", None, "shout", [V("a")]),
             ("call", "s", "lab", [("s", "q"), V("a")]), ("wr", V("s")), ("call", "p", "big", [V("a")]),
             ("if", V("p"), [("call", None, "shout", [I(1)])], [("call", "a", "scale", [V("a"), V("p")])])],
     "loop": [("call", "a", "scale", [V("a"), ("b", False)]), ("call", None, "scale", [I(1), ("b", True)]), ("call", "p", "big", [V("a")]),
              ("for", "i1", I(2), [("call", None, "shout", [("bin", "add", V("i1"), I(0))])])]},
    {"helpers": [
        {"name": "count", "params": [("n", "int"), ("stop", "int")],
         "body": [("as", "acc", I(0)), ("for", "j1", V("n"), [("if", ("cmp", "eq", V("j1"), V("stop")), [("brk",)], []), ("aug", "acc", "add", V("j1")), ("wr", V("acc"))])],
         "ret": ("bin", "add", V("acc"), I(100)), "rty": "int"}],
     "pre": [("as", "a", I(3)), ("call", "a", "count", [I(5), V("a")]), ("wr", V("a")), ("call", None, "count", [I(2), I(9)])],
     "loop": None},
]


def ev_str(evs):
    return ",".join(("w" + str(v)) if k == "w" else ("d" + str(int(v))) for k, v in evs)


OUTSIDE = [
    # (key, description, source)  — one construct outside the proven fragment each (`//`, `%` are modelled since W1: the two scripts are
    # the pinned witnesses of K01b / K01c, where the theorem's strict C run stops with `signedDiv`)
    ("core:continue-dropped", "continue", "n = 0\nwhile n < 4:\n    n += 1\n    if n == 2:\n        continue\n    mon.write(n)\n"),
    ("core:floor-division-negative", "// with a negative operand", "x = 7\ny = -2\nmon.write(x // y)\n"),
    ("core:modulo-negative", "% with a negative operand", "x = -7\ny = 3\nmon.write(x % y)\n"),
    ("core:int-true-division", "/ on ints", "x = 7\nc = x / 2\nmon.write(c)\n"),
    ("core:and-or-value", "and/or returning an operand", "x = 0\ny = 5\nz = x or y\nmon.write(z)\n"),
    ("core:bool-printing", "write(bool)", "f = 3 < 4\nmon.write(f)\n"),
    ("core:loop-hoisted-reset", "name first assigned inside a branch of the main loop", "n = 0\nwhile True:\n    n += 1\n    if n == 1:\n        z = 42\n    mon.write(z)\n"),
    ("core:nested-promotion-reset", "name first assigned in a block nested inside a loop of the prologue", "for i in range(2):\n    if i == 0:\n        x = 5\n    mon.write(x)\n"),
    ("core:range-limit-changed", "range(n) with n changed in the body", "n = 3\nfor i in range(n):\n    n = n - 1\n    mon.write(i)\n"),
    ("core:loop-var-assigned", "loop variable assigned in the body", "for i in range(4):\n    mon.write(i)\n    i = i + 1\n"),
    ("core:helper-assigns-global-name", "helper assigns a module-level name without global", "count = 0\ndef bump():\n    count = 5\n    return count\nbump()\nmon.write(count)\n"),
]

INSIDE_EXTRA = [
    # constructs of the documented subset outside the Lean fragment that are expected to AGREE (E only)
    ("swap", "a = 3\nb = 7\na, b = b, a\nmon.write(a)\nmon.write(b)\n"),
    ("swap3", "a = 1\nb = 2\nc = 3\na, b, c = c, a, b\nmon.write(a)\nmon.write(b)\nmon.write(c)\n"),
    ("tuple-mixed-new", "lo = 3\nhi = 9\nlo, spare = hi, lo\nmon.write(lo)\nmon.write(spare)\n"),
    ("tuple-old-first", "a = 7\nb = 3\nwhile True:\n    a, old_a = b, a\n    mon.write(a)\n    mon.write(old_a)\n    b = a + old_a\n"),
    ("helper", "def twice(v):\n    return v * 2\ndef pick(a, b):\n    if a > b:\n        return a\n    return b\nx = 4\nmon.write(twice(x))\nmon.write(pick(x, 9))\nmon.write(pick(twice(x), 3))\n"),
    ("helper-loop", "def acc(n):\n    t = 0\n    for i in range(n):\n        t += i\n    return t\nmon.write(acc(5))\nwhile True:\n    mon.write(acc(3))\n"),
    ("abs-min-max", "a = -4\nb = 9\nmon.write(abs(a))\nmon.write(min(a, b))\nmon.write(max(a, b, 3))\n"),
    ("fstring", "a = 4\nmon.write(f\"a={a}\")\nmon.write(\"x\" + str(a))\n"),
    ("list-basic", "xs = [3, 1, 2]\nxs.append(5)\nmon.write(len(xs))\nmon.write(xs[0] + xs[-1])\n"),
    ("nested-break", "n = 0\nwhile n < 5:\n    n += 1\n    for i in range(4):\n        if i == 2:\n            break\n        mon.write(i + n * 10)\n"),
    ("tuple-new-after-reassign", "base = 5\nbase = 7\nlo, hi = base - 1, base + 1\nmon.write(lo)\nmon.write(hi)\nbase = 1\nmon.write(lo + base)\n"),
    ("tuple-new-in-loop", "k = 0\nwhile True:\n    k += 1\n    p1, p2 = k * 2, k + 10\n    mon.write(p1)\n    mon.write(p2)\n"),
    ("while-promoted-float", "n = 0\nwhile n < 3:\n    half = n * 0.5\n    mon.write(half)\n    n += 1\nmon.write(half)\n"),
    ("while-promoted-in-main-loop", "n = 0\nwhile True:\n    n = 0\n    while n < 2:\n        part = n * 1.5\n        n += 1\n    mon.write(part)\n"),
    ("for-promoted-float", "for i in range(3):\n    acc = i * 0.25\nmon.write(acc)\n"),
    ("for-promoted-read-in-loop", "for i in range(3):\n    total = i * 2\nwhile True:\n    mon.write(total)\n    total = total + 1\n"),
    ("while-promoted-read-in-loop", "n = 0\nwhile n < 3:\n    level = n * 2\n    n += 1\nwhile True:\n    mon.write(level)\n"),
    ("if-promoted-str", "c = 3\nif c > 2:\n    label = \"hi\"\nelse:\n    label = \"lo\"\nmon.write(label)\n"),
    ("cond-expr", "a = 3\nb = a if a > 2 else 0\nmon.write(b)\n"),
    ("helper-mixed-returns", "def scale(v):\n    if v > 10:\n        return v / 2.0\n    return v\nmon.write(scale(25))\nmon.write(scale(4))\nx = scale(31)\nmon.write(x)\n"),
    ("helper-float", "def half(v):\n    return v * 0.5\nmon.write(half(5))\nmon.write(half(4.0))\n"),
    ("float-arith", "x = 1.5\ny = x * 3 + 0.25\nmon.write(y)\nmon.write(y > 4)\n" if False else "x = 1.5\ny = x * 3 + 0.25\nmon.write(y)\n"),
]


def chain_scripts():
    """every pair of comparison operators in a chain `a o1 b o2 c` over run-time values, for every relative order of a, b, c"""
    ops = ["<", "<=", ">", ">=", "==", "!="]
    out = []
    for a, b, c in [(2, 5, 3), (5, 2, 3), (3, 3, 3), (1, 2, 3), (3, 2, 1), (2, 3, 2), (3, 2, 3), (2, 2, 5), (5, 2, 2)]:
        lines = [f"a = {a}", f"b = {b}", f"c = {c}"]
        for o1 in ops:
            for o2 in ops:
                lines += [f"if a {o1} b {o2} c:", "    mon.write(1)", "else:", "    mon.write(0)"]
        lines += ["n = 0", "while True:", "    n += 1", "    if 0 <= n % 4 < 2:", "        mon.write(n)", "    if a < n <= c + 2 != b:", "        mon.write(0 - n)"]
        out.append((f"chained-compare-{a}{b}{c}", "\n".join(lines) + "\n"))
    return out


def list_scripts(rng, n):
    """one int list with repeated values: append / remove (of a value that is present, often more than once) / indexed reads / scans;
    every printed element is compared with CPython (E only).  Copies and re-assignments of lists are C09's K09 findings and stay out."""
    out = [("list-remove-duplicate", "xs = [3, 7, 3, 9]\nxs.remove(3)\nmon.write(xs[0])\nmon.write(xs[1])\nmon.write(xs[2])\nmon.write(len(xs))\n"),
           ("list-remove-duplicate-loop", "xs = [5, 1, 5]\nwhile True:\n    xs.append(1)\n    xs.remove(1)\n    mon.write(xs[0])\n    mon.write(xs[1])\n    mon.write(xs[2])\n")]
    for k in range(n):
        xs = [rng.randint(1, 3) for _ in range(rng.randint(1, 5))]
        lines = [f"xs = {xs!r}"]
        cur = list(xs)
        def ops(cur, pad, m):
            ls = []
            for _ in range(m):
                c = rng.choice(["ap", "rm", "rm", "get", "neg", "len", "scan"])
                if c == "ap":
                    v = rng.randint(1, 3); cur.append(v); ls.append(f"{pad}xs.append({v})")
                elif c == "rm" and cur:
                    v = rng.choice(cur); cur.remove(v); ls.append(f"{pad}xs.remove({v})")
                elif c == "get" and cur:
                    ls.append(f"{pad}mon.write(xs[{rng.randrange(len(cur))}])")
                elif c == "neg" and cur:
                    ls.append(f"{pad}mon.write(xs[len(xs) - 1])")
                elif c == "scan":
                    ls += [f"{pad}for i in range(len(xs)):", f"{pad}    mon.write(xs[i])"]
                else:
                    ls.append(f"{pad}mon.write(len(xs))")
            return ls
        lines += ops(cur, "", rng.randint(2, 7))
        if rng.random() < 0.5:
            lines.append("while True:")
            v = rng.randint(1, 3)
            lines += [f"    xs.append({v})"] + ops(cur + [v], "    ", 0) + [f"    xs.remove({v})", "    for i in range(len(xs)):", "        mon.write(xs[i])"]
        out.append((f"list-values-{k}", "\n".join(lines) + "\n"))
    return out


def comp_scripts(rng, n):
    """list comprehensions over range(start, stop, step): every sign of step, spans that are and are not multiples of the step, empty ranges;
    the length and every element are printed (E only)"""
    fixed = [(9, 0, -2), (255, 0, -10), (0, 10, 3), (10, 0, -3), (5, 5, 1), (0, 0, -1), (3, 4, 5), (4, 3, -5), (-3, 4, 2), (4, -3, -2), (0, 7, 7), (7, 0, -7), (1, 8, 7), (8, 1, -6)]
    out = []
    for k in range(n + len(fixed)):
        if k < len(fixed):
            a, b, st = fixed[k]
        else:
            a, st = rng.randint(-6, 12), rng.choice([1, 2, 3, 4, 5, -1, -2, -3, -4, -5])
            b = a + rng.randint(0, 14) * (1 if st > 0 else -1) * rng.choice([1, 1, 1, -1])
        body = rng.choice(["t", "t * 2", "t + 1", "10 - t"])
        lines = [f"ticks = [{body} for t in range({a}, {b}, {st})]", "mon.write(len(ticks))", "for i in range(len(ticks)):", "    mon.write(ticks[i])"]
        if len(range(a, b, st)) > 0:
            lines += ["mon.write(ticks[-1])", "mon.write(ticks[0])"]
        if rng.random() < 0.4:
            lines += ["while True:", "    for i in range(len(ticks)):", "        mon.write(ticks[i] + 1)"]
        out.append((f"comprehension-range-{a}-{b}-{st}", "\n".join(lines) + "\n"))
    return out


RANGE_TIE = "list-from-range (Fw.fwRange vs compiled helper)"


def range_body(m, c):
    return "t" if (m, c) == (1, 0) else f"t * {m} + {c}"


def range_script(cases):
    """one comprehension per (a, b, s, m, c): the length and every element are printed, list after list"""
    lines = list(langgen.HEADER)
    for j, (a, b, s, m, c) in enumerate(cases):
        lines.append(f"r{j} = [{range_body(m, c)} for t in range({a}, {b}, {s})]")
    for j in range(len(cases)):
        lines += [f"mon.write(len(r{j}))", f"for i in range(len(r{j})):", f"    mon.write(r{j}[i])"]
    return "\n".join(lines) + "\n"


def range_cases(ctx):
    """every (a, b) of a small grid with every step in -5..5 except 0 (body `t`), plus random larger ranges with an affine body"""
    rng = ctx.rng
    lo, hi = (-3, 5) if ctx.tier != "thorough" else (-7, 9)
    cases = [(a, b, s, 1, 0) for a in range(lo, hi + 1) for b in range(lo, hi + 1) for s in (-5, -4, -3, -2, -1, 1, 2, 3, 4, 5)]
    cases += [(9, 0, -2, 1, 0), (7, 6, 2, 1, 0), (255, 0, -10, 1, 0), (0, 255, 17, 2, 1), (1000, -1000, -77, -1, 3), (-32000, 32000, 4001, 1, 0), (32000, -32000, -4001, 1, 0)]
    for _ in range(ctx.n(60, 1500)):
        s = rng.choice([1, 2, 3, 7, 10, 16, 25, 99, 100, 256, 1000]) * rng.choice([1, -1]) + rng.choice([0, 0, 1, -1])
        if s == 0:
            s = rng.choice([-6, 6])
        a = rng.randint(-20000, 20000)
        k = rng.randint(0, 24)
        # stop: exactly on the grid of the step, just before / after it, or on the wrong side of start
        b = a + k * s + rng.choice([0, 0, 1, -1, s // 2, -(s // 2), rng.randint(-abs(s), abs(s))])
        if rng.random() < 0.15:
            b = a - rng.randint(0, 2 * abs(s)) * (1 if s > 0 else -1)
        cases.append((a, b, s, rng.choice([1, 1, 2, -1, -3, 5]), rng.choice([0, 0, 1, -7, 100])))
    return cases


def range_tie(ctx):
    """W14: the helper model against the compiled `__redu_list_from_range` (tie) and CPython's range against the firmware (oracle)"""
    per = 14
    cases = range_cases(ctx)
    want_model = ctx.lean.drive([f"range|{a}|{b}|{s}|{m}|{c}" for a, b, s, m, c in cases])
    py_model = ctx.lean.drive([f"pyrange|{a}|{b}|{s}" for a, b, s, m, c in cases])

    def model_events(ans):
        if not ans.startswith("ok "):
            return None
        f = dict(x.split("=", 1) for x in ans.split(" ")[1:])
        vs = [] if f["v"] == "-" else f["v"].split(",")
        return [f["n"]] + vs

    for (a, b, s, m, c), ans in zip(cases, py_model):
        r = list(range(a, b, s))
        want = f"ok n={len(r)} v=" + (",".join(map(str, r)) if r else "-")
        if ans != want:
            ctx.tie_diff("pyRange vs CPython list(range(a, b, s))", {"range": [a, b, s]}, ans[:200], want[:200])
    groups = [cases[i:i + per] for i in range(0, len(cases), per)]
    srcs = [range_script(g) for g in groups]

    def run_all(srcs):
        outs = [cxx.transpile(x) for x in srcs]
        it = iter(cxx.run_many(ctx, [(cpp, 1, "") for cpp, e in outs if cpp is not None]))
        return [(cpp, exc, next(it) if cpp is not None else None) for cpp, exc in outs]

    def fw_of(res):
        return [v for k, v in pyoracle.fw_events(res.trace) if k == "w"]

    def check_one(case, ans, res_events, src):
        """events of ONE comprehension against model and CPython; returns True when both agree"""
        a, b, s, m, c = case
        py = [m * t + c for t in range(a, b, s)]
        py_ev = [str(len(py))] + [str(v) for v in py]
        mod = model_events(ans)
        good = True
        if mod is None or mod != res_events:
            ctx.tie_diff(RANGE_TIE, {"script": src, "range": [a, b, s], "body": range_body(m, c)}, ans[:300], ("n=" + ",".join(res_events))[:300])
            good = False
        if py_ev != res_events:
            ctx.fail("core:comprehension-range", f"[{range_body(m, c)} for t in range({a}, {b}, {s})]: CPython gives {py_ev[0]} element(s) {py_ev[1:9]}, the firmware prints "
                     f"length {res_events[:1]} elements {res_events[1:9]}", {"script": src, "passes": 1, "python": py_ev[:40], "firmware": res_events[:40]})
            good = False
        return good

    offs = 0
    for g, src, (cpp, exc, res) in zip(groups, srcs, run_all(srcs)):
        answers = want_model[offs:offs + len(g)]
        offs += len(g)
        for case in g:
            a, b, s, m, c = case
            n = len(range(a, b, s))
            ctx.case(f"range:{case}", nontrivial=True)
            ctx.count("range-tie:" + ("empty" if n == 0 else ("descending" if s < 0 else "ascending") + ("-exact" if (b - a) % s == 0 else "-ragged")))
        ctx.cov["traces_validated_against_impl"] += 1
        expected = []
        for ans in answers:
            expected += model_events(ans) or ["?"]
        got = fw_of(res) if (res is not None and not res.compile_error and res.ok) else None
        if got == expected and all(model_events(ans) == [str(len(range(a, b, s)))] + [str(m * t + c) for t in range(a, b, s)] for (a, b, s, m, c), ans in zip(g, answers)):
            continue
        # something in this group differs (or the sketch was refused / died): every comprehension of the group on its own
        singles = [range_script([case]) for case in g]
        for case, ans, one, (cpp1, exc1, res1) in zip(g, answers, singles, run_all(singles)):
            if cpp1 is None:
                ctx.tie_diff(RANGE_TIE, {"script": one}, ans[:200], "rejected: " + repr(exc1)[:200])
                ctx.fail("core:comprehension-range", f"a comprehension over range{case[:3]} is rejected: {exc1!r}", {"script": one})
            elif res1.compile_error or not res1.ok:
                ctx.tie_diff(RANGE_TIE, {"script": one}, ans[:200], "does not compile/run: " + (res1.compile_error or res1.stderr)[:200])
                ctx.fail("core:compile", f"accepted script does not compile/run: {(res1.compile_error or res1.stderr)[:300]}", {"script": one})
            else:
                check_one(case, ans, fw_of(res1), one)
    # step 0: CPython raises ValueError (the script is not a valid program: no oracle verdict); the transpiler accepts a literal 0 and a
    # run-time 0 alike and the helper returns the empty list — the model says the same (`step_zero`)
    for label, body in [("literal", "xs = [t for t in range(3, 9, 0)]\nmon.write(len(xs))\nmon.write(77)\n"), ("run-time", "z = 0\nxs = [t for t in range(3, 9, z)]\nmon.write(len(xs))\nmon.write(77)\n")]:
        src = "\n".join(langgen.HEADER) + "\n" + body
        (cpp, exc, res), = run_all([src])
        ans, pans = ctx.lean.drive(["range|3|9|0", "pyrange|3|9|0"])
        _, err = pyoracle.run_script(src, 1)
        ctx.case("range-step-zero:" + label, nontrivial=True)
        if pans != "raises ValueError" or not isinstance(err, ValueError):
            ctx.tie_diff("pyRangeE vs CPython (step 0 raises ValueError)", {"script": src}, pans, repr(err))
        if cpp is None:
            ctx.count(f"range-step-zero-{label}: rejected by the transpiler")
        elif res.compile_error or not res.ok:
            ctx.tie_diff(RANGE_TIE, {"script": src}, ans, "does not compile/run: " + (res.compile_error or res.stderr)[:200])
        else:
            ctx.count(f"range-step-zero-{label}: accepted, firmware goes on with an empty list (CPython raises ValueError)")
            if (model_events(ans) or []) + ["77"] != fw_of(res):
                ctx.tie_diff(RANGE_TIE, {"script": src}, ans, fw_of(res))


SIDE_EFFECT_TUPLES = [
    # right-hand sides of a tuple assignment are evaluated left to right, each exactly once, before any target is bound
    ("tuple-rhs-order-2", "def sample(ch):\n    mon.write(ch)\n    return ch * 10\nk = 1\nlow, high = sample(k), sample(k + 4)\nmon.write(low)\nmon.write(high)\n"),
    ("tuple-rhs-order-3", "def step(n):\n    mon.write(n)\n    return n + 100\na, b, c = step(1), step(2), step(3)\nmon.write(a)\nmon.write(b)\nmon.write(c)\n"),
    ("tuple-rhs-order-existing", "def sample(ch):\n    mon.write(ch)\n    return ch * 10\nlow = 0\nhigh = 0\nwhile True:\n    low, high = sample(low + 1), sample(high + 2)\n    mon.write(low)\n    mon.write(high)\n"),
    ("tuple-rhs-order-mixed", "def sample(ch):\n    mon.write(ch)\n    return ch + 1\nlow = 5\nlow, fresh = sample(low), sample(low * 2)\nmon.write(low)\nmon.write(fresh)\n"),
    ("tuple-rhs-order-loop-new", "def tick(n):\n    mon.write(n)\n    return n * 2\nk = 0\nwhile True:\n    k += 1\n    p1, p2, p3 = tick(k), tick(k + 10), tick(k + 20)\n    mon.write(p1 + p2 + p3)\n"),
    ("tuple-rhs-order-pin", "from Reduino.Actuators import Led\nled = Led(13)\ndef pulse(n):\n    led.toggle()\n    mon.write(n)\n    return n\nx = 0\ny = 0\nx, y = pulse(1), pulse(2)\nmon.write(x - y)\n"),
]


HELPER_TUPLES = [
    # the right-hand side of a tuple assignment reaches its own targets THROUGH helper functions (no target is mentioned in the text of the
    # right-hand side): every value is computed before any target is bound, so a helper called by a later element still sees the old globals
    ("tuple-helper-reads-rebound", "base = 10\ntop = 50\ngap = 0\ndef room():\n    return top - base\ntop, gap = 30, room()\nmon.write(top)\nmon.write(gap)\n"
                                   "while True:\n    base, gap = gap + 1, room()\n    mon.write(base)\n    mon.write(gap)\n"),
    ("tuple-helper-reads-rebound-loop", "floor_ = 0\nceil_ = 40\nwidth = 0\nk = 0\ndef room():\n    return ceil_ - floor_\nwhile True:\n    k += 1\n    floor_, width = k * 3, room()\n"
                                        "    mon.write(floor_)\n    mon.write(width)\n    sleep(5)\n"),
    ("tuple-helper-writes-rebound", "count = 0\nseen = 0\ndef nxt():\n    global count\n    count = count + 1\n    return count\ncount, seen = 10, nxt()\nmon.write(count)\nmon.write(seen)\n"
                                    "seen, count = nxt(), 20\nmon.write(count)\nmon.write(seen)\n"),
    ("tuple-helper-logs-rebound", "level = 1\nmark = 0\ndef show(n):\n    mon.write(level + n)\n    return n\nlevel, mark = 7, show(100)\nmon.write(level)\nmon.write(mark)\n"),
    ("tuple-helper-three", "p = 1\nq = 2\nr = 3\ndef total():\n    return p + q + r\np, q, r = 10, total(), total()\nmon.write(p)\nmon.write(q)\nmon.write(r)\n"),
    ("tuple-helper-nested-if", "lo = 2\nhi = 9\nmid = 0\ndef centre():\n    return lo + hi\nif hi > lo:\n    lo, mid = 6, centre()\nelse:\n    hi, mid = 1, centre()\nmon.write(lo)\nmon.write(mid)\n"
                               "while True:\n    if mid > 20:\n        hi, mid = 0, centre()\n    else:\n        hi, mid = mid, centre()\n    mon.write(hi)\n    mon.write(mid)\n"),
    ("tuple-helper-nested-for", "acc = 0\nlast = 0\ndef peek():\n    return acc + 1\nfor i in range(3):\n    acc, last = i * 10, peek()\n    mon.write(acc)\n    mon.write(last)\n"),
    ("tuple-helper-inside-helper", "lo = 2\nhi = 9\nmid = 0\ndef centre():\n    return lo + hi\ndef shrink(n):\n    global lo, mid\n    lo, mid = n, centre()\n    return mid\n"
                                   "mon.write(shrink(5))\nmon.write(lo)\ndef local_pair(n):\n    u = 1\n    v = 2\n    u, v = n, centre()\n    return u + v\nmon.write(local_pair(3))\n"
                                   "while True:\n    mon.write(shrink(mid))\n"),
    ("tuple-helper-param", "gain = 2\nout = 0\ndef amp(v):\n    return v * gain\nx = 5\ngain, out = 3, amp(x)\nmon.write(gain)\nmon.write(out)\n"),
]


def helper_tuple_scripts(rng, n):
    """int globals, helper functions that read them (`return g0 - g1`), write them (`global g0; g0 = ...; return ...`) or print them, and tuple
    assignments to the globals whose elements are constants, expressions and helper calls — with and without a textual mention of a target
    on the right-hand side — at top level, inside if/for blocks and in the main loop; every global is printed after every statement (E only).
    Values at most double per assignment (only + and - of names and small constants)."""
    out = []
    for k in range(n):
        names = ["g0", "g1", "g2", "g3"][:rng.randint(3, 4)]
        lines = [f"{v} = {rng.randint(-9, 30)}" for v in names]
        helpers = []                                   # (name, arity)
        for h in range(rng.randint(2, 4)):
            kind = rng.choice(["read", "read", "readarg", "write", "write", "log"])
            x, y = rng.sample(names, 2)
            c = rng.randint(1, 9)
            if kind == "read":
                body = rng.choice([f"{x} - {y}", f"{x} + {y}", f"{x} + {c}", f"{x}"])
                lines += [f"def h{h}():", f"    return {body}"]
                helpers.append((f"h{h}", 0))
            elif kind == "readarg":
                lines += [f"def h{h}(n):", "    return " + rng.choice([f"{x} + n", f"n - {x}", f"{x} - {y} + n"])]
                helpers.append((f"h{h}", 1))
            elif kind == "write":
                upd = rng.choice([f"{x} + n", "n", f"{y} - n", f"{x} + {c}"])
                ret = rng.choice(["old", x, f"{x} + {y}"])
                lines += [f"def h{h}(n):", f"    global {x}", f"    old = {x}", f"    {x} = {upd}", f"    return {ret}"]
                helpers.append((f"h{h}", 1))
            else:
                lines += [f"def h{h}(n):", f"    mon.write({x} + n)", f"    return " + rng.choice(["n", f"{y}", f"{y} + n"])]
                helpers.append((f"h{h}", 1))
        show = "mon.write(f\"" + " ".join("{" + v + "}" for v in names) + "\")"

        def tup(pad, extra=()):
            tg = rng.sample(names, rng.randint(2, min(3, len(names))))
            free = [v for v in names if v not in tg] + list(extra)
            pool = free if (free and rng.random() < 0.7) else names + list(extra)        # 70%: no target appears in the text of the right-hand side
            def atom():
                return rng.choice(pool) if rng.random() < 0.5 else str(rng.randint(0, 12))
            def elem(first):
                r = rng.random()
                if r < (0.45 if first else 0.2):
                    return rng.choice([atom(), f"{atom()} + {rng.randint(1, 5)}", f"{rng.choice(pool)} - {atom()}"])
                hn, ar = rng.choice(helpers)
                return f"{hn}({atom()})" if ar else f"{hn}()"
            rhs = [elem(i == 0) for i in range(len(tg))]
            return [f"{pad}{', '.join(tg)} = {', '.join(rhs)}", pad + show]

        def block(pad, m, extra=()):
            ls = []
            for _ in range(m):
                r = rng.random()
                if r < 0.6 or len(pad) >= 8:
                    ls += tup(pad, extra)
                elif r < 0.8:
                    a, b = rng.sample(names, 2)
                    ls += [f"{pad}if {a} {rng.choice(['<', '>', '<=', '!='])} {b}:"] + block(pad + "    ", 1, extra) + [f"{pad}else:"] + block(pad + "    ", 1, extra)
                else:
                    iv = f"i{len(pad) // 4}"
                    ls += [f"{pad}for {iv} in range({rng.randint(1, 3)}):"] + block(pad + "    ", rng.randint(1, 2), tuple(extra) + (iv,))
            return ls
        lines += block("", rng.randint(1, 3))
        if rng.random() < 0.7:
            lines += ["while True:"] + block("    ", rng.randint(1, 3))
            if rng.random() < 0.5:
                lines.append(f"    {rng.choice(names)} += {rng.randint(1, 3)}")
            if rng.random() < 0.3:
                lines.append(f"    sleep({rng.randint(1, 20)})")
        out.append((f"tuple-through-helper-{k}", "\n".join(lines) + "\n"))
    return out


def same_events(a, b):
    """serial lines equal as text; a device float/double line (bit pattern) equals a Python number numerically"""
    import struct
    if len(a) != len(b):
        return False
    for (ka, va), (kb, vb) in zip(a, b):
        if ka != kb:
            return False
        if ka == "w" and isinstance(vb, str) and (vb.startswith("float:g") or vb.startswith("double:h")):
            try:
                x = float(va)
            except ValueError:
                return False
            y = struct.unpack(">f", bytes.fromhex(vb[7:]))[0] if vb.startswith("float:g") else struct.unpack(">d", bytes.fromhex(vb[8:]))[0]
            if abs(x - y) > 1e-4 * max(1.0, abs(x)):
                return False
        elif va != vb:
            return False
    return True


def e_compare(ctx, key, src, passes, res, in_domain):
    """oracle E on one script: returns True when the traces agree"""
    py, err = pyoracle.run_script(src, passes)
    if err is not None:
        ctx.count("python-raises:" + type(err).__name__)
        return None
    if res is None or res.compile_error or not res.ok:
        ctx.fail(key if not in_domain else "core:compile", f"accepted script does not compile/run: {((res.compile_error or res.stderr) if res else 'no result')[:300]}", {"script": src})
        return False
    fw = pyoracle.fw_events(res.trace)
    a = [(k, str(v) if k == "w" else int(v)) for k, v in py]
    b = [(k, str(v) if k == "w" else int(v)) for k, v in fw]
    if not same_events(a, b):
        i = next((j for j, (x, y) in enumerate(zip(a, b)) if x != y), min(len(a), len(b)))
        ctx.fail(key, f"firmware trace differs from CPython at event {i}: python {a[i:i+4]} firmware {b[i:i+4]}", {"script": src, "passes": passes, "python": a[:40], "firmware": b[:40]})
        return False
    return True


def run(ctx: Ctx) -> int:
    ctx.prove(["Reduino.Props.C01", "Reduino.Props.C01Range", "Reduino.GenOb.Ops"])
    common.fresh_import()
    rng = ctx.rng
    progs = []
    for _ in range(ctx.n(120, 2500)):
        g = langgen.G(rng, max_depth=rng.choice([1, 2, 3]), strings=True)
        progs.append(g.program())
    # programs whose top-level branches / loops introduce names (promotion; model side = tr2)
    n_plain = len(progs) + 1
    promo = [langgen.G(rng, max_depth=rng.choice([2, 3]), promote=True, strings=True).program() for _ in range(ctx.n(60, 1200))]
    # conditions written as chained comparisons (`a < b <= c`): the model is given the conjunction they abbreviate, so T is skipped for them
    progs += [langgen.G(rng, max_depth=rng.choice([2, 3]), chains=True, strings=True).program() for _ in range(ctx.n(50, 600))]
    progs += FIXED_TUPLES
    # W6: programs with helper functions (a PRNG of their own: the streams above are unchanged): procedures and value-returning helpers
    # called at statement level.  They are in `InF` (generator invariant below) and go through T, S_py, S_c, E like the others
    import random as _random
    hr = _random.Random(f"{ctx.seed}:C01:helpers")
    progs += FIXED_HELPERS
    progs += [langgen.add_helpers(langgen.G(hr, max_depth=hr.choice([1, 2, 3]), strings=True).program(), hr) for _ in range(ctx.n(60, 1200))]
    n_plain = len(progs) + 1
    # every top-level `break` directly in the main loop must be rejected (through if nesting too)
    progs.append({"pre": [("as", "a", ("i", 1))], "loop": [("wr", ("v", "a")), ("if", ("cmp", "gt", ("v", "a"), ("i", 0)), [("brk",)], [])]})
    progs += promo
    srcs = [langgen.py_source(p) for p in progs]
    sxs = [langgen.sx_prog(p) for p in progs]
    passes = [rng.choice([0, 1, 3]) for _ in progs]
    outs = [cxx.transpile(s) for s in srcs]
    two = ["" if i < n_plain else "2" for i in range(len(progs))]
    mt = ctx.lean.drive([f"lang|tr{t}|{s}" for s, t in zip(sxs, two)])
    mpy = ctx.lean.drive([f"lang|pyrun|{s}|{n}|{FUEL}" for s, n in zip(sxs, passes)])
    mc = ctx.lean.drive([f"lang|crun{t}|{s}|{n}|{FUEL}" for s, n, t in zip(sxs, passes, two)])
    mcraw = ctx.lean.drive([f"lang|crunraw{t}|{s}|{n}|{FUEL}" for s, n, t in zip(sxs, passes, two)])
    jobs = [(cpp, n, "") for (cpp, e), n in zip(outs, passes) if cpp is not None]
    it = iter(cxx.run_many(ctx, jobs))
    results = [next(it) if cpp is not None else None for cpp, e in outs]
    norm = lambda text: [" ".join(l.split()) for l in text.split("\n") if l.strip() and not l.strip().startswith("//")]
    for p, src, sx, n, (cpp, exc), res, t, rpy, rc, rcraw, t2 in zip(progs, srcs, sxs, passes, outs, results, mt, mpy, mc, mcraw, two):
        ctx.count("programs" + ("-with-promotion" if t2 else ""))
        for opn in OPS_COUNTED:
            if f"(bin {opn} " in sx or f" {opn} (" in sx or f"({opn} " in sx:
                ctx.count("programs-using:" + opn)
        if "(tup " in sx:
            ctx.count("programs-using:tuple-assignment")
            ctx.count("tuple-assignments", sx.count("(tup "))
        if p.get("helpers"):
            ctx.count("programs-with-helpers")
            ctx.count("helper-definitions", len(p["helpers"]))
            ctx.count("helper-calls", sx.count("(call "))
            ctx.count("helper-calls-with-target", sx.count("(call ") - sx.count("(call _ "))
        if t.startswith("ok") and not t.endswith(" in"):
            ctx.tie_diff("generator invariant (generated programs are in InF / promotion programs in InF2)", {"script": src}, t[-4:], "")
        if "(s x" in sx:
            ctx.count("programs-using:strings")
            ctx.count("string-literals", sx.count("(s x"))
            ctx.count("str()-calls", sx.count("(str "))
            ctx.count("f-strings", src.count('f"'))
            ctx.count("string-concatenations-with-literal-left", sx.count("(bin add (s x"))
        replay = {"script": src, "passes": n}
        # ---- T
        if t.startswith("reject"):
            ctx.count("model-rejects")
            if cpp is not None:
                ctx.tie_diff("tie T (model rejects, transpiler accepts)", replay, t, "accepted")
                if "break" in t and any(l.strip() == "break;" for l in cpp.split("void loop()")[1].split("\n")[:200]):
                    pass
            continue
        if t == "outside-fragment":
            ctx.count("outside-fragment")
            continue
        if cpp is None:
            ctx.tie_diff("tie T (transpiler rejects a fragment program)", replay, "accepted", repr(exc))
            continue
        model_lines = [" ".join(l.split()) for l in bytes.fromhex(t.split(" ")[1][1:]).decode().split("\n")]
        real_lines = norm(cpp)
        ctx.cov["traces_validated_against_impl"] += 1
        ctx.case(sx, nontrivial=("while" in sx or "for" in sx or "if" in sx), sample={"script": src, "model_c": model_lines[:12]} if len(ctx.cov["samples"]) < 2 else None)
        if "'chain'" in repr(p):
            ctx.count("programs-with-chained-comparison")
        elif model_lines != real_lines:
            k = next((i for i, (a, b) in enumerate(zip(model_lines, real_lines)) if a != b), min(len(model_lines), len(real_lines)))
            ctx.tie_diff("tie T (render(tr p) vs emit(parse(text p)))", replay, model_lines[max(0, k - 1):k + 3], real_lines[max(0, k - 1):k + 3])
        # ---- S_py
        py, err = pyoracle.run_script(src, n)
        if err is None:
            want = "ok " + ev_str(py)
            if rpy != want:
                ctx.tie_diff("tie S_py (Lang.Py.run vs CPython)", replay, rpy[:300], want[:300])
        else:
            ctx.count("python-raises:" + type(err).__name__)
            if rpy.startswith("ok") or (isinstance(err, ZeroDivisionError) and rpy != "error ZeroDivisionError"):
                ctx.tie_diff("tie S_py (Lang.Py.run vs CPython)", replay, rpy[:200], "raises " + type(err).__name__)
        # ---- S_c: the strict reading of `/`, `%` (the one the theorem speaks about) stops at a division with a negative operand; the raw
        #      reading (C's own operators) is tied to g++ on every run
        signed = rc == "error signed-division"
        signed_key = "core:floor-division-negative" if "fdiv" in sx else "core:modulo-negative"
        if signed:
            ctx.count("c-signed-division (strict reading stops; raw reading tied)")
        if res.compile_error or not res.ok:
            if rcraw == "error ZeroDivisionError" and not res.compile_error:
                # the model's raw run divides by zero (undefined in C; SIGFPE on the host)
                if isinstance(err, ZeroDivisionError):
                    ctx.count("c-division-by-zero (CPython raises ZeroDivisionError at the same point)")
                    continue
                if signed:
                    ctx.fail(signed_key, "after a `/` or `%` with a negative operand the sketch goes on to divide by zero where CPython does not", replay)
                    continue
            ctx.fail("core:compile", f"accepted script does not compile/run: {(res.compile_error or res.stderr)[:300]}", replay)
            continue
        if rc == "error overflow" or rcraw == "error overflow":
            ctx.count("c-int-overflow (outside Fits)")
            continue
        fw = pyoracle.fw_events(res.trace)
        got = "ok " + ev_str(fw)
        if rc.startswith("ok") and rc != got:
            ctx.tie_diff("tie S_c (Lang.C.run vs compiled sketch)", replay, rc[:300], got[:300])
        if rc.startswith("ok") and rcraw != rc:
            ctx.tie_diff("strict_run_is_raw_run (driver: a successful strict run is the raw run)", replay, rc[:300], rcraw[:300])
        if rcraw.startswith("ok"):
            ctx.count("raw-runs-tied-to-g++")
            if rcraw != got:
                ctx.tie_diff("tie S_c raw (Lang.C.run .raw vs compiled sketch)", replay, rcraw[:300], got[:300])
        # ---- E
        if err is None:
            a = [(k, str(v) if k == "w" else int(v)) for k, v in py]
            b = [(k, str(v) if k == "w" else int(v)) for k, v in fw]
            if a != b:
                i = next((j for j, (x, y) in enumerate(zip(a, b)) if x != y), min(len(a), len(b)))
                what = f"firmware differs from CPython at event {i}: python {a[i:i+4]} firmware {b[i:i+4]}"
                if signed:
                    # the model explains the difference: its strict C run stops at a signed division (K01b / K01c), its raw run is the firmware's
                    ctx.count("E-differs-after-signed-division (known K01b/K01c)")
                    ctx.fail(signed_key, what, {**replay, "python": a[:40], "firmware": b[:40]})
                else:
                    ctx.fail("core:trace", what, {**replay, "python": a[:40], "firmware": b[:40]})
            elif signed:
                ctx.count("E-agrees-although-signed-division (exact or same-sign division)")
    # ---- `break` in the main loop must be rejected in every nesting through if/try
    for body in ["    break\n", "    if a > 0:\n        break\n", "    if a > 0:\n        a = 1\n    else:\n        break\n",
                 "    try:\n        break\n    except Exception:\n        a = 2\n", "    try:\n        a = 1\n    except Exception:\n        break\n",
                 "    try:\n        a = 1\n    except Exception:\n        if a > 0:\n            break\n", "    if a > 0:\n        if a > 1:\n            break\n"]:
        src = "\n".join(langgen.HEADER) + "\na = 1\nwhile True:\n    mon.write(a)\n" + body
        cpp, exc = cxx.transpile(src)
        ctx.case("break:" + body, nontrivial=True)
        if cpp is not None:
            ctx.fail("core:break-in-main-loop-accepted", "a `break` whose innermost loop is the main loop was accepted", {"script": src})
    # ---- constructs around the fragment (E only)
    extra = [(k, d, "\n".join(langgen.HEADER) + "\n" + body, False) for k, d, body in OUTSIDE] + \
            [("core:" + k, k, "\n".join(langgen.HEADER) + "\n" + body, True) for k, body in INSIDE_EXTRA] + \
            [("core:chained-compare", k, "\n".join(langgen.HEADER) + "\n" + body, True) for k, body in chain_scripts()] + \
            [("core:list-values", k, "\n".join(langgen.HEADER) + "\n" + body, True) for k, body in list_scripts(rng, ctx.n(25, 300))] + \
            [("core:comprehension-range", k, "\n".join(langgen.HEADER) + "\n" + body, True) for k, body in comp_scripts(rng, ctx.n(25, 300))] + \
            [("core:tuple-rhs-order", k, "\n".join(langgen.HEADER) + "\n" + body, True) for k, body in SIDE_EFFECT_TUPLES] + \
            [("core:tuple-through-helper", k, "\n".join(langgen.HEADER) + "\n" + body, True) for k, body in HELPER_TUPLES + helper_tuple_scripts(rng, ctx.n(40, 600))]
    outs = [cxx.transpile(s) for _, _, s, _ in extra]
    jobs = [(cpp, 3, "") for cpp, e in outs if cpp is not None]
    it = iter(cxx.run_many(ctx, jobs))
    for (key, desc, src, inside), (cpp, exc) in zip(extra, outs):
        res = next(it) if cpp is not None else None
        ctx.case("extra:" + key, nontrivial=True)
        if cpp is None:
            ctx.count("extra-rejected:" + key)
            continue
        e_compare(ctx, key, src, 3, res, inside)
    # ---- W14: the list-from-range helper
    range_tie(ctx)
    ctx.cov["rule"] = ("type-directed random programs of the core fragment (depth <= 3, bounded while loops, for-range, break, nested if/elif/else, int and bool "
                       "names all first assigned at top level; expressions over + - * & | ^ // % abs min max, divisors mostly positive; tuple assignments (swaps, rotations, "
                       "Fibonacci-style updates, mixed int/bool targets) in prologue, nested blocks and main loop, plus pinned counter-threading programs); W13: a post-pass with its own PRNG "
                       "declares string names s, t (u in a promoted branch) and adds serial writes / assignments / swaps of string literals (printable ASCII incl. quote, backslash, braces), names and "
                       "conditional expressions, str(<int expression, also over the loop variable in scope>), str(<string>), concatenations (never two `const char*` operands), f-strings (literal text and int-/string-typed formatted values) and `s += e` to every block; N in {0,1,3} passes; "
                       "each program goes through T, S_py, S_c (strict and raw reading) and E; plus fixed scripts for "
                       "break-in-main-loop, swaps/tuples, helpers, lists, f-strings (E only) and one-construct-outside scripts; tuple assignments to int globals whose "
                       "right-hand sides call helper functions that read / write (`global`) / print those globals, with and without a target named on the right-hand side, "
                       "at top level, in if/for blocks and in the main loop, all globals printed after every statement (pinned + random, E only); non-trivial = has control flow")
    return ctx.finish(TRUSTED, search=None)
