"""C05 — setup()/loop() split: run-once prologue, repeated body, configure-before-use.

Proof: lean/Reduino/Props/C05.lean (emit()'s two-pass assembly: configure-before-use, prologue once in order, housekeeping
first and once, nothing configured in loop(); plus the C01 theorems for the split itself and the break guard).
Tie T/S_c: the order of use / statement / poll events the model predicts for `setup(); loop() x N` vs the compiled sketch's
trace, on random device sets declared before the main loop or at the top of its body.
Proof (W4): lean/Reduino/Props/C05Pins.lean on the pin-level model Lang/AssemblePins.lean (which pin gets which mode where, which pin a
command touches under re-binding): configured_before_touch / pin_configured_before_use, no_mode_conflict, rebinding_configures_new_pin,
housekeeping_first_once, for all programs satisfying the decidable DocumentedPins and all N; tied by "pin-level assembly (AssemblePins.run vs
compiled sketch)" on the same generated scripts plus hand-written re-binding shapes.
Oracle: temporal monitors on the firmware trace (every pin/peripheral event preceded by its configuration, no pin
re-configured to another mode, one poll per button per pass before user code, prologue once / body per pass in order)."""
from __future__ import annotations

import re

import common
import lateinit
import cxx
from common import Ctx

TRUSTED = [
    "Lean 4.33 kernel; axioms ⊆ {propext, Classical.choice, Quot.sound}",
    "the abstraction of a script to its top-level items (declaration / use / other statement) is built by the harness together with the script",
    "mock core + host g++: what a peripheral does once configured is the mock's",
    "pin-level tie (W4): the projection of a mock-core trace line to the alphabet of AssemblePins.Ev (pm / dw,aw,tone -> write / dr,ar,pulsein -> read / servo.attach / servo.write / lcd.init,begin / serial.begin), and the pins each generated constructor call names, are the harness's",
    "W10: an animation start is recognised in the trace as the print of the marker text, a tick as the millis() read of the tick helper attributed to the display of the next lcd.* line (scroll, speed_ms=0, loop=True); the mode of a Button is set on the parsed AST node (ButtonDecl.mode), no script syntax reaches it; one tick event per started animation, not per display",
    "pin-level theorems are about Lang/AssemblePins.run; they reach the emitter only through that tie (random device sets + hand-written re-binding shapes), for the one command per device kind the tie uses",
]
HEAD = ("from Reduino.Actuators import Led, RGBLed, Servo, DCMotor, Buzzer\nfrom Reduino.Sensors import Button, Potentiometer, Ultrasonic\nfrom Reduino.Displays import LCD\n"
        "from Reduino.Communication import SerialMonitor\nfrom Reduino.Utils import sleep\n")
LOOP_OK = {"led", "rgb", "servo", "motor", "button", "pot", "ultra"}


class Dev:
    def __init__(self, kind, name, pins):
        self.kind, self.name, self.pins = kind, name, pins
        self.loop_pins = None

    def decl(self):
        p = list(self.pins) + [0, 0, 0]
        return {"led": f"{self.name} = Led({p[0]})", "rgb": f"{self.name} = RGBLed({p[0]}, {p[1]}, {p[2]})", "servo": f"{self.name} = Servo({p[0]})",
                "motor": f"{self.name} = DCMotor({p[0]}, {p[1]}, {p[2]})", "buzzer": f"{self.name} = Buzzer({p[0]})", "button": f"{self.name} = Button({p[0]})",
                "pot": f"{self.name} = Potentiometer(\"A{p[0] - 14}\")", "ultra": f"{self.name} = Ultrasonic({p[0]}, {p[1]})",
                "lcd": f"{self.name} = LCD(i2c_addr={p[0]}, cols=16, rows=2)", "serial": f"{self.name} = SerialMonitor(9600)"}[self.kind]

    def use(self, tag):
        n = self.name
        return {"led": f"{n}.toggle()", "rgb": f"{n}.set_color(7, 0, 0)", "servo": f"{n}.write(90)", "motor": f"{n}.set_speed(1)", "buzzer": f"{n}.play_tone(440)",
                "button": None, "pot": f"mon.write({n}.read())", "ultra": f"mon.write({n}.measure_distance())", "lcd": f"{n}.line(0, \"x\")", "serial": f"{n}.write({tag})"}[self.kind]

    def is_use_event(self, w):
        p = self.pins
        k = self.kind
        if k == "led": return w[0] == "dw" and int(w[1]) in (p[0], (self.loop_pins or p)[0])
        if k == "rgb": return w[0] == "aw" and int(w[1]) == p[0] and w[2] == "7"
        if k == "servo": return w[0] == "servo.write" and self.servo_id is not None and int(w[1]) == self.servo_id
        if k == "motor": return w[0] == "aw" and int(w[1]) == p[2] and w[2] == "255"
        if k == "buzzer": return w[0] == "tone" and int(w[1]) == p[0]
        if k == "pot": return w[0] == "ar" and int(w[1]) == p[0]
        if k == "ultra": return w[0] == "pulsein" and int(w[1]) == p[1]
        if k == "lcd": return w[0] == "lcd.print" and w[4] == "x78"
        return False


def gen(rng, force=None, redecl=False):
    """force = (kind, place): the first device is of that kind, on the LOWEST pin numbers (0, 1, 2 — a pin number is data, not a
    truth value), declared at `place`, and used at least once in the loop"""
    pins = list(range(0, 14))
    rng.shuffle(pins)
    if force:
        pins = sorted(pins, reverse=True)      # pop() hands out 0, 1, 2, …
    apins = [14, 15, 16, 17]
    devs = [Dev("serial", "mon", [])]
    counts = 0
    kinds = rng.sample(["led", "rgb", "servo", "motor", "buzzer", "button", "pot", "ultra", "lcd", "led", "servo", "button"], rng.randint(1, 5))
    if force:
        kinds = [force[0]] + [k for k in kinds if k != force[0]][:2]
    for kind in kinds:
        need = {"led": 1, "rgb": 3, "servo": 1, "motor": 3, "buzzer": 1, "button": 1, "pot": 0, "ultra": 2, "lcd": 0}[kind]
        if len(pins) < need:
            continue
        counts += 1
        if kind == "pot":
            if not apins:
                continue
            ps = [apins.pop()]
        elif kind == "lcd":
            if any(d.kind == "lcd" for d in devs):
                continue
            ps = [39]
        else:
            ps = [pins.pop() for _ in range(need)]
        devs.append(Dev(kind, f"{kind[0]}{counts}", ps))
    setup, loop = [("decl", devs[0])], []
    tag = [100]

    def nt():
        tag[0] += 1
        return tag[0]
    for j, d in enumerate(devs[1:]):
        where = "loop" if (d.kind in LOOP_OK and rng.random() < 0.4) else "setup"
        if force and j == 0:
            where = force[1]
        (setup if where == "setup" else loop).append(("decl", d))
    # a Led bound before the loop may be bound again, to another pin, at the top of the body
    for d in [x for _, x in setup if x.kind == "led"]:
        if pins and (redecl or rng.random() < 0.3):
            d.loop_pins = [pins.pop()]
            loop.append(("decl2", d))
    # loop declarations first (top of the body), then statements
    body_s, body_l = [], []
    for _ in range(rng.randint(1, 6)):
        d = rng.choice([x for _, x in setup])
        body_s.append(("use", d, nt()) if d.use(0) and rng.random() < 0.7 else ("stmt", nt()))
    alld = [x for _, x in setup] + [x for _, x in loop]
    for _ in range(rng.randint(1, 6)):
        d = rng.choice(alld)
        body_l.append(("use", d, nt()) if d.use(0) and rng.random() < 0.7 else ("stmt", nt()))
    if force and len(devs) > 1 and devs[1].use(0):
        body_l.append(("use", devs[1], nt()))
    # interleave uses after their declarations in setup
    items_s = []
    pending = list(body_s)
    for it in setup:
        items_s.append(it)
        declared = {x[1].name for x in items_s if x[0] == "decl"}
        while pending and (pending[0][0] == "stmt" or pending[0][1].name in declared) and rng.random() < 0.6:
            items_s.append(pending.pop(0))
    items_s += [p for p in pending]
    return devs, items_s, loop + body_l


def script(items_s, items_l):
    lines = [HEAD.rstrip("\n")]

    def line(it):
        if it[0] == "decl":
            return it[1].decl()
        if it[0] == "decl2":
            return f"{it[1].name} = Led({it[1].loop_pins[0]})"
        if it[0] == "use":
            return it[1].use(it[2])
        return f"sleep({it[1]})"
    lines += [line(i) for i in items_s]
    lines.append("while True:")
    lines += ["    " + line(i) for i in items_l] or ["    sleep(1)"]
    return "\n".join(lines) + "\n"


def model_items(items):
    out = []
    for it in items:
        if it[0] in ("decl", "decl2"):
            out.append(f"d:{it[1].kind}:{it[1].name}")
        elif it[0] == "use":
            out.append(f"u:{it[1].name}" if it[1].kind != "serial" else f"s:{it[2]}")
        else:
            out.append(f"s:{it[1]}")
    return " ".join(out)


def monitor(ctx, trace, devs, src, passes):
    """temporal properties of the firmware trace"""
    replay = {"script": src, "passes": passes}
    out_ok, in_ok, modes = set(), set(), {}
    servos, lcds, serial = set(), set(), False
    in_loop = False
    seen_user = False
    buttons = {d.pins[0] for d in devs if d.kind == "button"}
    polled = {}
    for l in trace:
        w = l.split(" ")
        if l.startswith("== loop"):
            if in_loop:
                for b in buttons:
                    if polled.get(b, 0) != 1:
                        ctx.fail("split:poll-count", f"button on pin {b} sampled {polled.get(b, 0)} times in a pass", replay)
            in_loop, seen_user, polled = True, False, {}
            continue
        if l.startswith("== "):
            continue
        k = w[0]
        if k == "pm":
            pin, mode = int(w[1]), int(w[2])
            if pin in modes and modes[pin] != mode:
                ctx.fail("split:reconfigured", f"pin {pin} configured as mode {modes[pin]} and later as {mode}", replay)
            modes[pin] = mode
            (out_ok if mode == 1 else in_ok).add(pin)
            if in_loop:
                ctx.fail("split:configure-in-loop", f"pinMode({pin}) issued inside loop()", replay)
        elif k in ("dw", "aw", "tone", "notone"):
            if int(w[1]) not in out_ok:
                ctx.fail("split:use-before-configure", f"{l!r} before pinMode({w[1]}, OUTPUT)", replay)
            seen_user = True
        elif k == "dr":
            pin = int(w[1])
            if pin not in in_ok:
                ctx.fail("split:use-before-configure", f"{l!r} before pinMode({pin}, INPUT…)", replay)
            if in_loop and pin in buttons:
                polled[pin] = polled.get(pin, 0) + 1
                if seen_user:
                    ctx.fail("split:poll-after-user-code", f"button on pin {pin} sampled after user statements of the pass", replay)
        elif k in ("ar", "pulsein"):
            if int(w[1]) not in in_ok:
                ctx.fail("split:use-before-configure", f"{l!r} before pinMode({w[1]}, INPUT)", replay)
            seen_user = True
        elif k == "servo.attach":
            servos.add(w[1])
        elif k in ("servo.write", "servo.us"):
            if w[1] not in servos:
                ctx.fail("split:use-before-configure", f"{l!r} before attach", replay)
            seen_user = seen_user or k == "servo.write"
        elif k in ("lcd.begin", "lcd.init"):
            lcds.add(w[1])
        elif k in ("lcd.print", "lcd.clear", "lcd.cursor"):
            if w[1] not in lcds:
                ctx.fail("split:use-before-configure", f"{l!r} before begin()/init()", replay)
            seen_user = True
        elif k == "serial.begin":
            serial = True
        elif k in ("println", "print"):
            if not serial:
                ctx.fail("split:use-before-configure", f"{l!r} before Serial.begin", replay)
            seen_user = True
        elif k == "delay":
            seen_user = True


def abstract_trace(trace, devs):
    """real trace -> sequence of u:name / s:tag / p:name events, setup and per pass"""
    for d in devs:
        d.servo_id = None
    for l in trace:
        w = l.split(" ")
        if w[0] == "servo.attach":
            for d in devs:
                if d.kind == "servo" and d.pins[0] == int(w[2]):
                    d.servo_id = int(w[1])
    seq = []
    in_loop = False
    buttons = {d.pins[0]: d.name for d in devs if d.kind == "button"}
    for l in trace:
        w = l.split(" ")
        if l.startswith("== loop"):
            in_loop = True
            seq.append("|")
            continue
        if l.startswith("=="):
            continue
        if w[0] == "delay" and int(w[1]) > 100:
            seq.append(f"s:{w[1]}")
        elif w[0] == "println" and w[1].startswith("x") and re.fullmatch(r"\d{3}", bytes.fromhex(w[1][1:]).decode(errors="replace")):
            seq.append("s:" + bytes.fromhex(w[1][1:]).decode())
        elif w[0] == "dr" and in_loop and int(w[1]) in buttons:
            seq.append("p:" + buttons[int(w[1])])
        else:
            for d in devs:
                if d.is_use_event(w):
                    seq.append("u:" + d.name)
                    break
    return " ".join(seq)


# ---- W4: pin-level assembly tie (Lang/AssemblePins.lean) -------------------------------------------------------------
def pin_items(items):
    """the same generated description, with the pins each constructor names"""
    out = []
    for it in items:
        if it[0] == "decl":
            d = it[1]
            pins = [] if d.kind in ("lcd", "serial") else d.pins
            out.append(f"d:{d.kind}:{d.name}:" + ",".join(str(x) for x in pins))
        elif it[0] == "decl2":
            out.append(f"d:led:{it[1].name}:{it[1].loop_pins[0]}")
        elif it[0] == "use":
            out.append(f"u:{it[1].name}" if it[1].kind != "serial" else f"s:{it[2]}")
        else:
            out.append(f"s:{it[1]}")
    return " ".join(out)


def pin_trace(trace, items_s, items_l, ticks=False):
    """mock-core trace -> the alphabet of AssemblePins.Ev (pm / at / sb / li / w / r / sw / lw / s / p / as / tk), `|` between phases.
    W10: an animation start is the print of exactly ANIM_TEXT (a scroll FRAME is padded to the display width), a tick is the `millis` read
    of __redu_lcd_tick_<style> and belongs to the display of the next lcd.* line (speed_ms=0, loop=True: every tick draws a frame)"""
    buttons, lcds = {}, []
    for w in (items_s + " " + items_l).split():
        f = w.split(":")
        if f[0] == "d" and f[1] in ("button", "buttonin"):
            buttons.setdefault(int(f[3]), f[2])
        if f[0] == "d" and f[1] == "lcd" and f[2] not in lcds:
            lcds.append(f[2])           # display objects are constructed in order of first declaration
    lcd = lambda i: lcds[int(i)] if int(i) < len(lcds) else "?"
    servo_pin = {}
    seq, in_loop = [], False
    for idx, l in enumerate(trace):
        w = l.split(" ")
        k = w[0]
        if l.startswith("== loop"):
            in_loop = True
            seq.append("|")
        elif l.startswith("=="):
            continue
        elif k == "millis" and ticks:      # only in the W10 family (no Ultrasonic there: its helper reads millis too)
            nxt = next((x.split(" ") for x in trace[idx + 1:] if x.startswith(("lcd.", "millis", "==", "delay", "dr "))), ["?"])
            seq.append("tk:" + (lcd(nxt[1]) if nxt[0].startswith("lcd.") else "?"))
        elif k == "lcd.print" and w[4] == ANIM_HEX:
            seq.append("as:" + lcd(w[1]))
        elif k == "pm":
            seq.append(f"pm:{w[1]}:{w[2]}")
        elif k in ("dw", "aw", "tone", "notone"):
            seq.append(f"w:{w[1]}")
        elif k == "dr":
            seq.append(f"p:{buttons.get(int(w[1]), '?')}:{w[1]}" if in_loop else f"r:{w[1]}")
        elif k in ("ar", "pulsein"):
            seq.append(f"r:{w[1]}")
        elif k == "servo.attach":
            servo_pin[w[1]] = w[2]
            seq.append(f"at:{w[2]}")
        elif k == "servo.write":
            seq.append(f"sw:{servo_pin.get(w[1], '?')}")
        elif k == "serial.begin":
            seq.append("sb")
        elif k in ("lcd.init", "lcd.begin"):
            seq.append("li:" + lcd(w[1]))
        elif k == "lcd.print" and w[4] == "x78":
            seq.append("lw:" + lcd(w[1]))
        elif k == "delay" and int(w[1]) > 100:
            seq.append(f"s:{w[1]}")
        elif k == "println" and w[1].startswith("x") and re.fullmatch(r"\d{3}", bytes.fromhex(w[1][1:]).decode(errors="replace")):
            seq.append("s:" + bytes.fromhex(w[1][1:]).decode())
    return " ".join(seq)


IMPORTS = HEAD
ANIM_TEXT = "sc"
ANIM_HEX = "x" + ANIM_TEXT.encode().hex()


def anim_line(name, row):
    return f"{name}.animate(\"scroll\", {row}, \"{ANIM_TEXT}\", speed_ms=0, loop=True)"


def transpile_modes(src, modes):
    """emit(parse(src)) with ButtonDecl.mode set from `modes` (name -> "INPUT"): the mode of a Button is a field of the AST node that
    no script syntax reaches (the parser never sets it; `Button(4, mode="INPUT")` is accepted and the keyword ignored), so the tie
    sets it on the parsed program"""
    import importlib
    parser = importlib.import_module("Reduino.transpile.parser")
    emitter = importlib.import_module("Reduino.transpile.emitter")
    ast_mod = importlib.import_module("Reduino.transpile.ast")
    try:
        prog = parser.parse(src)
        for node in list(prog.setup_body) + list(prog.loop_body):
            if isinstance(node, ast_mod.ButtonDecl) and node.name in modes:
                node.mode = modes[node.name]
        return emitter.emit(prog), None
    except Exception as e:  # noqa: BLE001
        return None, e


def gen_hk(rng):
    """W10: displays (I2C / parallel), some animated before the loop, some inside it, some twice; Buttons in both modes, before the
    loop or at the top of its body; names whose sorted order differs from their declaration order"""
    lnames = rng.sample(["lz", "la", "lm"], rng.randint(1, 3))
    bnames = rng.sample(["bz", "ba", "bm", "k"], rng.randint(0, 3))
    bpins = rng.sample([8, 9, 10, 11, 12, 13], len(bnames))
    addrs = [39, 38, 37]
    pro, body, it_s, it_l, modes = [], [], [], [], {}
    par_used = False
    for i, n in enumerate(lnames):
        if not par_used and rng.random() < 0.3:
            par_used = True
            pro.append(f"{n} = LCD(rs=2, en=3, d4=4, d5=5, d6=6, d7=7)")
            it_s.append(f"d:lcd:{n}:2,3,4,5,6,7")
        else:
            pro.append(f"{n} = LCD(i2c_addr={addrs[i]}, cols=16, rows=2)")
            it_s.append(f"d:lcd:{n}:")
    tag = [100]

    def stmt(lines, items):
        tag[0] += 1
        lines.append(f"sleep({tag[0]})")
        items.append(f"s:{tag[0]}")
    for n, p in zip(bnames, bpins):
        kind = "button"
        if rng.random() < 0.5:
            kind, modes[n] = "buttonin", "INPUT"
        (lines, items) = (body, it_l) if rng.random() < 0.3 else (pro, it_s)
        lines.append(f"{n} = Button({p})")
        items.append(f"d:{kind}:{n}:{p}")
    for n in lnames:
        rows = [0, 1]
        for _ in range(rng.choice([0, 1, 1, 2])):
            pro.append(anim_line(n, rows.pop(0)))
            it_s.append(f"a:{n}")
            if rng.random() < 0.4:
                stmt(pro, it_s)
        if rng.random() < 0.4:
            pro.append(f"{n}.line(0, \"x\")")
            it_s.append(f"u:{n}")
    for n in lnames:
        if rng.random() < 0.35:
            body.append(anim_line(n, 1))
            it_l.append(f"a:{n}")
        if rng.random() < 0.4:
            body.append(f"{n}.line(0, \"x\")")
            it_l.append(f"u:{n}")
    stmt(body, it_l)
    return pro, body, " ".join(it_s), " ".join(it_l), modes


# W10 pinned: (prologue, loop body, setup items, loop items, Button modes)
HK_EXTRAS = [
    # two displays, one animated before the loop and one inside it (never ticked, K18a), two Buttons in different modes
    (["l2 = LCD(i2c_addr=39, cols=16, rows=2)", "l1 = LCD(rs=2, en=3, d4=4, d5=5, d6=6, d7=7)", "b = Button(8)", "a = Button(9)", anim_line("l2", 0), "l1.line(0, \"x\")"],
     [anim_line("l1", 0), "sleep(102)"],
     "d:lcd:l2: d:lcd:l1:2,3,4,5,6,7 d:button:b:8 d:buttonin:a:9 a:l2 u:l1", "a:l1 s:102", {"a": "INPUT"}),
    # two animations on one display: two ticks; displays ticked in name order, after the polls
    (["lz = LCD(i2c_addr=39, cols=16, rows=2)", "la = LCD(i2c_addr=38, cols=16, rows=2)", anim_line("lz", 0), anim_line("lz", 1), anim_line("la", 0), "k = Button(8)"],
     ["sleep(102)"], "d:lcd:lz: d:lcd:la: a:lz a:lz a:la d:buttonin:k:8", "s:102", {"k": "INPUT"}),
    # a Button with mode INPUT at the top of the loop body; the same name and pin before the loop
    (["b = Button(8)"], ["b = Button(8)", "sleep(102)"], "d:buttonin:b:8", "d:buttonin:b:8 s:102", {"b": "INPUT"}),
]
# hand-written re-binding shapes the generator does not produce: (prologue lines, loop lines, setup items, loop items)
PIN_EXTRAS = [
    # a Led bound twice before the loop: each use drives the pin of the binding in force
    (["a = Led(2)", "a.toggle()", "a = Led(3)", "a.toggle()", "sleep(101)"], ["a.toggle()", "sleep(102)"],
     "d:led:a:2 u:a d:led:a:3 u:a s:101", "u:a s:102"),
    # before the loop, and twice at the top of the body
    (["a = Led(2)", "a.toggle()"], ["a = Led(3)", "a = Led(4)", "a.toggle()", "sleep(102)"],
     "d:led:a:2 u:a", "d:led:a:3 d:led:a:4 u:a s:102"),
    # the same RGB LED before the loop and at the top of the body (tuples already in the dedup set), then on new pins
    (["r = RGBLed(3, 5, 6)", "r.set_color(7, 0, 0)"], ["r = RGBLed(3, 5, 6)", "r.set_color(7, 0, 0)", "sleep(102)"],
     "d:rgb:r:3,5,6 u:r", "d:rgb:r:3,5,6 u:r s:102"),
    (["r = RGBLed(3, 5, 6)", "r.set_color(7, 0, 0)"], ["r = RGBLed(9, 10, 11)", "r.set_color(7, 0, 0)", "sleep(102)"],
     "d:rgb:r:3,5,6 u:r", "d:rgb:r:9,10,11 u:r s:102"),
    # motor re-bound at the top of the body: both pin triples are stopped in setup()
    (["m = DCMotor(2, 3, 5)", "m.set_speed(1)"], ["m = DCMotor(7, 8, 9)", "m.set_speed(1)", "sleep(102)"],
     "d:motor:m:2,3,5 u:m", "d:motor:m:7,8,9 u:m s:102"),
    # ultrasonic / potentiometer / buzzer re-bound
    (["mon = SerialMonitor(9600)", "u = Ultrasonic(2, 3)", "mon.write(u.measure_distance())"], ["u = Ultrasonic(4, 5)", "mon.write(u.measure_distance())", "sleep(102)"],
     "d:serial:mon: d:ultra:u:2,3 u:u", "d:ultra:u:4,5 u:u s:102"),
    # every measurement of a name goes through one helper that holds the pins of the LAST binding: bound twice before the loop, a
    # measurement in between drives the second pair before it is configured (see ultrasonic_rebound_before_loop_counterexample)
    (["mon = SerialMonitor(9600)", "u = Ultrasonic(2, 3)", "mon.write(u.measure_distance())", "u = Ultrasonic(4, 5)"], ["sleep(102)"],
     "d:serial:mon: d:ultra:u:2,3 u:u d:ultra:u:4,5", "s:102"),
    (["mon = SerialMonitor(9600)", "p = Potentiometer(\"A0\")", "mon.write(p.read())"], ["p = Potentiometer(\"A1\")", "mon.write(p.read())", "sleep(102)"],
     "d:serial:mon: d:pot:p:14 u:p", "d:pot:p:15 u:p s:102"),
    (["z = Buzzer(4)", "z = Buzzer(5)", "z.play_tone(440)"], ["z.play_tone(440)", "sleep(102)"],
     "d:buzzer:z:4 d:buzzer:z:5 u:z", "u:z s:102"),
    # a Servo name keeps the object attached by its first binding
    (["s = Servo(4)", "s.write(90)"], ["s = Servo(5)", "s.write(90)", "sleep(102)"],
     "d:servo:s:4 u:s", "d:servo:s:5 u:s s:102"),
    # a Button re-bound at the top of the body is polled on the new pin; two buttons are polled in name order
    (["b = Button(4)", "a = Button(6)"], ["b = Button(5)", "sleep(102)"],
     "d:button:b:4 d:button:a:6", "d:button:b:5 s:102"),
    # a Button bound twice before the loop: only the first pin is configured, the second is polled (model of the code as it is;
    # see button_rebound_before_loop_counterexample)
    (["b = Button(4)", "b = Button(5)"], ["sleep(102)"],
     "d:button:b:4 d:button:b:5", "s:102"),
    # parallel LCD with a backlight pin; I2C LCD declared twice
    (["l = LCD(rs=2, en=3, d4=4, d5=5, d6=6, d7=7, backlight_pin=9)", "l.line(0, \"x\")"], ["l.line(0, \"x\")", "sleep(102)"],
     "d:lcd:l:2,3,4,5,6,7,9 u:l", "u:l s:102"),
    (["l = LCD(rs=2, en=3, d4=4, d5=5, d6=6, d7=7)", "l.line(0, \"x\")"], ["sleep(102)"],
     "d:lcd:l:2,3,4,5,6,7 u:l", "s:102"),
    (["l = LCD(i2c_addr=39, cols=16, rows=2)", "l = LCD(i2c_addr=39, cols=16, rows=2)", "l.line(0, \"x\")"], ["sleep(102)"],
     "d:lcd:l: d:lcd:l: u:l", "s:102"),
]


def pins_tie(ctx, cases, srcs, passes, outs, results):
    """additive tie: AssemblePins.run (which pin gets which mode where, which pin a use touches) vs the compiled sketch"""
    reqs = [f"pins|{n}|{pin_items(s)}|{pin_items(l)}" for (_, s, l), n in zip(cases, passes)]
    model = ctx.lean.drive(reqs)
    for (devs, items_s, items_l), src, n, (cpp, exc), res, m in zip(cases, srcs, passes, outs, results, model):
        if cpp is None or res is None or res.compile_error or not res.ok:
            continue                                    # reported by the first tie
        replay = {"script": src, "passes": n, "tie": "pins"}
        ctx.count("pins:generated")
        impl = pin_trace(res.trace, pin_items(items_s), pin_items(items_l))
        if impl != m:
            ctx.tie_diff("tie pin-level assembly (AssemblePins.run vs compiled sketch)", replay, m, impl)
    # W10: housekeeping shapes (animations, Button modes): pinned + generated
    import random
    rng_h = random.Random(f"{ctx.seed}:C05:w10")          # own PRNG: the first tie's cases are unchanged
    hk = list(HK_EXTRAS) + [gen_hk(rng_h) for _ in range(ctx.n(40, 400))]
    hsrcs = [IMPORTS + "\n".join(pro) + "\nwhile True:\n" + "\n".join("    " + x for x in body) + "\n" for pro, body, _, _, _ in hk]
    houts = [transpile_modes(src, h[4]) for src, h in zip(hsrcs, hk)]
    hpass = [2 if i < len(HK_EXTRAS) else rng_h.choice([0, 1, 2, 3]) for i in range(len(hk))]
    hres = iter(cxx.run_many(ctx, [(cpp, n, "") for (cpp, _), n in zip(houts, hpass) if cpp is not None]))
    hmodel = ctx.lean.drive([f"pins|{n}|{s}|{l}" for (_, _, s, l, _), n in zip(hk, hpass)])
    for (pro, body, s, l, modes), src, (cpp, exc), n, m in zip(hk, hsrcs, houts, hpass, hmodel):
        replay = {"script": src, "passes": n, "tie": "pins", "button_modes": modes}
        ctx.count("pins:housekeeping-shape")
        if " a:" in " " + s:
            ctx.count("pins:animated-before-loop")
        if modes:
            ctx.count("pins:button-mode-input")
        ctx.case(src + repr(sorted(modes)), nontrivial=True)
        if cpp is None:
            ctx.tie_diff("tie pin-level assembly (script rejected by the transpiler)", replay, m[:80], repr(exc))
            continue
        res = next(hres)
        if res.compile_error or not res.ok:
            ctx.fail("split:compile", f"sketch does not compile/run: {(res.compile_error or res.stderr)[:300]}", replay)
            continue
        ctx.cov["traces_validated_against_impl"] += 1
        impl = pin_trace(res.trace, s, l, ticks=True)
        if impl != m:
            ctx.tie_diff("tie pin-level assembly (AssemblePins.run vs compiled sketch)", replay, m, impl)
    # hand-written re-binding shapes
    xsrcs = [IMPORTS + "\n".join(pro) + "\nwhile True:\n" + "\n".join("    " + x for x in body) + "\n" for pro, body, _, _ in PIN_EXTRAS]
    xouts = [cxx.transpile(s) for s in xsrcs]
    inp = "".join(f"p {e} " + " ".join(["1000"] * 64) + "\n" for e in range(0, 14))
    xres = iter(cxx.run_many(ctx, [(cpp, 2, inp) for cpp, _ in xouts if cpp is not None]))
    xmodel = ctx.lean.drive([f"pins|2|{s}|{l}" for _, _, s, l in PIN_EXTRAS])
    for (pro, body, s, l), src, (cpp, exc), m in zip(PIN_EXTRAS, xsrcs, xouts, xmodel):
        replay = {"script": src, "passes": 2, "tie": "pins"}
        ctx.count("pins:rebinding-shape")
        ctx.case(src, nontrivial=True)
        if cpp is None:
            ctx.tie_diff("tie pin-level assembly (script rejected by the transpiler)", replay, m[:80], repr(exc))
            continue
        res = next(xres)
        if res.compile_error or not res.ok:
            ctx.fail("split:compile", f"sketch does not compile/run: {(res.compile_error or res.stderr)[:300]}", replay)
            continue
        ctx.cov["traces_validated_against_impl"] += 1
        impl = pin_trace(res.trace, s, l)
        if impl != m:
            ctx.tie_diff("tie pin-level assembly (AssemblePins.run vs compiled sketch)", replay, m, impl)


CTX = {"if": ["if n > 3:"], "else": ["if n > 3:", "    led.on()", "else:"], "elif": ["if n > 3:", "    led.on()", "elif n > 1:"],
       "try": ["try:"], "except": ["try:", "    led.on()", "except:"], "for": ["for i in range(3):"], "while": ["while n < 5:"],
       "forelse": ["for i in range(3):", "    led.on()", "else:"]}
BRK_HEAD = "from Reduino.Actuators import Led\nfrom Reduino.Utils import sleep\nled = Led(13)\nn = 0\nwhile True:\n    n = n + 1\n"


def break_script(path):
    lines, ind, closers = [], 1, []
    for c in path:
        lines += ["    " * ind + l for l in CTX[c]]
        closers.append((ind, c))
        ind += 1
        if c == "while":
            lines.append("    " * ind + "n = n + 1")
    lines.append("    " * ind + "break")
    for i, c in reversed(closers):
        if c == "try":
            lines += ["    " * i + "except:", "    " * (i + 1) + "led.off()"]
    return BRK_HEAD + "\n".join(lines) + "\n"


def break_guard(ctx):
    """clause (i): a `break` whose innermost enclosing loop is the main loop is refused; one inside a nested loop is kept"""
    rng = ctx.rng
    paths = [(k,) for k in CTX] + [tuple(rng.choice(list(CTX)) for _ in range(rng.randint(2, 4))) for _ in range(ctx.n(40, 400))]
    accepted = []
    for path in dict.fromkeys(paths):
        src = break_script(path)
        binds_inner = any(c in ("for", "while") for c in path)
        cpp, exc = cxx.transpile(src)
        ctx.count("break:" + ("nested" if binds_inner else "main"))
        ctx.case(src, nontrivial=True)
        replay = {"script": src, "path": list(path)}
        if not binds_inner:
            if cpp is not None:
                ctx.fail("split:break-leaves-main-loop", f"`break` bound to the main loop accepted (context {'>'.join(path)})", replay)
            elif not isinstance(exc, ValueError):
                ctx.fail("split:break-wrong-error", f"{type(exc).__name__} instead of ValueError (context {'>'.join(path)})", replay)
        else:
            if cpp is None:
                ctx.fail("split:nested-break-refused", f"`break` of a nested loop refused: {exc!r}", replay)
            else:
                accepted.append((src, cpp, path))
    for (src, cpp, path), res in zip(accepted, cxx.run_many(ctx, [(c, 2, "") for _, c, _ in accepted])):
        if res.compile_error or not res.ok:
            ctx.fail("split:compile", f"sketch with nested break does not compile/run: {(res.compile_error or res.stderr)[:300]}", {"script": src})
        elif sum(1 for l in res.trace if l.startswith("== loop")) < 2:
            ctx.fail("split:break-leaves-main-loop", "loop() did not run for every pass", {"script": src})


REBOUND = [
    # a device name bound twice BEFORE the main loop (found by the pin-level model, W4): the second binding's pins are used without ever being configured
    ("rebind:button-rebound-before-loop", HEAD + "b = Button(4)\nb = Button(5)\nwhile True:\n    sleep(102)\n"),
    ("rebind:ultrasonic-rebound-before-loop", HEAD + "mon = SerialMonitor(9600)\nu = Ultrasonic(2, 3)\nmon.write(u.measure_distance())\nu = Ultrasonic(4, 5)\nwhile True:\n    sleep(102)\n"),
    # controls: the same re-bindings at the top of the loop body are configured
    ("rebind:button-rebound-in-loop", HEAD + "b = Button(4)\nwhile True:\n    b = Button(5)\n    sleep(102)\n"),
    ("rebind:led-rebound-before-loop", HEAD + "l = Led(4)\nl.on()\nl = Led(5)\nl.on()\nwhile True:\n    l.toggle()\n"),
]


def rebound_before_loop(ctx):
    outs = [cxx.transpile(s) for _, s in REBOUND]
    it = iter(cxx.run_many(ctx, [(cpp, 2, "p 3 0 0 2 2 1000\np 5 0 0 2 2 1000") for cpp, e in outs if cpp is not None]))
    for (key, src), (cpp, exc) in zip(REBOUND, outs):
        ctx.case(key, nontrivial=True)
        if cpp is None:
            ctx.count("rebound:rejected")
            continue
        res = next(it)
        if res.compile_error or not res.ok:
            ctx.fail(key, f"sketch does not compile/run: {(res.compile_error or res.stderr)[:200]}", {"script": src})
            continue
        conf = set()
        for l in res.trace:
            w = l.split(" ")
            if w[0] == "pm":
                conf.add(int(w[1]))
            elif w[0] in ("dw", "aw", "dr", "pulsein") and int(w[1]) not in conf:
                ctx.fail(key, f"{l!r} although pin {w[1]} has not been configured (configured so far: {sorted(conf)})", {"script": src, "trace": res.trace[:20]})
                break


def run(ctx: Ctx) -> int:
    ctx.prove(["Reduino.Props.C05", "Reduino.Props.C05Pins"])
    common.fresh_import()
    rng = ctx.rng
    cases = [gen(rng, force=(k, pl)) for k in sorted(LOOP_OK | {"buzzer"}) for pl in (("setup", "loop") if k in LOOP_OK else ("setup",))]
    cases += [gen(rng, force=("led", "setup"), redecl=True) for _ in range(3)]      # a Led bound again, to another pin, at the top of the loop body
    cases += [gen(rng) for _ in range(ctx.n(80, 1000))]
    srcs = [script(s, l) for _, s, l in cases]
    n_pinned = len([1 for k in sorted(LOOP_OK | {"buzzer"}) for pl in (("setup", "loop") if k in LOOP_OK else ("setup",))]) + 3
    passes = [2 if i < n_pinned else rng.choice([0, 1, 3]) for i in range(len(cases))]      # pinned cases always run the loop
    outs = [cxx.transpile(s) for s in srcs]
    def inputs(devs):   # every echo pin answers the first attempt, so one measure call is one pulseIn
        return "".join(f"p {d.pins[1]} " + " ".join(["1000"] * 64) + "\n" for d in devs if d.kind == "ultra")
    jobs = [(cpp, n, inputs(c[0])) for (cpp, e), n, c in zip(outs, passes, cases) if cpp is not None]
    it = iter(cxx.run_many(ctx, jobs))
    results = [next(it) if cpp is not None else None for cpp, e in outs]
    model = ctx.lean.drive([f"assemble|{n}|{model_items(s)}|{model_items(l)}" for (_, s, l), n in zip(cases, passes)])
    for (devs, items_s, items_l), src, n, (cpp, exc), res, m in zip(cases, srcs, passes, outs, results, model):
        replay = {"script": src, "passes": n}
        ctx.count("devices:" + "+".join(sorted({d.kind for d in devs})))
        if cpp is None:
            ctx.tie_diff("tie assemble (script rejected by the transpiler)", replay, m[:80], repr(exc))
            continue
        if res.compile_error or not res.ok:
            ctx.fail("split:compile", f"sketch does not compile/run: {(res.compile_error or res.stderr)[:300]}", replay)
            continue
        ctx.cov["traces_validated_against_impl"] += 1
        impl = abstract_trace(res.trace, devs)
        ctx.case(src, nontrivial=True, sample={"script": src, "model": m[:200]} if len(ctx.cov["samples"]) < 2 else None)
        if impl != m:
            ctx.tie_diff("tie assemble (Lang.Assemble.run vs compiled sketch: order of use/statement/poll events)", replay, m, impl)
        monitor(ctx, res.trace, devs, src, n)
    pins_tie(ctx, cases, srcs, passes, outs, results)
    break_guard(ctx)
    lateinit.check(ctx, "split:prologue-order", 40, 400)
    lateinit.check(ctx, "split:value-does-not-persist", 40, 400, passes=3, family=lateinit.persist_scripts)
    rebound_before_loop(ctx)
    ctx.cov["rule"] = ("random device sets (1-5 devices of 9 kinds on distinct pins + serial) declared before the main loop or (hoistable kinds) at the top of its body, "
                       "uses and marker statements in both phases, N in {0,1,3}; every sketch compiled and run; plus `break` under random nestings of if/elif/else/try/except/for/while/for-else in the main loop; distinct = distinct scripts")
    return ctx.finish(TRUSTED, search=None)
