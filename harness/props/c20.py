"""C20 — host sensors, Core pins, timing and serial helpers.

Proof: lean/Reduino/Props/C20.lean.  Tie H: model (Float) vs the real modules, same request lines.
Oracle: the property's laws evaluated on the real modules."""
from __future__ import annotations

import importlib

import common
from common import Ctx, enc, f64, hexs
import hostrun

TRUSTED = [
    "Lean 4.33 kernel; axioms ⊆ {propext, Classical.choice, Quot.sound}",
    "harness/props/c20.py + Driver.lean canonical printers (tie H)",
    "exact-arithmetic theorems (ordered field K); IEEE rounding only through the bit-exact tie",
    "pin names are ASCII (Python str.isdigit on non-ASCII digits is not modelled)",
    "str(value) is a parameter of the SerialMonitor.write model",
    "harness/pytolean.py (shape \"num\"), the translator of `Utils.map` / `Utils.sleep` to Lean (joins the trusted base: its reading of the Python subset — number "
    "parameters and single-assignment locals = the model's `Val α`; `+ - * /` = `Val.add/sub/mul/div`, `float(e)` = `Val.toFloat`, an int literal = `Val.int`, a float "
    "literal with an integral value = `Val.flt (Num.ofInt n)`; `a == b` = `Host.Utils.veq` (no NaN), `<`/`<=` = `Val.lt`/`Val.le`; `if c: raise ValueError(...)` = "
    "`.error .valueError`, `return e` = `.ok e`; `h = <keyword-only hook> or <callable>; h(e)` as the last statement = `.ok e`, the value handed to the effect; `/` is "
    "accepted only where the divisor is a non-zero literal or `x - y` after a guard `if x == y: raise` — that `x != y` gives `x - y != 0` holds in an ordered field and in "
    "IEEE doubles with gradual underflow and is not proved here; a source outside the subset is reported as a broken obligation); the bit-exact differential tie of "
    "`Host.Utils.map/sleep` against CPython exercises the same two functions independently of the translator",
]

PINS = [("n", 0), ("n", 7), ("n", 13), ("s", "7"), ("s", "13"), ("s", "007"), ("s", "A0"), ("s", "A1"), ("s", " 7"), ("s", "-7"), ("s", ""), ("n", -7), ("s", "0")]
MODES = ["INPUT", "OUTPUT", "INPUT_PULLUP", "input_pullup", "X"]
DV = [0, 1, 2, -1, True, False, 0.0, 0.5, -0.0, 255]
AV = [0, 1, 127, 128, 255, 256, 300, -1, -20, 0.5, 1.5, 2.5, 127.5, 254.5, 255.4, 255.5, -0.5, True, 1e3]


def ptok(p):
    return f"n{p[1]}" if p[0] == "n" else hexs(p[1])


def pval(p):
    return p[1]


def tok(v):
    if isinstance(v, bool):
        return "b1" if v else "b0"
    return enc(v)


def gen_core(rng):
    pins = rng.sample(PINS, rng.randint(1, 4))
    ops = []
    for _ in range(rng.randint(1, 16)):
        p = rng.choice(pins)
        k = rng.choice(["pm", "dw", "dw", "aw", "aw", "dr", "dr", "ar", "ar"])
        if k == "pm":
            ops.append(("pm", p, rng.choice(MODES)))
        elif k == "dw":
            ops.append(("dw", p, rng.choice(DV)))
        elif k == "aw":
            ops.append(("aw", p, rng.choice(AV)))
        else:
            ops.append((k, p))
    return ops


def core_line(ops):
    out = []
    for o in ops:
        if o[0] == "pm":
            out.append(f"pm {ptok(o[1])} {hexs(o[2])}")
        elif o[0] in ("dw", "aw"):
            out.append(f"{o[0]} {ptok(o[1])} {tok(o[2])}")
        else:
            out.append(f"{o[0]} {ptok(o[1])}")
    return "core|" + "|".join(out)


def reset_core(core):
    core._pin_modes.clear()
    core._digital_values.clear()
    core._analog_values.clear()


def run_core(core, ops):
    reset_core(core)
    out = []
    for o in ops:
        if o[0] == "pm":
            core.pin_mode(pval(o[1]), o[2]); out.append("-")
        elif o[0] == "dw":
            core.digital_write(pval(o[1]), o[2]); out.append("-")
        elif o[0] == "aw":
            core.analog_write(pval(o[1]), o[2]); out.append("-")
        elif o[0] == "dr":
            out.append(str(core.digital_read(pval(o[1]))))
        else:
            out.append(str(core.analog_read(pval(o[1]))))
    return "|".join(out)


def norm(p):
    v = p[1]
    if isinstance(v, str) and v.isdigit():
        return int(v)
    return v


def core_oracle(ctx, core, ops, line):
    """abstract memory: per normalised pin, last digital level / last analog duty"""
    reset_core(core)
    dig, ana, pull = {}, {}, {}
    for i, o in enumerate(ops):
        k = norm(o[1])
        if o[0] == "pm":
            core.pin_mode(pval(o[1]), o[2])
            pull[k] = (o[2] == "INPUT_PULLUP")
            if o[2] == "INPUT_PULLUP" and k not in dig:
                dig[k] = 1
        elif o[0] == "dw":
            core.digital_write(pval(o[1]), o[2]); dig[k] = 1 if o[2] else 0
        elif o[0] == "aw":
            core.analog_write(pval(o[1]), o[2]); ana[k] = max(0, min(255, int(round(float(o[2])))))
        elif o[0] == "dr":
            got = core.digital_read(pval(o[1]))
            want = dig.get(k, 0)
            if got != want:
                ctx.fail("core:digital", f"digital_read({pval(o[1])!r}) = {got}, last written {want}", {"request": line, "op_index": i})
        else:
            got = core.analog_read(pval(o[1]))
            want = ana.get(k, 0)
            if got != want or not 0 <= got <= 255:
                ctx.fail("core:analog", f"analog_read({pval(o[1])!r}) = {got}, last written (clamped) {want}", {"request": line, "op_index": i})


NUMS = [0, 1, -1, 5, 10, 100, 1023, 255, 0.0, 0.5, -2.5, 3.25, 1e3, 180, True]


def run(ctx: Ctx) -> int:
    ctx.prove(["Reduino.Props.C20", "Reduino.GenOb.Utils"])
    common.fresh_import()
    core = importlib.import_module("Reduino.Core")
    utils = importlib.import_module("Reduino.Utils")
    sensors = importlib.import_module("Reduino.Sensors")
    comm = importlib.import_module("Reduino.Communication")
    rng = ctx.rng
    reqs = []   # (model line, impl answer thunk, oracle thunk)

    # ---- Core ------------------------------------------------------------------------------
    core_cases = [
        [("dw", ("n", 7), 0), ("pm", ("s", "7"), "INPUT_PULLUP"), ("dr", ("n", 7))],
        [("pm", ("n", 4), "INPUT_PULLUP"), ("dr", ("s", "4")), ("pm", ("n", 4), "INPUT"), ("dr", ("n", 4))],
        [("aw", ("s", "A0"), 300), ("ar", ("s", "A0")), ("aw", ("n", 3), -5), ("ar", ("s", "3")), ("aw", ("n", 3), 2.5), ("ar", ("n", 3))],
    ]
    for _ in range(ctx.n(900, 5000)):
        core_cases.append(gen_core(rng))
    for ops in core_cases:
        line = core_line(ops)
        reqs.append((line, (lambda ops=ops: run_core(core, ops)), (lambda ops=ops, line=line: core_oracle(ctx, core, ops, line))))

    # ---- map / sleep -------------------------------------------------------------------------
    def map_impl(a):
        try:
            return "ok " + enc(utils.map(*a))
        except ValueError as e:
            return hostrun.excname(e)

    def map_oracle(a, line):
        v, fl, fh, tl, th = [float(x) for x in a]
        try:
            r = utils.map(*a)
        except ValueError:
            if fl != fh:
                ctx.fail("map:raise", f"map{tuple(a)} raised with a non-empty source range", {"request": line})
            return
        if fl == fh:
            ctx.fail("map:zero-span", f"map{tuple(a)} accepted a zero-width range", {"request": line})
            return
        want = tl + (v - fl) / (fh - fl) * (th - tl)
        if abs(r - want) > 1e-9 * max(1.0, abs(want)):
            ctx.fail("map:affine", f"map{tuple(a)} = {r}, affine map gives {want}", {"request": line})

    for _ in range(ctx.n(600, 3000)):
        a = [rng.choice(NUMS) for _ in range(5)]
        if rng.random() < 0.3:
            a[0] = rng.choice([a[1], a[2]])
        if rng.random() < 0.15:
            a[2] = a[1]
        line = "map|" + " ".join(tok(x) for x in a)
        reqs.append((line, (lambda a=a: map_impl(a)), (lambda a=a, line=line: map_oracle(a, line))))
    # narrow but non-empty source ranges: a width that is tiny RELATIVE to the bounds (timestamps, large counters, floats a few ulps apart)
    import math
    for _ in range(ctx.n(150, 800)):
        base = rng.choice([1700000000000, 10 ** 12, 2 ** 40, 10 ** 9, 123456789, 0.3, 1023.0, 1e6, -5e8, 2.5e11])
        if isinstance(base, int):
            fl, fh = base, base + rng.choice([1, 2, 3, -1, 7])
        else:
            fh = base
            for _k in range(rng.choice([1, 2, 3, 8])):
                fh = math.nextafter(fh, math.inf if rng.random() < 0.5 else -math.inf)
            fl = base
            if fh == fl:
                fh = math.nextafter(fl, math.inf)
        v = rng.choice([fl, fh, fl, fh, (fl + fh) / 2 if isinstance(fl, float) else fl + 1])
        a = [v, fl, fh, rng.choice([0, 10.0, -1]), rng.choice([255, 20.0, 1023])]
        line = "map|" + " ".join(tok(x) for x in a)
        reqs.append((line, (lambda a=a: map_impl(a)), (lambda a=a, line=line: map_oracle(a, line))))

    def sleep_impl(d):
        calls = []
        try:
            utils.sleep(d, sleep_func=lambda s: calls.append(s))
        except ValueError as e:
            return hostrun.excname(e) + ("" if not calls else " called")
        return "ok " + ",".join(f64(c) for c in calls)

    def sleep_oracle(d, line):
        calls = []
        try:
            utils.sleep(d, sleep_func=lambda s: calls.append(s))
            ok = True
        except ValueError:
            ok = False
        if ok != (d >= 0) or (ok and (len(calls) != 1 or abs(calls[0] - float(d) / 1000.0) > 1e-12)) or (not ok and calls):
            ctx.fail("sleep", f"sleep({d!r}) -> ok={ok} calls={calls}", {"request": line})

    for d in [0, 1, 250, 1000, -1, -0.001, 0.5, 2.5, 1e6, True, False, 33.3] + [rng.choice([rng.randint(-5, 5000), rng.uniform(-1, 100)]) for _ in range(ctx.n(40, 400))]:
        line = "sleep|" + tok(d)
        reqs.append((line, (lambda d=d: sleep_impl(d)), (lambda d=d, line=line: sleep_oracle(d, line))))

    # ---- Button ------------------------------------------------------------------------------
    def button_impl(sig):
        it = iter(sig)
        clicks = []
        b = sensors.Button(2, on_click=lambda: clicks.append(1), state_provider=lambda: next(it))
        out = []
        for _ in sig:
            n0 = len(clicks)
            r = b.is_pressed()
            out.append(f"{r}{'T' if len(clicks) > n0 else 'F'}")
        return " ".join(out) + f" clicks={len(clicks)}"

    def button_oracle(sig, line):
        for mode in ("provider", "set_pressed"):
            clicks = []
            if mode == "provider":
                it = iter(sig)
                b = sensors.Button(2, on_click=lambda: clicks.append(1), state_provider=lambda: next(it))
                rets = [b.is_pressed() for _ in sig]
            else:
                b = sensors.Button(2, on_click=lambda: clicks.append(1))
                rets = []
                for s in sig:
                    for g in range(rng.randint(0, 2)):
                        b.set_pressed(not s)      # glitches between two samples must not matter
                    b.set_pressed(s)
                    rets.append(b.is_pressed())
            edges = sum(1 for i, s in enumerate(sig) if s and not (sig[i - 1] if i else False))
            if len(clicks) != edges or rets != [1 if s else 0 for s in sig]:
                ctx.fail("button", f"signal {sig} ({mode}): {len(clicks)} clicks for {edges} rising edges, returns {rets}", {"request": line})

    sigs = [[bool((m >> i) & 1) for i in range(n)] for n in range(1, 7) for m in range(2 ** n)] if ctx.tier == "thorough" else \
           [[bool((m >> i) & 1) for i in range(n)] for n in range(1, 5) for m in range(2 ** n)]
    sigs += [[rng.random() < 0.5 for _ in range(rng.randint(5, 40))] for _ in range(ctx.n(40, 400))]
    for sig in sigs:
        line = "button|" + " ".join("1" if s else "0" for s in sig)
        reqs.append((line, (lambda sig=sig: button_impl(sig)), (lambda sig=sig, line=line: button_oracle(sig, line))))

    # ---- Potentiometer / Ultrasonic -----------------------------------------------------------
    def pot_impl(v):
        p = sensors.Potentiometer("A0") if v is None else sensors.Potentiometer("A0", value_provider=lambda: v)
        try:
            return f"ok {p.read()}"
        except ValueError as e:
            return hostrun.excname(e)

    def pot_oracle(v, line):
        r = pot_impl(v)
        iv = 0 if v is None else int(v)
        want = f"ok {iv}" if 0 <= iv <= 1023 else "raise:ValueError"
        if r != want:
            ctx.fail("pot", f"provider {v!r}: read() -> {r}, expected {want}", {"request": line})

    for v in [None, 0, 1, 512, 1023, 1024, -1, 1023.9, 1024.0, -0.5, -1.0, 0.99, True, 5000]:
        line = "pot|" + ("none" if v is None else tok(v))
        reqs.append((line, (lambda v=v: pot_impl(v)), (lambda v=v, line=line: pot_oracle(v, line))))

    def ultra_impl(v, d):
        try:
            s = sensors.Ultrasonic(7, 8, default_distance=d) if v is None else sensors.Ultrasonic(7, 8, distance_provider=lambda: v, default_distance=d)
            return "ok " + f64(s.measure_distance())
        except ValueError as e:
            return hostrun.excname(e)

    def ultra_oracle(v, d, line):
        r = ultra_impl(v, d)
        x = float(d if v is None else v)
        want = "ok " + f64(x) if x >= 0 else "raise:ValueError"
        if r != want:
            ctx.fail("ultra", f"provider {v!r} default {d!r}: measure_distance() -> {r}, expected {want}", {"request": line})

    for v in [None, 0, 12.5, 400, -0.001, -1, 1e-9, True, 3]:
        for d in [0.0, 7, -2, 2.25]:
            line = "ultra|" + ("none" if v is None else tok(v)) + "|" + tok(d)
            reqs.append((line, (lambda v=v, d=d: ultra_impl(v, d)), (lambda v=v, d=d, line=line: ultra_oracle(v, d, line))))

    # ---- SerialMonitor.write --------------------------------------------------------------------
    class FakeSerial:
        def __init__(self, **kw):
            self.is_open = True
            self.sent = []

        def write(self, b):
            self.sent.append(b)

        def close(self):
            self.is_open = False

    class Obj:
        def __str__(self):
            return "obj\n"

    def serial_run(value, nl, connect):
        class Backend:
            Serial = FakeSerial
        comm.serial = Backend
        mon = comm.SerialMonitor(9600, newline=nl)
        if connect:
            mon.connect("COM1")
        ret = mon.write(value)
        sent = mon._serial.sent if connect else []
        return sent, ret

    def serial_impl(value, nl, connect):
        sent, ret = serial_run(value, nl, connect)
        return "sent=" + ",".join("x" + b.hex() for b in sent) + " ret=" + hexs(ret)

    def serial_oracle(value, nl, connect, line):
        sent, ret = serial_run(value, nl, connect)
        want = [(str(value) + nl).encode("utf-8")] if connect else []
        if ret != str(value) or sent != want:
            ctx.fail("serial", f"write({value!r}) newline {nl!r}: sent {sent}, returned {ret!r}", {"request": line})

    values = [0, 42, -7, 3.5, True, None, "", "hi", "line\n", "a|b c", "cmd;", "x\r\n", "ünï", Obj(), [1, 2], 1e20]
    for value in values:
        for nl in ["\n", "\r\n", ";", ""]:
            for connect in (True, False):
                line = f"serial|{hexs(str(value))}|{hexs(nl)}|{'T' if connect else 'F'}"
                reqs.append((line, (lambda a=(value, nl, connect): serial_impl(*a)), (lambda a=(value, nl, connect), line=line: serial_oracle(*a, line))))

    # ---- run -----------------------------------------------------------------------------------
    model = ctx.lean.drive([hostrun.model_line(r[0]) for r in reqs])
    for (line, impl_f, oracle_f), m in zip(reqs, model):
        impl = impl_f()
        ctx.cov["traces_validated_against_impl"] += 1
        kind = line.split("|")[0]
        ctx.count(kind)
        nontrivial = not (kind == "core" and set(m.split("|")) <= {"-", "0"})
        ctx.case(line, nontrivial, sample={"request": line, "answer": m[:200]} if nontrivial and ctx.cov["histogram"][kind] <= 1 else None)
        if m != impl:
            ctx.tie_diff("tie H (Core/Utils/sensor/serial model vs real modules)", line, m, impl)
        oracle_f()
    ctx.cov["rule"] = ("interleavings of pin_mode/digital_write/analog_write/reads over int and str pin names (1-16 ops, 1-4 pins); "
                       "map/sleep over int/float/bool grids; all button signals up to length 4 (quick) / 6 (thorough) plus random long ones; "
                       "pot/ultrasonic provider grids; serial values x newlines x connected; non-trivial = not (a core run whose reads are all 0)")
    return ctx.finish(TRUSTED, search=None)
