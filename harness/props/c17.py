"""C17 — LCD text: same characters in the same cells on device and host, never off-row.

Proof: lean/Reduino/Props/C17.lean (Fw templates vs Host buffer operations in Fw/Lcd.lean).
Ties: S_c (firmware model vs the mock HD44780 cell matrix after every call of the compiled sketch) and H (host model vs
LCD.dump() of the real class).  Oracle E: mock cell matrix == dump() of the real host class after every call; no write
outside the visible row; progress-bar laws; backlight pin; glyph rows."""
from __future__ import annotations

import importlib

import common
import devscript as ds
from common import Ctx, hexs

TRUSTED = [
    "Lean 4.33 kernel; axioms ⊆ {propext, Classical.choice, Quot.sound}",
    "harness/mockcore LiquidCrystal/LiquidCrystal_I2C cell matrix (real HD44780 DDRAM addressing/wrapping is not modelled) + host g++",
    "ASCII text only (String.length() counts bytes on the device, len() counts characters on the host)",
    "progress-bar host side uses exact arithmetic in the theorems (Python float division/round via the tie only)",
]

HEAD = ["from Reduino.Displays import LCD", "from Reduino.Communication import SerialMonitor"]
ALPHA = "abcdefghijklmnopqrstuvwxyzABCDEFGHIJKLMNOPQRSTUVWXYZ0123456789 .,:;!?+-*_"
ALIGNS = ["left", "center", "right", "left", "center", "right", "Center", "RIGHT", "Left", "cEnTer"]   # keywords are case-insensitive on both sides; the model is given the lower-case form
STYLES = ["block", "hash", "pipe", "dot"]


def rtext(rng, space):
    cls = rng.choice(["empty", "short", "equal", "longer", "one"])
    n = {"empty": 0, "short": max(0, space - rng.randint(1, max(1, space))), "equal": space, "longer": space + rng.randint(1, 6), "one": 1}[cls]
    return "".join(rng.choice(ALPHA) for _ in range(max(0, n)))


def gen_case(rng, in_range=True):
    cols, rows = rng.randint(1, 40), rng.randint(1, 4)
    if rng.random() < 0.3:
        cols = rng.choice([1, 2, 8, 16, 20, 40])
    i2c = rng.random() < 0.4
    ops = []
    for _ in range(rng.randint(1, 10)):
        k = rng.choice(["wr", "wr", "ln", "ln", "msg", "clr", "prog", "prog", "bl", "disp", "bri", "glyph"])
        r = rng.randrange(rows)
        if k == "wr":
            c = rng.randrange(cols)
            ops.append(("wr", c, r, rtext(rng, cols - c), rng.random() < 0.5, rng.choice(ALIGNS), rng.random() < 0.3))
        elif k == "ln":
            ops.append(("ln", r, rtext(rng, cols), rng.choice(ALIGNS), rng.random() < 0.6, rng.random() < 0.3))
        elif k == "msg":
            top = rtext(rng, cols) if rng.random() < 0.8 else None
            bottom = rtext(rng, cols) if (rng.random() < 0.7 and rows > 1) else None
            ops.append(("msg", top, bottom, rng.choice(ALIGNS), rng.choice(ALIGNS), rng.random() < 0.6))
        elif k == "clr":
            ops.append(("clr",))
        elif k == "prog":
            mx = rng.choice([1, 2, 3, 7, 10, 100, 255, 1000])
            v = rng.choice([-3, 0, 1, mx // 2, mx - 1, mx, mx + 5, rng.randint(0, mx)])
            w = rng.choice([None, None, 1, cols, max(1, cols // 2), rng.randint(1, cols)])
            label = rng.choice([None, None, "L", "Vol", "x" * 3])
            ops.append(("prog", r, v, mx, w, rng.choice([str, str, str.capitalize, str.upper])(rng.choice(STYLES)), label))
        elif k in ("bl", "disp"):
            ops.append((k, rng.random() < 0.5))
        elif k == "bri":
            ops.append(("bri", rng.choice([0, 1, 100, 128, 254, 255])))
        else:
            ops.append(("glyph", rng.randint(0, 7), [rng.choice([0, 1, 14, 17, 31, 32, 63, 255, 4]) for _ in range(8)]))
    if i2c:   # brightness() is parallel-only (RuntimeError on the host, no code on the device)
        ops = [o for o in ops if o[0] != "bri"] or [("clr",)]
    return cols, rows, i2c, ops


def build(cols, rows, i2c, ops):
    lines = HEAD + ["mon = SerialMonitor(9600)"]
    nv = [0]
    body = []

    def s(txt, var):
        if var:
            nv[0] += 1
            lines.append(f"sv{nv[0]} = {txt!r}")
            return f"sv{nv[0]}"
        return repr(txt)
    reqs = []
    H = lambda t: "-" if t is None else hexs(t)
    T = lambda b: "T" if b else "F"
    for op in ops:
        k = op[0]
        if k == "wr":
            _, c, r, t, clear, al, var = op
            body.append(f"lcd.write({c}, {r}, {s(t, var)}, clear_row={clear}, align={al!r})")
            reqs.append(f"wr {c} {r} {H(t) if t else '-'} {T(clear)} {al.lower()}")
        elif k == "ln":
            _, r, t, al, clear, var = op
            body.append(f"lcd.line({r}, {s(t, var)}, align={al!r}, clear_row={clear})")
            reqs.append(f"ln {r} {H(t) if t else '-'} {al.lower()} {T(clear)}")
        elif k == "msg":
            _, top, bottom, ta, ba, clear = op
            args = []
            if top is not None:
                args.append(f"top={top!r}")
            if bottom is not None:
                args.append(f"bottom={bottom!r}")
            args += [f"top_align={ta!r}", f"bottom_align={ba!r}", f"clear_rows={clear}"]
            body.append(f"lcd.message({', '.join(args)})")
            hx = lambda t: "-" if t is None else ("x" if t == "" else hexs(t))
            reqs.append(f"msg {hx(top)} {hx(bottom)} {ta.lower()} {ba.lower()} {T(clear)}")
        elif k == "clr":
            body.append("lcd.clear()")
            reqs.append("clr")
        elif k == "prog":
            _, r, v, mx, w, style, label = op
            extra = ("" if w is None else f", width={w}") + f", style={style!r}" + ("" if label is None else f", label={label!r}")
            body.append(f"lcd.progress({r}, {v}, {mx}{extra})")
            reqs.append(f"prog {r} {v} {mx} {'-' if w is None else w} {style.lower()} {'-' if not label else hexs(label)}")
        elif k in ("bl", "disp", "bri"):
            # every second such call passes its argument through a variable (the non-literal emission path)
            arg = repr(op[1])
            if len(body) % 4 == 0:
                nv[0] += 1
                lines.append(f"fv{nv[0]} = {op[1]!r}")
                arg = f"fv{nv[0]}"
            body.append(f"lcd.{ {'bl': 'backlight', 'disp': 'display', 'bri': 'brightness'}[k]}({arg})")
            reqs.append(f"bl {T(op[1])}" if k == "bl" else f"disp {T(op[1])}" if k == "disp" else f"bri {op[1]}")
        else:
            body.append(f"lcd.glyph({op[1]}, {op[2]!r})")
            reqs.append("glyph " + str(op[1]) + " " + " ".join(map(str, op[2])))
        body.append('mon.write("#")')
    decl = (f"lcd = LCD(i2c_addr=0x27, cols={cols}, rows={rows})" if i2c
            else f"lcd = LCD(rs=12, en=11, d4=5, d5=4, d6=3, d7=2, cols={cols}, rows={rows}, backlight_pin=9)")
    src = "\n".join(lines + [decl, 'mon.write("#")'] + body) + "\n"
    return src, f"{cols} {rows}|" + "|".join(reqs)


def canon_cells(h: str) -> str:
    """mock cell dump -> same form as the model's (rows joined by \\n, block glyph as '@')"""
    raw = bytes.fromhex(h[1:])
    rows = raw.split(b"\n")[:-1]
    return "x" + b"\n".join(r.replace(b"\xff", b"@") for r in rows).hex()


def host_run(LCD, cols, rows, i2c, ops):
    """the real host class, same calls; returns per-op result strings in the model's host format and raw dumps"""
    lcd = LCD(i2c_addr=0x27, cols=cols, rows=rows) if i2c else LCD(rs=12, en=11, d4=5, d5=4, d6=3, d7=2, cols=cols, rows=rows, backlight_pin=9)
    out, dumps = [], []
    for op in ops:
        k = op[0]
        try:
            if k == "wr":
                lcd.write(op[1], op[2], op[3], clear_row=op[4], align=op[5])
            elif k == "ln":
                lcd.line(op[1], op[2], align=op[3], clear_row=op[4])
            elif k == "msg":
                lcd.message(op[1], op[2], top_align=op[3], bottom_align=op[4], clear_rows=op[5])
            elif k == "clr":
                lcd.clear()
            elif k == "prog":
                lcd.progress(op[1], op[2], op[3], width=op[4], style=op[5], label=op[6])
            elif k == "bl":
                lcd.backlight(op[1])
            elif k == "disp":
                lcd.display(op[1])
            elif k == "bri":
                lcd.brightness(op[1])
            else:
                lcd.glyph(op[1], op[2])
            if k in ("bl", "disp", "bri"):
                out.append(f"on={'T' if lcd.backlight_on else 'F'} b={lcd.brightness_level}")
            elif k == "glyph":
                out.append(",".join(map(str, lcd.glyphs[op[1]])))
            else:
                out.append("x" + lcd.dump().replace("█", "@").encode().hex())
        except (ValueError, RuntimeError) as e:
            out.append("raise:" + type(e).__name__)
        dumps.append((lcd.dump().replace("█", "@"), lcd.backlight_on, lcd.brightness_level, list(lcd.buffer)))
    return out, dumps


def run(ctx: Ctx) -> int:
    ctx.prove(["Reduino.Props.C17"])
    common.fresh_import()
    LCD = importlib.import_module("Reduino.Displays.LCD").LCD
    rng = ctx.rng
    cases = []
    if ctx.tier == "thorough":
        geoms = [(c, r) for c in range(1, 41) for r in range(1, 5)]
    else:
        geoms = []
    for g in geoms:
        c = gen_case(rng)
        ops_g = gen_case_for(rng, g[0], g[1])
        if c[2]:      # I2C wiring: brightness() is parallel-only (as in gen_case)
            ops_g = [o for o in ops_g if o[0] != "bri"] or [("clr",)]
        cases.append((g[0], g[1], c[2], ops_g))
    for _ in range(ctx.n(200, 400)):
        cases.append(gen_case(rng))
    # pinned: message(clear_rows=False) over existing content keeps what the new text does not cover — on both rows, both wirings
    for wiring in (False, True):
        for clear in (False, True):
            cases.append((16, 2, wiring, [("ln", 0, "TEMP:      C", "left", True, False), ("ln", 1, "HUM:       %", "left", True, False),
                                          ("msg", "21", "40", "center", "center", clear)]))
            cases.append((20, 4, wiring, [("ln", 1, "abcdefghijklmnopqr", "left", True, False), ("msg", None, "Z", "right", "left", clear),
                                          ("msg", "top", None, "left", "left", clear)]))
    # pinned: message() on a one-row display (firmware writes row 1 unconditionally)
    cases.append((16, 1, False, [("msg", "top", "bottom", "left", "left", True)]))
    built = [build(*c) for c in cases]
    results = ds.transpile_and_run(ctx, [b[0] for b in built])
    fw_model = ctx.lean.drive(["lcdtext|fw|" + b[1] for b in built])
    host_model = ctx.lean.drive(["lcdtext|host|" + b[1] for b in built])
    for (cols, rows, i2c, ops), (src, req), (cpp, exc, res), fm, hm in zip(cases, built, results, fw_model, host_model):
        ctx.count("geometry", 1)
        for op in ops:
            ctx.count("op:" + op[0])
        replay = {"script": src}
        # --- H: host model vs real class
        hreal, dumps = host_run(LCD, cols, rows, i2c, ops)
        if i2c:
            # brightness() raises RuntimeError on I2C: outside the model's op set (parallel + backlight pin)
            pass
        hm_ops = hm.split("|")
        for i, (a, b) in enumerate(zip(hm_ops, hreal)):
            if i2c and ops[i][0] == "bri":
                continue
            if a != b:
                ctx.tie_diff("tie H lcd (Lcd.Host vs real LCD class)", {"script": src, "op_index": i, "op": repr(ops[i])}, a, b)
                break
        ctx.cov["traces_validated_against_impl"] += 1
        if cpp is None:
            ctx.tie_diff("tie S_c lcd (script rejected by the transpiler)", src, fm[:80], repr(exc))
            continue
        if res.compile_error or not res.ok:
            ctx.fail("lcd:compile", f"sketch does not compile/run: {(res.compile_error or res.stderr)[:300]}", replay)
            continue
        segs = ds.split_ops(res.trace)[1:]
        fm_ops = fm.split("|")
        ctx.case(req, nontrivial=True, sample={"script": src, "fw_model": fm[:200]} if len(ctx.cov["samples"]) < 2 else None)
        overflow_seen = False
        tainted = set()   # rows whose content legitimately differs by one progress cell until they are rewritten
        for i, (op, seg) in enumerate(zip(ops, segs)):
            rp = {**replay, "op_index": i, "op": repr(op)}
            cells = [l for l in seg if l.startswith("lcd.cells ")]
            prints = [l.split(" ") for l in seg if l.startswith("lcd.print ")]
            k = op[0]
            if k in ("bl", "disp", "bri"):
                if i2c:
                    continue
                pin = None
                for l in res.trace[: res.trace.index(seg[-1]) + 1 if seg else 0]:
                    pass
                # last level written to the backlight pin so far
                pins = [int(l.split()[2]) for s2 in segs[: i + 1] for l in s2 if l.startswith("aw 9 ")]
                level = pins[-1] if pins else 255
                impl = f"pin={level}"
                if fm_ops[i] != impl:
                    ctx.tie_diff("tie S_c lcd backlight (Fw.Backlight vs compiled block)", rp, fm_ops[i], impl)
                want = dumps[i][2] if dumps[i][1] else 0
                if level != want and not hreal[i].startswith("raise"):
                    ctx.fail("lcd:backlight-pin", f"backlight pin at {level}, host says {'on' if dumps[i][1] else 'off'} brightness {dumps[i][2]}", rp)
                continue
            if k == "glyph":
                g = [l for l in seg if l.startswith("lcd.glyph ")]
                impl = g[0].split(" ")[3] if g else "none"
                if fm_ops[i] != impl:
                    ctx.tie_diff("tie S_c lcd glyph", rp, fm_ops[i], impl)
                if not hreal[i].startswith("raise") and impl != hreal[i]:
                    ctx.fail("lcd:glyph-rows", f"createChar rows {impl}, host stores {hreal[i]}", rp)
                continue
            if not cells:
                ctx.fail("lcd:no-cells", "no cell dump after the call", rp)
                break
            impl_cells = canon_cells(cells[-1].split(" ")[3])
            impl = impl_cells + " p=" + ",".join(f"{p[2]}:{p[3]}:{(len(p[4]) - 1) // 2}" for p in _merge_prints(prints))
            if fm_ops[i] != impl:
                ctx.tie_diff("tie S_c lcd text (Lcd.Fw vs compiled helper on the mock cell matrix)", rp, fm_ops[i], impl)
            # --- E: firmware cells vs real host buffer; never off-row
            if any(l.startswith("lcd.overflow") for l in seg):
                one_row_msg = k == "msg" and rows == 1 and op[2] is not None
                ctx.fail("lcd:message-bottom-on-one-row-display" if one_row_msg else "lcd:write-off-row", f"firmware wrote outside the {cols}x{rows} matrix", rp)
                overflow_seen = True
            for p in prints:
                c, r, ln = int(p[2]), int(p[3]), (len(p[4]) - 1) // 2
                if (c < 0 or c + ln > cols) and not overflow_seen:
                    ctx.fail("lcd:write-off-row", f"print at col {c} len {ln} on a {cols}-column display", rp)
            if any(len(rw) != cols for rw in dumps[i][3]) or len(dumps[i][3]) != rows:
                ctx.fail("lcd:host-buffer-shape", f"host buffer rows {[len(x) for x in dumps[i][3]]} for {cols}x{rows}", rp)
            if hreal[i].startswith("raise"):
                continue
            host_cells = "x" + dumps[i][0].encode().hex()
            frows = bytes.fromhex(impl_cells[1:]).decode().split("\n")
            hrows = bytes.fromhex(host_cells[1:]).decode().split("\n")
            if k == "prog":
                check_progress(ctx, op, cols, impl_cells, host_cells, rp)
                if len(frows) == len(hrows) and frows[op[1]] != hrows[op[1]]:
                    tainted.add(op[1])
            tainted = {r for r in tainted if r < len(frows) and r < len(hrows) and frows[r] != hrows[r]}
            diff = [r for r in range(max(len(frows), len(hrows))) if r not in tainted and (r >= len(frows) or r >= len(hrows) or frows[r] != hrows[r])]
            if diff and not overflow_seen:
                ctx.fail("lcd:cells-differ", f"rows {diff}: device cells {frows!r} host buffer {hrows!r}", rp)
    ctx.cov["rule"] = ("random geometries (quick) / all 160 geometries (thorough) x both wirings x sequences of 1-10 calls (write/line/message/clear/progress/"
                       "backlight/display/brightness/glyph), texts in the length classes empty/shorter/equal/longer than the space, all alignments and clear flags, "
                       "literal and variable-routed strings; each sketch is compiled and its mock cell matrix dumped after every call")
    return ctx.finish(TRUSTED, search=None)


def gen_case_for(rng, cols, rows):
    while True:
        c, r, i2c, ops = gen_case(rng)
        # re-generate ops for the requested geometry by scaling positions
        ops2 = []
        ok = True
        for op in ops:
            if op[0] == "wr":
                cc = rng.randrange(cols)
                ops2.append(("wr", cc, rng.randrange(rows), rtext(rng, cols - cc), op[4], op[5], op[6]))
            elif op[0] == "ln":
                ops2.append(("ln", rng.randrange(rows), rtext(rng, cols), op[3], op[4], op[5]))
            elif op[0] == "msg":
                ops2.append(("msg", rtext(rng, cols), rtext(rng, cols) if rows > 1 else None, op[3], op[4], op[5]))
            elif op[0] == "prog":
                w = None if op[4] is None else rng.randint(1, cols)
                ops2.append(("prog", rng.randrange(rows), op[2], op[3], w, op[5], op[6]))
            else:
                ops2.append(op)
        return ops2


def _merge_prints(prints):
    """the clear-row helper prints `cols` single spaces; the model records it as one print of length cols"""
    out = []
    for p in prints:
        if out and p[4] == "x20" and out[-1][4].replace("20", "") == "x" and int(out[-1][3]) == int(p[3]) and int(out[-1][2]) + (len(out[-1][4]) - 1) // 2 == int(p[2]) and out[-1][5]:
            out[-1][4] += "20"
        else:
            out.append(p[:5] + [p[4] == "x20"])
    return out


def check_progress(ctx, op, cols, impl_cells, host_cells, rp):
    _, r, v, mx, w, style, label = op
    fillc = {"block": "@", "hash": "#", "pipe": "|", "dot": "."}[style.lower()]
    frow = bytes.fromhex(impl_cells[1:]).decode().split("\n")[r]
    hrow = bytes.fromhex(host_cells[1:]).decode().split("\n")[r]
    off = (len(label) + 1) if label else 0
    width = cols if w is None else w
    fcount = frow[off:off + width].count(fillc) if fillc != "." or True else 0
    hcount = hrow[off:off + width].count(fillc)
    vis = max(0, min(width, cols - off))
    if abs(fcount - hcount) > 1:
        ctx.fail("lcd:progress-differs-by-more-than-one", f"filled cells device {fcount} host {hcount} (value {v} max {mx} width {width})", rp)
    if (v * width) % mx == 0 and 0 <= v <= mx and fcount != hcount:
        ctx.fail("lcd:progress-exact-multiple", f"value*width multiple of max but device {fcount} != host {hcount}", rp)
    if v <= 0 and (fcount != 0 or hcount != 0):
        ctx.fail("lcd:progress-saturate-low", f"value {v} <= 0 but filled device {fcount} host {hcount}", rp)
    if v >= mx and (fcount != vis or hcount != vis):
        ctx.fail("lcd:progress-saturate-high", f"value {v} >= max {mx} but filled device {fcount} host {hcount} of {vis}", rp)
