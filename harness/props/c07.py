"""C07 — every line is accounted for and stays in the block Python assigns it to.

Proof: lean/Reduino/Props/C07.lean over Lang/Layout.lean (character-level `indentOf` / `stripInlineComment`; line-level
block extraction of the front end vs Python's rule; invariance under re-layout; classification of skipped lines).
Ties: the two character-level functions are TRANSLATED from the source of `_indent_of` / `_strip_inline_comment` on every run
(harness/pytolean.py -> lean/Reduino/Gen/Layout.lean) and proved equal to the model on every input (GenOb/Layout.lean: gen_indentOf,
gen_stripInlineComment); the same two also run against the real functions on random strings; the model's
forest (incl. silently dropped lines) vs the nesting of the real IR and the hook's record of skipped lines, on generated
scripts under random layouts — including the layouts that trigger the known defects.
Oracle: byte-identical firmware for every meaning-preserving re-layout; every skipped line is benign; scripts whose blocks (branches of
if/elif/else chains, for bodies — any arm, any depth, setup and main loop) consist only of lines without device meaning (pass, host-only print,
bare string, comment) are compiled with g++ and run against CPython for 8 passes of the main loop: a benign LINE may vanish, the HEADER that
owns it may not (`Hollow` / `hollow_bodies`, end-to-end through the emitter, which the IR-level forest tie does not see)."""
from __future__ import annotations

import importlib
import re

import common
import cxx
import langgen
from common import Ctx, hexs

TRUSTED = [
    "Lean 4.33 kernel; axioms ⊆ {propext, Classical.choice, Quot.sound}",
    "the abstraction of a physical line to (indent, kind, trailing-comment, tag) is computed by the harness from the script it generated; the regular expressions "
    "that recognise headers are modelled by that classification and their agreement is checked by the forest tie, not proved",
    "harness/pytolean.py, the translator of `_indent_of` / `_strip_inline_comment` to Lean (joins the trusted base: its reading of the Python subset — `for ch in s` / "
    "`enumerate`, `continue`, `break`, `return` inside the loop, bool flags, `+=` on a non-negative int, `s[:i]` = List.take, `.rstrip()` = the model's rstrip over the "
    "six ASCII blanks, str = List Char; a source outside the subset is reported as a broken obligation); the character-level differential tie exercises the same two functions "
    "independently of the translator",
    "W21: the same translator, shape \"lines\", for `_collect_block` (its reading of `while i < len(lines)` with `lines[i]`, `i += 1` on every path, `.append`, `break`/`continue`, "
    "`not lines[i].strip()` = made of the six ASCII blanks, `_indent_of(...)` = the translated `_indent_of`, `lines[start]` with `start` in range and non-negative, the tuple result); "
    "`gen_collectBlock` proves the translated function equal to the raw-line model `collectBlockAt`, and `collectBlock_is_raw` carries that to the collector over classified lines "
    "under the hypothesis — established by the harness's classification, checked by the forest tie, not proved — that a line is classified blank iff its text is made of blanks "
    "and its recorded indentation is `_indent_of` of its text; the raw-line tie `collect|…` exercises `_collect_block` independently of the translator",
    "hook REDUINO_VERIF=1 in parser.py (records the lines that fall through `# unknown -> ignore` and the skipped print calls)",
    "hollow-body scripts: g++ 12 + harness/mockcore (Serial.println trace) and CPython running the same script against the host SerialMonitor",
]

BENIGN = re.compile(r"^(import\s|from\s.+\simport\s|pass$|global\s|print\(|\"\"\"|'''|\"[^\"]*\"$)")


# ------------------------------------------------------------------------------------------------ structured scripts
class S:
    """random block-structured script whose every line carries a numeric tag"""

    def __init__(self, rng):
        self.rng = rng
        self.n = 100

    def tag(self):
        self.n += 1
        return self.n

    def block(self, depth, nmax=4):
        out = []
        for _ in range(self.rng.randint(1, nmax)):
            r = self.rng.random()
            if depth <= 0 or r < 0.5:
                out.append(("s", self.tag()))
            elif r < 0.75:
                chain = [("if", self.tag(), self.block(depth - 1, 3))]
                for _ in range(self.rng.randint(0, 2)):
                    chain.append(("elif", self.tag(), self.block(depth - 1, 2)))
                if self.rng.random() < 0.6:
                    chain.append(("else", self.tag(), self.block(depth - 1, 2)))
                out.append(("chain", chain))
            elif r < 0.87:
                out.append(("while", self.tag(), self.block(depth - 1, 3)))
            else:
                out.append(("for", self.tag(), self.block(depth - 1, 3)))
        return out

    def program(self):
        pre = self.block(2, 4)
        loop = self.block(2, 4) if self.rng.random() < 0.75 else None
        return pre, loop


HEAD = {"if": "if 1 > {t}:", "elif": "elif 2 > {t}:", "else": "else:", "while": "while 3 > {t}:", "for": "for i{t} in range({t}):", "wt": "while True:"}
KINDS = {"if": "hIF", "elif": "hELIF", "else": "hELSE", "while": "hWHILE", "for": "hFOR", "wt": "hWT"}


def render(pre, loop, lay):
    """-> (text lines, model lines).  `lay` holds the layout choices"""
    rng, unit = lay["rng"], lay["unit"]
    text, model = [], []

    def ind(d):
        return ("\t" * d if unit == "tab" else " " * (unit * d)), (4 * d if unit == "tab" else unit * d)

    def emit_line(d, code, kind, tag, allow_trailing=True):
        pad, w = ind(d)
        trailing = allow_trailing and rng.random() < lay["p_trailing"] and (kind == "s" or lay["trailing_on_headers"] or False)
        if kind.startswith("h") and not lay["trailing_on_headers"]:
            trailing = False
        if kind.startswith("h") and lay["trailing_on_headers"]:
            trailing = rng.random() < lay["p_trailing"]
        line = pad + code + ("  # note " + str(tag) + (' "quoted" \'q' if tag % 3 == 0 else "") if trailing else "") + (" " * rng.randint(1, 3) if rng.random() < lay["p_trailing_ws"] else "")
        text.append(line)
        model.append(f"{w}:{kind}:{'T' if trailing else 'F'}:{tag}")

    def extras(d):
        # blank lines and comment lines before a code line at depth d
        while rng.random() < lay["p_blank"]:
            text.append(rng.choice(["", "   ", "\t", "\t\t", " ", " \t ", "        ", "\t" * rng.randint(1, 3)]) if lay["ws_blank"] else "")
            model.append("0:b:F:0")
        while rng.random() < lay["p_comment"]:
            if lay["comment_cols"] == "same":
                pad, w = ind(d)
            else:
                dd = rng.randint(0, d + 1)
                pad, w = ind(dd)
            text.append(pad + "# remark")
            model.append(f"{w}:c:F:0")

    def block(b, d):
        for st in b:
            if st[0] == "s":
                extras(d)
                emit_line(d, lay["stmt"](st[1]), "s", st[1])
            elif st[0] == "chain":
                for k, (kw, t, body) in enumerate(st[1]):
                    if k == 0 or lay["extras_before_continuation"]:
                        extras(d)
                    emit_line(d, HEAD[kw].format(t=t), KINDS[kw], 0 if kw == "else" else t)
                    block(body, d + 1)
            else:
                extras(d)
                emit_line(d, HEAD[st[0]].format(t=st[1]), KINDS[st[0]], st[1])
                block(st[2], d + 1)
    block(pre, 0)
    if loop is not None:
        extras(0)
        emit_line(0, HEAD["wt"], KINDS["wt"], 999)
        block(loop, 1)
    return text, model


def layout(rng, in_domain):
    spaced = rng.random() < 0.3
    return {
        "rng": rng, "unit": rng.choice([1, 2, 3, 4, 5, 6, 7, 8, "tab"]), "p_blank": rng.choice([0, 0.2, 0.4]), "p_comment": rng.choice([0, 0.15, 0.3]),
        "p_trailing": rng.choice([0, 0.3, 0.6]), "p_trailing_ws": rng.choice([0, 0.3]), "ws_blank": rng.random() < 0.5,
        "comment_cols": "same" if in_domain else rng.choice(["same", "any"]), "trailing_on_headers": (not in_domain) and rng.random() < 0.7,
        "extras_before_continuation": (not in_domain) and rng.random() < 0.5,
        "stmt": rng.choice([(lambda t: f"mon.write( {t} )"), (lambda t: f"mon.write({t})"), (lambda t: f"mon.write({t})"),
                            (lambda t: f"mon.write(\"it's {t}\")"), (lambda t: f"mon.write('say \"{t}\" # not a comment')"),
                            (lambda t: f"mon.write(\"#{t} \\\" q\")"), (lambda t: f"mon.write(\"C:\\\\{t}\\\\\")"),
                            (lambda t: f"mon.write('it\\'s {t}')"), (lambda t: f"mon.write(\"{t}\\\\\\\"#\")"),
                            (lambda t: f"mon.write(\"C:\\\\{t}\\\\\" + \"run #1\")"), (lambda t: f"mon.write('{t}\\\\' + '#' + \"x\")")]) if spaced or rng.random() < 0.4 else (lambda t: f"mon.write({t})"),
    }


CANON = {"rng": None, "unit": 4, "p_blank": 0, "p_comment": 0, "p_trailing": 0, "p_trailing_ws": 0, "ws_blank": False, "comment_cols": "same",
         "trailing_on_headers": False, "extras_before_continuation": False, "stmt": lambda t: f"mon.write({t})"}
PRELUDE = ["from Reduino.Communication import SerialMonitor", "mon = SerialMonitor(9600)"]


# ------------------------------------------------------------------------------------------------ real forest
def real_forest(P, ast_mod, src):
    P._VERIF_SKIP_LOG.clear()
    prog = P.parse(src)
    log = list(P._VERIF_SKIP_LOG)

    def tagof(text):
        m = re.search(r"(\d{3})", str(text))
        return int(m.group(1)) if m else 0

    def nodes(body):
        out = []
        for n in body:
            k = type(n).__name__
            if k == "SerialWrite":
                out.append(f"L{tagof(n.value)}")
            elif k == "IfStatement":
                for j, br in enumerate(n.branches):
                    out.append(f"N{tagof(br.condition)}:{'if' if j == 0 else 'elif'}[{','.join(nodes(br.body))}]")
                if n.else_body:
                    out.append(f"N0:else[{','.join(nodes(n.else_body))}]")
            elif k == "WhileLoop":
                out.append(f"N{999 if str(n.condition).strip('()') == 'true' else tagof(n.condition)}:while[{','.join(nodes(n.body))}]")
            elif k == "ForRangeLoop":
                out.append(f"N{tagof(n.count)}:for[{','.join(nodes(n.body))}]")
            elif k in ("SerialMonitorDecl", "VarDecl", "VarAssign"):
                continue
            else:
                out.append(f"?{k}")
        return out
    dropped = sorted(tagof(e[3]) for e in log)
    return f"setup={','.join(nodes(prog.setup_body))} loop={','.join(nodes(prog.loop_body))}", dropped, log


def strip_dropped(forest: str):
    """model forest -> (forest without dropped leaves, sorted dropped tags); an `else` node with an empty body is not emitted by the IR"""
    dropped = sorted(int(x) for x in re.findall(r"D(\d+)", forest))
    f = re.sub(r"D\d+,?", "", forest)
    f = re.sub(r",(?=[\]\s]|$)", "", f)
    f = f.replace(",]", "]")
    f = re.sub(r",?N0:else\[\]", "", f)
    f = re.sub(r"\[,", "[", f)
    f = re.sub(r"=,", "=", f)
    return f, dropped


LOOKALIKE_NAMES = ["important", "fromage", "define", "default_v", "whiles", "iffy", "format_v", "elsewhere", "trying", "breaker", "passing", "returned", "globally",
                   "target_level", "sleeper", "printed", "ranger", "classy", "within", "nots", "android", "truely", "led_count", "lcd_rows", "servo_pos", "monitor"]
LOOKALIKE_FUNCS = ["set_target", "retarget", "my_sleep", "printer", "do_import", "led_on", "get_range", "is_pressed_now", "writer"]


def lookalikes(ctx):
    """every statement is accounted for even when an identifier merely LOOKS like a directive, keyword or device word:
    variables and helper functions with such names must behave as under CPython"""
    import cxx
    import pyoracle
    rng = ctx.rng
    head = "from Reduino.Communication import SerialMonitor\nfrom Reduino.Utils import sleep\nmon = SerialMonitor(9600)\n"
    srcs = []
    names = LOOKALIKE_NAMES[:]
    rng.shuffle(names)
    for i in range(0, len(names), 4):
        part = names[i:i + 4]
        body = "".join(f"{n} = {j + 2}\n" for j, n in enumerate(part))
        body += "while True:\n" + "".join(f"    {n} = {n} + 1\n    mon.write({n})\n" for n in part)
        srcs.append(head + body)
    for fn in LOOKALIKE_FUNCS:
        srcs.append(head + f"def {fn}(v):\n    mon.write(v + 1)\nlevel = 4\n{fn}(0)\nwhile True:\n    if level > 2:\n        {fn}(level)\n    else:\n        {fn}(200)\n    level = level - 1\n")
        srcs.append(head + f"def {fn}(v):\n    return v * 2\nmon.write({fn}(3))\nwhile True:\n    mon.write({fn}(5))\n")
    outs = [cxx.transpile(s) for s in srcs]
    jobs = [(cpp, 3, "") for cpp, e in outs if cpp is not None]
    it = iter(cxx.run_many(ctx, jobs))
    for src, (cpp, exc) in zip(srcs, outs):
        ctx.case(src, nontrivial=True)
        if cpp is None:
            ctx.count("lookalike:rejected")
            continue
        res = next(it)
        if res.compile_error or not res.ok:
            ctx.fail("account:lookalike-does-not-compile", f"{(res.compile_error or res.stderr)[:300]}", {"script": src})
            continue
        ev, err = pyoracle.run_script(src, 3)
        if err is not None:
            continue
        ctx.cov["traces_validated_against_impl"] += 1
        a = [e[1] for e in ev if e[0] == "w"]
        b = [e[1] for e in pyoracle.fw_events(res.trace) if e[0] == "w"]
        if a != b:
            ctx.fail("account:lookalike-identifier", f"a statement with an identifier that merely looks like a directive/keyword is not carried out: firmware {b} vs Python {a}", {"script": src})


# ------------------------------------------------------------------------------------------------ bodies without device meaning
class Hollow:
    """random scripts whose blocks may consist ONLY of lines that have no meaning on the device (pass, host-only print, a bare string,
    a comment next to one of these).  Such a line may be dropped — the header that owns it may not: `elif c: pass` still decides that the
    later alternatives do not run.  Conditions depend on a fixed `x` (setup) and on `level`, which counts the passes of the main loop, so
    that every alternative of a chain is reached on some pass."""

    PASSES = 8

    def __init__(self, rng):
        self.rng = rng
        self.n = 100
        self.k = 0

    def tag(self):
        self.n += 1
        return self.n

    def cond(self, var):
        r = self.rng
        v = r.randint(0, self.PASSES - 1)
        return r.choice([f"{var} > {v}", f"{var} < {v}", f"{var} == {v}", f"{var} != {v}", f"{var} >= {v}", f"{var} <= {v}",
                         f"{v} < {var}", f"{var} + 1 > {v}", f"not {var} > {v}"])

    def hollow_body(self, pad):
        r = self.rng
        out = []
        for _ in range(r.randint(1, 2)):
            k = r.randrange(5)
            if k == 0:
                out += [pad + "pass"]
            elif k == 1:
                out += [pad + "# nothing to do here", pad + "pass"]
            elif k == 2:
                out += [pad + f"print(\"host only {self.tag()}\")"]
            elif k == 3:
                out += [pad + "pass  # dead band"]
            else:
                out += [pad + f"\"hold {self.tag()}\""]
        return out

    def block(self, depth, d, var, nmax=3):
        r = self.rng
        pad = "    " * d
        out = []
        for _ in range(r.randint(1, nmax)):
            q = r.random()
            if depth <= 0 or q < 0.35:
                out.append(pad + f"mon.write({self.tag()})")
            elif q < 0.85:
                arms = ["if"] + ["elif"] * r.choice([0, 1, 1, 2, 3]) + (["else"] if r.random() < 0.7 else [])
                for a in arms:
                    out.append(pad + ("else:" if a == "else" else f"{a} {self.cond(var)}:"))
                    out += self.hollow_body(pad + "    ") if r.random() < 0.4 else self.block(depth - 1, d + 1, var, 2)
            else:
                self.k += 1
                out.append(pad + f"for i{self.k} in range({r.randint(1, 3)}):")
                out += self.hollow_body(pad + "    ") if r.random() < 0.25 else self.block(depth - 1, d + 1, var, 2)
        return out

    def script(self):
        r = self.rng
        lines = ["from Reduino.Communication import SerialMonitor", "mon = SerialMonitor(9600)", f"x = {r.randint(0, self.PASSES - 1)}", "level = 0"]
        lines += self.block(2, 0, "x", 3)
        lines += ["while True:"] + self.block(2, 1, "level", 3) + ["    level = level + 1"]
        return "\n".join(lines) + "\n"


def hollow_bodies(ctx):
    """end-to-end: the emitted sketch, compiled and run for PASSES passes of loop(), writes what CPython writes for the same script"""
    import contextlib
    import io
    import random
    import pyoracle
    rng = random.Random(f"{ctx.seed}:C07:hollow")          # a stream of its own: the older generators keep their sequences
    srcs = [Hollow(rng).script() for _ in range(ctx.n(80, 1200))]
    outs = [cxx.transpile(s) for s in srcs]
    jobs = [(cpp, Hollow.PASSES, "") for cpp, e in outs if cpp is not None]
    it = iter(cxx.run_many(ctx, jobs))
    for src, (cpp, exc) in zip(srcs, outs):
        ctx.case("hollow:" + src, nontrivial=True)
        if cpp is None:
            if isinstance(exc, (ValueError, SyntaxError)):
                ctx.count("hollow:rejected")                # rejected with a diagnostic: accounted for
            else:
                ctx.fail("account:hollow-body-internal-error", f"{exc!r}", {"script": src})
            continue
        res = next(it)
        if res.compile_error or not res.ok:
            ctx.fail("account:hollow-body-does-not-compile", f"{(res.compile_error or res.stderr)[:300]}", {"script": src})
            continue
        with contextlib.redirect_stdout(io.StringIO()):
            ev, err = pyoracle.run_script(src, Hollow.PASSES)
        if err is not None:
            raise common.ToolFailure(f"generated script fails under CPython: {err!r}\n{src}")
        ctx.cov["traces_validated_against_impl"] += 1
        ctx.count("hollow:run")
        a = [e[1] for e in ev if e[0] == "w"]
        b = [e[1] for e in pyoracle.fw_events(res.trace) if e[0] == "w"]
        if a != b:
            k = next((i for i, (p, q) in enumerate(zip(a, b)) if p != q), min(len(a), len(b)))
            ctx.fail("account:block-header-lost-with-hollow-body",
                     f"a block whose body has no device meaning changes which statements run: firmware writes {b[max(0, k - 2):k + 3]} where Python writes {a[max(0, k - 2):k + 3]} (index {k})",
                     {"script": src, "passes": Hollow.PASSES, "python_writes": a, "firmware_writes": b, "firmware": cpp})


def run(ctx: Ctx) -> int:
    ctx.prove(["Reduino.Props.C07", "Reduino.GenOb.Layout"])   # GenOb.Layout: gen_indentOf, gen_stripInlineComment, gen_collectBlock (W21)
    common.fresh_import()
    P = importlib.import_module("Reduino.transpile.parser")
    E = importlib.import_module("Reduino.transpile.emitter")
    A = importlib.import_module("Reduino.transpile.ast")
    if P._VERIF_SKIP_LOG is None:
        raise common.ToolFailure("hook REDUINO_VERIF=1 is not active in Reduino.transpile.parser")
    rng = ctx.rng
    # ---- character level ties
    alphabet = "ab \t#'\"\\=()x1"
    strs = ["".join(rng.choice(alphabet) for _ in range(rng.randint(0, 14))) for _ in range(ctx.n(1500, 20000))]
    strs += ["x = \"#a\" # c", "s = 'it\\'s' # t", "a = \"q\\\"#\" #z", "#", " \t x", "\t\t", "", "mon.write(\"it's alive\")  # greet", "if m == \"don't\":  # skip"]
    mi = ctx.lean.drive([f"indent|{hexs(s)}" for s in strs])
    ms = ctx.lean.drive([f"strip|{hexs(s)}" for s in strs])
    for s, a, b in zip(strs, mi, ms):
        ctx.cov["traces_validated_against_impl"] += 1
        ctx.case("chr:" + s, nontrivial="#" in s)
        if a != str(P._indent_of(s)):
            ctx.tie_diff("tie indentOf vs _indent_of", s, a, P._indent_of(s))
        if b != hexs(P._strip_inline_comment(s)):
            ctx.tie_diff("tie stripInlineComment vs _strip_inline_comment", s, bytes.fromhex(b[1:]).decode(), P._strip_inline_comment(s))
        # property at character level: the result is a prefix cut at a '#' (or the text itself)
        r = P._strip_inline_comment(s)
        if not (r == s or (s.startswith(r) or s[: len(r)].rstrip() == r)):
            ctx.fail("strip:not-a-prefix", f"_strip_inline_comment({s!r}) = {r!r}", {"text": s})
    # ---- raw-line tie of `_collect_block` (W21): the model `collectBlockAt` — the definition `gen_collectBlock` proves the translated source equal to —
    # against the function itself, on random lists of raw lines (blank lines of every blank kind, spaces and tabs, dedents, comment lines)
    pieces = ["", " ", "\t", "  \t ", "x = 1", "# c", "if a:", "else:", "pass  # t", "\x0c", "\r"]
    reqs = []
    for _ in range(ctx.n(400, 4000)):
        lines = [rng.choice(["", " ", "  ", "    ", "\t", " \t", "\t ", "      "][: rng.choice([3, 8])]) * rng.randint(0, 2) + rng.choice(pieces) for _ in range(rng.randint(1, 9))]
        reqs.append((lines, rng.randrange(len(lines))))
    mc = ctx.lean.drive([f"collect|{st}|{' '.join(hexs(l) for l in lines)}" for lines, st in reqs])
    for (lines, st), got in zip(reqs, mc):
        ctx.cov["traces_validated_against_impl"] += 1
        ctx.case("collect:" + repr((lines, st)), nontrivial=len(lines) > st + 1)
        blk, end = P._collect_block(list(lines), st)
        want = f"{end}|{' '.join(hexs(l) for l in blk)}"
        if got != want:
            ctx.tie_diff("tie collectBlockAt vs _collect_block", repr((lines, st)), got, want)
        # property at line level: the block is the contiguous run after the header, and the line that ends it is non-blank and not deeper than the header
        ok = blk == lines[st + 1:end] and all((not l.strip()) or P._indent_of(l) > P._indent_of(lines[st]) for l in blk) \
            and (end == len(lines) or (lines[end].strip() and P._indent_of(lines[end]) <= P._indent_of(lines[st])))
        if not ok:
            ctx.fail("collect:not-the-indented-run", f"_collect_block({lines!r}, {st}) = {(blk, end)!r}", {"lines": lines, "start": st})
    # ---- forest tie + re-layout oracle
    for it in range(ctx.n(150, 2500)):
        sg = S(rng)
        pre, loop = sg.program()
        canon_text, _ = render(pre, loop, dict(CANON, rng=rng))
        canon_src = "\n".join(PRELUDE + canon_text) + "\n"
        try:
            canon_out = E.emit(P.parse(canon_src))
        except Exception as e:  # noqa: BLE001
            ctx.fail("layout:canonical-rejected", f"canonical layout rejected: {e!r}", {"script": canon_src})
            continue
        for in_domain in (True, True, False):
            lay = layout(rng, in_domain)
            canon_text, _ = render(pre, loop, dict(CANON, rng=rng, stmt=lay["stmt"]))
            canon_src = "\n".join(PRELUDE + canon_text) + "\n"
            try:
                canon_out = E.emit(P.parse(canon_src))
            except Exception as e:  # noqa: BLE001
                ctx.fail("layout:canonical-rejected", f"canonical layout rejected: {e!r}", {"script": canon_src})
                continue
            text, model_lines = render(pre, loop, lay)
            src = "\n".join(PRELUDE + text) + "\n"
            req = "layout|prog|" + " ".join(["0:s:F:1", "0:s:F:2"][:0] + model_lines)
            ctx.pending.append((src, req, in_domain, canon_src, canon_out, lay["unit"])) if hasattr(ctx, "pending") else None
            if not hasattr(ctx, "pending"):
                ctx.pending = [(src, req, in_domain, canon_src, canon_out, lay["unit"])]
    model = ctx.lean.drive([p[1] for p in ctx.pending])
    for (src, req, in_domain, canon_src, canon_out, unit), m in zip(ctx.pending, model):
        replay = {"script": src, "canonical": canon_src}
        try:
            real, dropped, log = real_forest(P, A, src)
            out = E.emit(P.parse(src))
        except Exception as e:  # noqa: BLE001
            real, dropped, log, out = f"raise:{type(e).__name__}", [], [], None
        mf, mdropped = strip_dropped(m)
        ctx.cov["traces_validated_against_impl"] += 1
        ctx.case(req, nontrivial=True, sample={"script": src, "model": m[:200]} if len(ctx.cov["samples"]) < 2 and not in_domain and "D" in m else None)
        ctx.count("layout:" + ("in-domain" if in_domain else "any"))
        if not real.startswith("raise") and (mf != real or mdropped != dropped):
            ctx.tie_diff("tie forest (Layout.reduinoProgram vs IR nesting + skipped-line log)", replay, f"{mf} dropped={mdropped}", f"{real} dropped={dropped}")
        # ---- the property
        if out != canon_out:
            if in_domain:
                key = "layout:relayout-changes-firmware"
            else:
                # classify by the construct that is present
                hdr_trailing = bool(re.search(r":\s+# note", src))
                key = "layout:trailing-comment-on-header" if hdr_trailing else "layout:comment-line-dedented-or-before-else"
            ctx.fail(key, "a meaning-preserving re-layout changes the generated firmware" if out is not None else "a re-layout is rejected", replay)
        for scope, depth, reason, line in log:
            if not BENIGN.match(line.strip()):
                hdr = bool(re.match(r"^(else|elif|except)\b", line.strip()))
                ctx.fail("layout:continuation-header-dropped" if hdr else "account:statement-dropped", f"line {line.strip()!r} was skipped without a diagnostic", replay)
    # ---- accounting on fixed statements
    head = "\n".join(PRELUDE) + "\nled = Led(13)\n" if False else "from Reduino.Actuators import Led\n" + "\n".join(PRELUDE) + "\nled = Led(13)\nx = 1\n"
    benign = ["import os", "from math import sin", "pass", "global x", "print(\"host only\")", "\"\"\"docstring\"\"\"", "# comment"]
    suspicious = [("continue", "account:continue-dropped", "while x < 3:\n    x += 1\n    if x == 2:\n        continue\n    mon.write(x)\n"),
                  ("unknown device method", "account:unknown-device-method", "led.nosuch()\n"), ("del", "account:del-dropped", "del x\n"), ("assert", "account:assert-dropped", "assert x\n"),
                  ("attribute assignment", "account:attribute-assignment-dropped", "x.y = 4\n"), ("foreign call", "account:foreign-call-dropped", "foo.bar()\n"),
                  ("spaced call", "account:spaced-device-call-dropped", "led . on ( )\n"), ("with", "account:with-dropped", "with x:\n    mon.write(1)\n"),
                  ("class", "account:class-dropped", "class A:\n    pass\n"), ("lambda assign", "account:lambda", "f = lambda: 1\n"), ("raise", "account:raise-dropped", "raise ValueError()\n"),
                  ("return at top", "account:ok", "mon.write(1)\n")]
    for b in benign:
        P._VERIF_SKIP_LOG.clear()
        try:
            P.parse(head + b + "\nmon.write(7)\n")
        except Exception as e:  # noqa: BLE001
            ctx.fail("account:benign-rejected", f"benign line {b!r} rejected: {e!r}", {"line": b})
        ctx.case("benign:" + b, nontrivial=True)
    for name, key, body in suspicious:
        P._VERIF_SKIP_LOG.clear()
        try:
            P.parse(head + body)
            rejected = False
        except (ValueError, SyntaxError):
            rejected = True
        ctx.case("stmt:" + name, nontrivial=True)
        bad = [e for e in P._VERIF_SKIP_LOG if not BENIGN.match(e[3].strip())]
        if bad and not rejected:
            ctx.fail(key, f"{name}: line {bad[0][3].strip()!r} disappears from the firmware without a diagnostic", {"script": head + body})
    hollow_bodies(ctx)
    lookalikes(ctx)
    ctx.cov["rule"] = ("random strings over quotes/escapes/#/blanks for the character-level functions; random block-structured scripts (if/elif/else, while, for, main loop, "
                       "depth <= 2) whose every line carries a tag, rendered under random layouts: indent unit 1-8 or tabs, blank lines, comment lines (same column in-domain, "
                       "any column otherwise), trailing comments (on headers only out-of-domain), trailing whitespace, spaces inside calls; random scripts with if/elif*/else chains "
                       "(0-3 elif, conditions over a setup constant and the pass counter) and for loops in which any block may hold only pass / print / bare string / comment lines, "
                       "emitted C++ run for 8 passes against CPython")
    return ctx.finish(TRUSTED, search=None)
