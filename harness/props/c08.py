"""C08 — device calls bind arguments exactly like the Python signatures do.

Proof: lean/Reduino/Props/C08.lean — one obligation per constructor / method / Core helper over signature and behaviour tables
REGENERATED from /repo/src on every run (inspect.signature of the host callables; black-box table of the transpiler's
treatment of every call shape), plus generic theorems lifting them to every keyword order.
Oracle: for every callable and every subset of provided parameters, all calling conventions Python accepts (all
positional/keyword splits, several keyword orders) must be rejected or yield byte-identical C++; and every provided value
must influence the output (value-variation), unless Python's own result does not depend on it; and every call shape
(a sample of them per callable) re-spelled with the optional white space of Python's grammar — blanks or tabs around the `=` of
a keyword argument, around the commas, inside the parentheses, a trailing comma (bindprobe.STYLES) — must be rejected or
yield the firmware of the canonical spelling of the same shape."""
from __future__ import annotations

import random

import bindprobe
import common
import cxx
import extract
from common import Ctx

TRUSTED = [
    "Lean 4.33 kernel; decide +kernel on the regenerated tables (no axioms beyond propext)",
    "harness/extract.py probe_bindings + harness/bindprobe.py: the translator that regenerates signature and behaviour tables (sample values per parameter, "
    "value-variation as the notion of 'the value reaches the generated code')",
    "slot correctness (the value reaches the RIGHT parameter) is decided by the byte-equality of all equivalent calling conventions, not by the tables",
]


def run(ctx: Ctx) -> int:
    ctx.prove(["Reduino.Props.C08"])
    common.fresh_import()
    rng = ctx.rng
    srng = random.Random(f"{ctx.seed}:C08:spelling")          # own stream: the shape enumeration keeps its sequence
    for cls, meth, params in bindprobe.callables():
        if (cls, meth) == ("LCD", "__init__"):
            params = [(n, k, d and n not in ("rs", "en", "d4", "d5", "d6", "d7")) for n, k, d in params]
        v1 = {n: bindprobe.values_for(cls, meth, n)[0] for n, _, _ in params}
        shapes = bindprobe.shapes(params, rng, max_perm=3 if ctx.tier != "thorough" else 6)
        if len(shapes) > ctx.n(400, 4000):
            shapes = rng.sample(shapes, ctx.n(400, 4000))
        groups = {}
        for names, k, order in shapes:
            src = bindprobe.call_text(cls, meth, params, (names, k, order), v1)
            cpp, exc = cxx.transpile(src)
            out = cpp if cpp is not None else "reject"
            groups.setdefault(names, []).append(((k, order), out, src))
            ctx.cov["traces_validated_against_impl"] += 1
            ctx.case(f"{cls}.{meth}|{names}|{k}|{order}", nontrivial=len(order) > 0, sample={"call": src.splitlines()[-1 if meth != "__init__" else -2], "accepted": cpp is not None} if len(ctx.cov["samples"]) < 5 and len(order) > 1 else None)
        ctx.count(f"{cls}.{meth}", len(shapes))
        for names, runs in groups.items():
            texts = {o for _, o, _ in runs if o != "reject"}
            if len(texts) > 1:
                ref = next(o for _, o, _ in runs if o != "reject")
                bad = next((sh, s) for sh, o, s in runs if o != "reject" and o != ref)
                good = next((sh, s) for sh, o, s in runs if o == ref)
                ctx.fail(f"bind:{cls}.{meth}", f"{cls}.{meth}: equivalent calls produce different firmware — e.g. `{good[1].splitlines()[-1]}` vs `{bad[1].splitlines()[-1]}`",
                         {"script_a": good[1], "script_b": bad[1]})
        # the same call shape in other spellings (spaces/tabs around `=`, around commas, inside the parentheses, trailing comma): Python's grammar binds
        # them identically, so each is rejected or yields the firmware of the canonical spelling of that very shape
        spell = [sh for sh in shapes if sh[1] + len(sh[2]) > 0]
        if len(spell) > ctx.n(60, 600):
            spell = srng.sample(spell, ctx.n(60, 600))
        for names, k, order in spell:
            ref_src = bindprobe.call_text(cls, meth, params, (names, k, order), v1)
            ref = cxx.transpile(ref_src)[0]
            for style in bindprobe.STYLES[1:]:
                src = bindprobe.call_text(cls, meth, params, (names, k, order), v1, style)
                if src == ref_src:
                    continue                                  # this spelling does not differ from the canonical one for this shape
                cpp, exc = cxx.transpile(src)
                ctx.cov["traces_validated_against_impl"] += 1
                ctx.case(f"{cls}.{meth}|{names}|{k}|{order}|{style}", nontrivial=len(order) > 0)
                ctx.count("spelling:" + repr(style))
                if cpp is not None and cpp != ref:
                    a, b = ([l for l in t.splitlines() if l not in bindprobe.HEAD.splitlines()][0 if cls == "Core" or meth == "__init__" else 1] for t in (ref_src, src))
                    ctx.fail(f"bind:{cls}.{meth}:spelling", f"{cls}.{meth}: the same call written `{b}` is bound differently from `{a}`" + (" (which is rejected)" if ref is None else ""),
                             {"script_a": ref_src, "script_b": src, "style": list(style)})
    # an explicitly passed falsy value (0, 0.0, False) is a value, not an omission
    import importlib, inspect
    hosts = {"Led": "Reduino.Actuators", "RGBLed": "Reduino.Actuators", "Servo": "Reduino.Actuators", "DCMotor": "Reduino.Actuators", "Buzzer": "Reduino.Actuators",
             "LCD": "Reduino.Displays.LCD", "Button": "Reduino.Sensors", "SerialMonitor": "Reduino.Communication"}
    for cls, meth, params in bindprobe.callables():
        if cls not in hosts:
            continue
        fn = getattr(getattr(importlib.import_module(hosts[cls]), cls), meth)
        sig = inspect.signature(fn)
        if (cls, meth) == ("LCD", "__init__"):
            params = [(n, k, d and n not in ("rs", "en", "d4", "d5", "d6", "d7")) for n, k, d in params]
        v1 = {n: bindprobe.values_for(cls, meth, n)[0] for n, _, _ in params}
        pos = [n for n, k, _ in params if k == "pos"]
        req = [n for n, k, d in params if not d]
        for n, kind, dflt in params:
            if not dflt:
                continue
            d = sig.parameters[n].default
            if isinstance(d, bool) or not isinstance(d, (int, float)) or d == 0:
                continue
            # required parameters (and optional positional ones before n, when n goes positionally) as usual; n = 0
            for route in ("kw", "pos") if kind == "pos" else ("kw",):
                if route == "pos":
                    k = pos.index(n) + 1
                    kws = [r for r in req if r not in pos[:k]]
                else:
                    k = 0
                    for q in pos:
                        if q in req:
                            k += 1
                        else:
                            break
                    kws = [r for r in req if r not in pos[:k]] + [n]
                vals = dict(v1); vals[n] = "0"
                with_zero = cxx.transpile(bindprobe.call_text(cls, meth, params, (None, k, tuple(kws)), vals))[0]
                base_k = min(k, sum(1 for q in pos[:k] if q != n)) if route == "pos" else k
                omitted_kws = [r for r in kws if r != n]
                if route == "pos":
                    # omit n and everything positional after it
                    base_k = pos.index(n)
                    omitted_kws = [r for r in req if r not in pos[:base_k]]
                    if any(q not in req for q in pos[:base_k]) and False:
                        continue
                omitted = cxx.transpile(bindprobe.call_text(cls, meth, params, (None, base_k, tuple(omitted_kws)), v1))[0]
                ctx.case(f"falsy:{cls}.{meth}.{n}.{route}", nontrivial=True)
                if with_zero is not None and omitted is not None:
                    # positional route: earlier optional positionals are provided in `with_zero` but not in `omitted`; compare only when none exist
                    if route == "pos" and any(q not in req for q in pos[:pos.index(n)]):
                        continue
                    if with_zero == omitted:
                        ctx.fail(f"bind:{cls}.{meth}:falsy-as-omitted", f"{cls}.{meth}({n}=0) generates the same firmware as omitting {n} (default {d!r})",
                                 {"script": bindprobe.call_text(cls, meth, params, (None, k, tuple(kws)), vals)})
    # value-variation tables (the regenerated Lean tables) restated as an oracle, so that a violation has a concrete replay
    for cls, meth, params, rows in extract.probe_bindings():
        for k, kws, outcome, unseen in rows:
            if outcome == "ok" and unseen:
                v1 = {n: bindprobe.values_for(cls, meth, n)[0] for n, _, _ in params}
                src = bindprobe.call_text(cls, meth, params, (None, k, tuple(kws)), v1)
                ctx.fail(f"bind:{cls}.{meth}", f"{cls}.{meth}: value of {unseen} does not reach the generated code in `{src.splitlines()[-1]}`", {"script": src, "unseen": list(unseen)})
    ctx.cov["rule"] = ("every constructor, method and Core helper with parameters (44 callables): all positional/keyword splits x subsets of omitted defaults accepted by "
                       "inspect.signature, keywords in signature order, reversed and shuffled; up to 60 (thorough 600) shapes per callable re-spelled in 9 white-space styles "
                       "(`k = v`, `k =v`, `k= v`, tabs, no/extra blanks at commas and inside the parentheses, trailing comma); non-trivial = at least one keyword argument; "
                       "distinct = distinct (callable, shape[, spelling])")
    return ctx.finish(TRUSTED, search=None)
