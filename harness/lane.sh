#!/bin/sh
# usage: lane.sh <k>            — (re)create lane k: a detached worktree of /verif HEAD (+ the built .lake) and a worktree of /repo HEAD under /tmp/lane<k>
# Several lanes let seeded changes be checked in parallel without touching /repo: run inside a lane as
#   cd /tmp/lane<k>/verif && REDUINO_REPO=/tmp/lane<k>/repo /venv/bin/python harness/seedtest.py run C01/m quick
k=$1
L=/tmp/lane$k
git -C /verif worktree remove --force $L/verif 2>/dev/null
git -C /repo worktree remove --force $L/repo 2>/dev/null
rm -rf $L; mkdir -p $L
git -C /verif worktree add --detach $L/verif HEAD >/dev/null 2>&1
git -C /repo worktree add --detach $L/repo HEAD >/dev/null 2>&1
cp -r /verif/lean/.lake $L/verif/lean/.lake
mkdir -p $L/verif/.work
echo "lane $k at $(git -C $L/verif rev-parse --short HEAD)"
