"""Scripts in which a NEW top-level name is first assigned from names that earlier prologue statements have already changed
(re-assigned, augmented, changed in a loop or a branch).  The first assignment must take effect at its program position, with the
values of that moment (used by C03: global initialiser vs run-time assignment; C05: prologue runs once, in source order)."""
HEAD = "from Reduino.Communication import SerialMonitor\nfrom Reduino.Utils import sleep\nmon = SerialMonitor(9600)\n"


def scripts(rng, n):
    out = []
    for _ in range(n):
        a, b = rng.randint(1, 9), rng.randint(10, 99)
        lines = [f"level = {a}", f"base = {b}"]
        how = rng.choice(["reassign", "aug", "loop", "branch", "chain", "tuple"])
        if how == "reassign":
            lines.append(f"level = {rng.randint(100, 200)}")
        elif how == "aug":
            lines.append(f"level += {rng.randint(1, 9)}")
        elif how == "loop":
            lines += [f"for i in range({rng.randint(1, 3)}):", f"    level += {rng.randint(1, 5)}"]
        elif how == "branch":
            lines += [f"if base > {rng.randint(0, 9)}:", f"    level = level * {rng.randint(2, 5)}"]
        elif how == "chain":
            lines += [f"level = level + base", f"base = level - {rng.randint(1, 5)}"]
        else:
            lines.append("level, base = base, level")
        rhs = rng.choice(["level + 5", "level * 2 + base", "base - level", "level", "max(level, base) + 1", "level if level > base else base"])
        if rng.random() < 0.3:
            lines += [f"duty, spare = {rhs}, level + base", "mon.write(duty)", "mon.write(spare)"]
        else:
            lines += [f"duty = {rhs}", "mon.write(duty)"]
        if rng.random() < 0.5:
            lines += [f"level = {rng.randint(0, 9)}", f"other = duty + level", "mon.write(other)"]
        if rng.random() < 0.5:
            lines += ["while True:", "    duty += 1", "    mon.write(duty)"]
        out.append(HEAD + "\n".join(lines) + "\n")
    return out


def persist_scripts(rng, n):
    """a name FIRST assigned inside a top-level for / while / if-else of the prologue (so its declaration is hoisted) and then updated in the
    main loop — directly, augmented, under an `if`, inside a nested loop: the update must persist from pass to pass as in Python"""
    out = []
    for _ in range(n):
        a, k = rng.randint(1, 9), rng.randint(1, 4)
        lines = [f"seed = {a}"]
        how = rng.choice(["for", "while", "ifelse", "for2"])
        if how == "for":
            lines += [f"for i in range({k}):", f"    last = seed + i * {rng.randint(1, 5)}"]
        elif how == "for2":
            lines += [f"for i in range({k}):", f"    last = seed + i", f"    peak = last * 2"]
        elif how == "while":
            lines += ["n = 0", f"while n < {k}:", f"    last = seed * {rng.randint(2, 4)} + n", "    n += 1"]
        else:
            lines += [f"if seed > {rng.randint(0, 9)}:", f"    last = seed + {rng.randint(10, 20)}", "else:", f"    last = {rng.randint(30, 40)}"]
        if rng.random() < 0.4:
            lines.append("mon.write(last)")
        upd = rng.choice(["last = last + 5", "last += 3", "last = last * 2 - seed", "last = last + seed", "last, seed = last + seed, seed + 1"])
        body = rng.choice(["plain", "if", "nested-for", "nested-while", "else"])
        lines.append("while True:")
        if body == "plain":
            lines += ["    " + upd]
        elif body == "if":
            lines += [f"    if last > {rng.randint(0, 5)}:", "        " + upd]
        elif body == "else":
            lines += [f"    if last < 0:", "        mon.write(0)", "    else:", "        " + upd]
        elif body == "nested-for":
            lines += [f"    for j in range({rng.randint(1, 3)}):", "        " + upd]
        else:
            lines += ["    m = 0", f"    while m < {rng.randint(1, 3)}:", "        " + upd, "        m += 1"]
        lines += ["    mon.write(last)"]
        if how == "for2":
            lines += ["    peak = peak + last", "    mon.write(peak)"]
        out.append(HEAD + "\n".join(lines) + "\n")
    return out


def check(ctx, key, n_quick, n_thorough, passes=2, family=scripts):
    import cxx
    import pyoracle
    srcs = family(ctx.rng, ctx.n(n_quick, n_thorough))
    outs = [cxx.transpile(s) for s in srcs]
    jobs = [(cpp, passes, "") for cpp, e in outs if cpp is not None]
    it = iter(cxx.run_many(ctx, jobs))
    for src, (cpp, exc) in zip(srcs, outs):
        if cpp is None:
            ctx.count("late-init:rejected")
            continue
        res = next(it)
        ctx.case(src, nontrivial=True)
        if res.compile_error or not res.ok:
            ctx.count("late-init:does-not-compile")
            continue
        ev, err = pyoracle.run_script(src, passes)
        if err is not None:
            continue
        ctx.cov["traces_validated_against_impl"] += 1
        ctx.count("late-init")
        pyv = [e[1] for e in ev if e[0] == "w"]
        fwv = [e[1] for e in pyoracle.fw_events(res.trace) if e[0] == "w"]
        if pyv != fwv:
            ctx.fail(key, f"firmware prints {fwv} where Python prints {pyv}: a first assignment did not take the values of its program position", {"script": src})
