"""Generator of core-fragment programs (Lang): one abstract tree -> Python source text + S-expression for the Lean model."""
from __future__ import annotations

import random as _random
import zlib as _zlib

INTS = ["a", "b", "c", "d"]
BOOLS = ["p", "q"]
STRS = ["s", "t"]          # W13: string-typed names, first assigned at top level (`u` is introduced by a promoted branch)
LIT_CHARS = "abcxyzKQ019 _=:!.-"      # plus now and then one of LIT_ODD (escaping in the C++ literal); never `#` alone (the mock's marker line)
LIT_ODD = ['"', "\\", "'", "%", "{", "}", "?", "(", ")", ";", "//"]
BIN = {"add": "+", "sub": "-", "mul": "*", "band": "&", "bor": "|", "bxor": "^", "fdiv": "//", "fmod": "%"}
BIT = ["band", "bor", "bxor"]
DIV = ["fdiv", "fmod"]
ARITH = [k for k in BIN if k not in DIV]
CMP = {"lt": "<", "le": "<=", "gt": ">", "ge": ">=", "eq": "==", "ne": "!="}


class G:
    def __init__(self, rng, max_depth=3, promote=False, chains=False, strings=False):
        self.rng = rng
        self.strings = strings      # W13: a post-pass (own PRNG seeded from the finished program, so the int/bool stream is unchanged) adds text
        self.chains = chains        # conditions may be chained comparisons `a < b <= c` (sugar for `a < b and b <= c`; the model sees the conjunction)
        self.max_depth = max_depth
        self.promote = promote      # top-level compound statements of the prologue may introduce names directly in their bodies (tr2)
        self.fresh = 0
        self.loopvars = 0
        self.counters = 0

    # ---- expressions: ('i',n) ('b',bool) ('v',x) ('bin',op,a,b) ('neg',a) ('cmp',op,a,b) ('and',a,b) ('or',a,b) ('not',a) ('ite',c,a,b)
    #                   ('abs',a) ('min',[a,b,...]) ('max',[a,b,...])  (two or more int-typed arguments; the model is sent the left fold)
    def divisor(self, d, names):
        """divisor of `//` / `%`: mostly a small positive literal or a positive-valued expression (there C's `/`, `%` agree with Python's
        whenever the dividend is non-negative); a negative literal or an arbitrary name now and then (signed case, K01b/K01c);
        a deliberate small share of zero divisors (CPython raises ZeroDivisionError)"""
        r = self.rng
        x = r.random()
        if x < 0.62:
            return ("i", r.randint(1, 9))
        if x < 0.84:
            return ("bin", "add", ("abs", self.int_expr(d - 1, names)), ("i", r.randint(1, 4)))
        if x < 0.92:
            return ("neg", ("i", r.randint(1, 5)))
        if x < 0.985 and names:
            return ("bin", "bor", ("v", r.choice(names)), ("i", 1)) if r.random() < 0.7 else ("v", r.choice(names))
        return ("i", 0)

    def int_expr(self, d, names):
        r = self.rng
        if d <= 0 or r.random() < 0.3:
            return r.choice([("i", r.randint(0, 9)), ("v", r.choice(names))]) if names else ("i", r.randint(0, 9))
        k = r.choice(["bin", "bin", "bin", "neg", "ite", "leaf", "bbit", "abs", "mm", "div", "div"])
        if k == "div":
            return ("bin", r.choice(DIV), self.int_expr(d - 1, names), self.divisor(d, names))
        if k == "abs":
            if r.random() < 0.15:
                return ("abs", self.bool_expr(d - 1, names))      # abs(True) is the int 1 on both sides
            return ("abs", self.int_expr(d - 1, names))
        if k == "mm":
            return (r.choice(["min", "max"]), [self.int_expr(d - 1, names) for _ in range(r.choice([2, 2, 2, 3]))])
        if k == "bin":
            return ("bin", r.choice(ARITH), self.int_expr(d - 1, names), self.int_expr(d - 1, names))
        if k == "bbit":
            # `& | ^` of two bools is a bool in Python and an int in C++: used as an operand of arithmetic, where both are the int
            return ("bin", r.choice(["add", "sub", "mul"]), ("bin", r.choice(BIT), self.bool_expr(d - 1, names), self.bool_expr(d - 1, names)), self.int_expr(d - 1, names))
        if k == "neg":
            return ("neg", self.int_expr(d - 1, names))
        if k == "ite":
            return ("ite", self.bool_expr(d - 1, names), self.int_expr(d - 1, names), self.int_expr(d - 1, names))
        return ("i", r.randint(0, 20))

    def bool_expr(self, d, names):
        r = self.rng
        bnames = [n for n in names if n in BOOLS]
        if d <= 0 or r.random() < 0.2:
            if bnames and r.random() < 0.5:
                return ("v", r.choice(bnames))
            return ("cmp", r.choice(list(CMP)), self.int_expr(0, names), self.int_expr(0, names))
        k = r.choice(["cmp", "cmp", "and", "or", "not", "lit", "nbit"] + (["chain"] * 6 if self.chains else []))
        inames = [n for n in names if n not in BOOLS]
        if k == "chain":
            return ("chain", r.choice(list(CMP)), r.choice(list(CMP)), self.int_expr(d - 1, inames), self.int_expr(d - 1, inames), self.int_expr(d - 1, inames))
        if k == "cmp":
            return ("cmp", r.choice(list(CMP)), self.int_expr(d - 1, inames), self.int_expr(d - 1, inames))
        if k in ("and", "or"):
            return (k, self.bool_expr(d - 1, names), self.bool_expr(d - 1, names))
        if k == "not":
            return ("not", self.bool_expr(d - 1, names))
        if k == "nbit":
            return ("not", ("bin", r.choice(BIT), self.bool_expr(d - 1, names), self.bool_expr(d - 1, names)))
        return ("b", r.random() < 0.5)

    # ---- statements
    def block(self, d, names, in_loop, n=None):
        r = self.rng
        out = []
        for _ in range(n if n is not None else r.randint(1, 4)):
            out.append(self.stmt(d, names, in_loop))
        return out

    def stmt(self, d, names, in_loop):
        r = self.rng
        inames = [n for n in names if n in INTS]
        bnames = [n for n in names if n in BOOLS]
        kinds = ["as", "as", "aug", "wr", "wr", "sl"]
        if d > 0:
            kinds += ["if", "if", "while", "for"]
        if in_loop:
            kinds += ["brk"]
        kinds += ["tup"]            # W5: tuple assignment to declared names (appended last)
        k = r.choice(kinds)
        if k == "tup":
            return self.tuple_stmt(inames, bnames)
        if k == "as":
            if bnames and r.random() < 0.3:
                return ("as", r.choice(bnames), self.bool_expr(2, names))
            return ("as", r.choice(inames), self.int_expr(2, inames))
        if k == "aug":
            op = r.choice(list(BIN))
            return ("aug", r.choice(inames), op, self.divisor(1, inames) if op in DIV else self.int_expr(1, inames))
        if k == "wr":
            return ("wr", self.int_expr(2, inames))
        if k == "sl":
            return ("sl", r.choice([("i", r.randint(0, 50)), ("bin", "mul", ("i", r.randint(0, 9)), ("i", 10)), ("i", 5),
                                    ("abs", ("neg", ("i", r.randint(0, 30)))), ("max", [("i", r.randint(0, 9)), ("bin", "band", ("i", r.randint(0, 40)), ("i", 12))]),
                                    ("bin", "fdiv", ("i", r.randint(0, 90)), ("i", r.randint(1, 9))), ("bin", "fmod", ("i", r.randint(0, 90)), ("i", r.randint(1, 9)))]))
        if k == "if":
            els = []
            rr = r.random()
            if rr < 0.35:
                els = self.block(d - 1, names, in_loop, r.randint(1, 2))
            elif rr < 0.6:
                els = [("if", self.bool_expr(1, names), self.block(d - 1, names, in_loop, r.randint(1, 2)), self.block(d - 1, names, in_loop, 1) if r.random() < 0.5 else [])]
            return ("if", self.bool_expr(2, names), self.block(d - 1, names, in_loop, r.randint(1, 3)), els)
        if k == "while":
            # bounded: a dedicated counter incremented first in the body
            self.counters += 1
            cn = f"n{self.counters}"
            body = [("aug", cn, "add", ("i", 1))] + self.block(d - 1, names, True, r.randint(1, 3))
            return ("seqw", cn, ("while", ("cmp", "lt", ("v", cn), ("i", r.randint(0, 4))), body))
        if k == "for":
            self.loopvars += 1
            iv = f"i{self.loopvars}"
            cnt = r.choice([("i", r.randint(0, 4)), ("bin", "add", ("i", 1), ("i", r.randint(0, 2))), ("v", "lim"),
                            ("min", [("i", r.randint(0, 4)), ("i", 3)]), ("min", [("v", "lim"), ("i", 2)]),
                            ("bin", "fdiv", ("i", r.randint(0, 9)), ("i", 3)), ("bin", "fmod", ("v", "lim"), ("i", 3))])
            body = self.block(d - 1, names, True, r.randint(1, 3))
            if r.random() < 0.6:
                body.append(("wr", ("bin", "add", ("v", iv), ("i", 0))))
            return ("for", iv, cnt, body)
        return ("if", self.bool_expr(1, names), [("brk",)], [])

    def tuple_stmt(self, inames, bnames):
        """('tup', [targets], [right-hand sides]): swap, rotation of three, Fibonacci-style update, or distinct targets of both types
        with arbitrary right-hand sides of the target's type (every target is a declared name: the temporaries path of the transpiler)"""
        r = self.rng
        shape = r.choice(["swap", "swap", "rot", "fib", "mixed", "mixed"])
        if shape == "rot" and len(inames) >= 3:
            xs = r.sample(inames, 3)
            return ("tup", xs, [("v", xs[1]), ("v", xs[2]), ("v", xs[0])])
        if shape == "fib":
            a, b = r.sample(inames, 2)
            return ("tup", [a, b], [("v", b), ("bin", r.choice(["add", "add", "sub", "bxor"]), ("v", a), ("v", b))])
        if shape == "mixed":
            pool = r.sample(inames, r.randint(1, min(3, len(inames)))) + (r.sample(bnames, r.randint(1, len(bnames))) if bnames and r.random() < 0.6 else [])
            if len(pool) >= 2:
                r.shuffle(pool)
                names = inames + bnames
                return ("tup", pool, [self.bool_expr(1, names) if x in bnames else self.int_expr(1, inames) for x in pool])
        if len(bnames) >= 2 and r.random() < 0.2:
            return ("tup", list(bnames[:2]), [("v", bnames[1]), ("v", bnames[0])])
        a, b = r.sample(inames, 2)
        return ("tup", [a, b], [("v", b), ("v", a)])

    def new_assign(self, names, typ=None):
        """first assignment of a fresh name (int or bool), over the names visible so far"""
        r = self.rng
        self.fresh += 1
        typ = typ or r.choice(["int", "int", "bool"])
        x = f"{'v' if typ == 'int' else 'w'}{self.fresh}"
        inames = [n for n in names if n in INTS or n.startswith("v")]
        e = self.int_expr(1, inames) if typ == "int" else self.bool_expr(1, [n for n in names if n in INTS + BOOLS])
        return x, typ, ("as", x, e)

    def top_stmt_promoting(self, names):
        """a top-level statement of the prologue; compound ones may introduce names directly in their bodies.
        `names` grows (in place) by the names definitely assigned afterwards"""
        r = self.rng
        k = r.choice(["plain", "if", "ifelse", "chain", "for", "while"])
        base = [n for n in names if n in INTS + BOOLS]
        if k == "plain":
            return [self.stmt(self.max_depth - 1, base, False)]
        if k in ("if", "ifelse", "chain"):
            nb = {"if": 1, "ifelse": 2, "chain": 3}[k]
            x, typ, first = self.new_assign(base)
            blocks = []
            for j in range(nb):
                blk = self.block(self.max_depth - 2, base, False, r.randint(0, 2))
                if j == 0 or r.random() < 0.7:
                    _, _, a = self.new_assign(base, typ)
                    a = ("as", x, a[2])
                    pos = r.randint(0, len(blk))
                    blk = blk[:pos] + [a] + ([("wr", ("v", x))] if typ == "int" and r.random() < 0.5 else []) + blk[pos:]
                if r.random() < 0.4:                      # a second new name in this branch only
                    y, ty, ay = self.new_assign(base)
                    blk = blk + [ay]
                blocks.append(blk or [("sl", ("i", 1))])
            conds = [self.bool_expr(1, base) for _ in range(nb)]
            again = [("as", x, ("i", r.randint(0, 9)) if typ == "int" else ("b", r.random() < 0.5))] + ([("wr", ("v", x))] if typ == "int" else [])
            again = again if r.random() < 0.5 else []
            if k == "if":
                return [("if", conds[0], blocks[0], [])] + again
            if k == "ifelse":
                out = [("if", conds[0], blocks[0], blocks[1])]
            else:
                out = [("if", conds[0], blocks[0], [("if", conds[1], blocks[1], blocks[2])])]
            return out + again
        if k == "for":
            self.loopvars += 1
            iv = f"i{self.loopvars}"
            x, typ, first = self.new_assign(base)
            body = [first] + self.block(self.max_depth - 2, base, True, r.randint(0, 2))
            if typ == "int":
                body.append(("aug", x, "add", ("v", iv)))
            again = [("as", x, ("i", r.randint(0, 9)) if typ == "int" else ("b", True))] if r.random() < 0.5 else []
            return [("for", iv, ("i", r.randint(0, 3)), body)] + again
        self.counters += 1
        cn = f"n{self.counters}"
        x, typ, first = self.new_assign(base)
        body = [("aug", cn, "add", ("i", 1)), first] + self.block(self.max_depth - 2, base, True, r.randint(0, 2))
        return [("seqw", cn, ("while", ("cmp", "lt", ("v", cn), ("i", r.randint(0, 3))), body))]

    def program(self, with_loop=None):
        r = self.rng
        names = INTS[: r.randint(2, 4)] + BOOLS[: r.randint(0, 2)]
        pre = []
        for n in names:
            if n in BOOLS:
                pre.append(("as", n, r.choice([("b", True), ("b", False), ("cmp", "lt", ("i", r.randint(0, 5)), ("i", 3))])))
            else:
                pre.append(("as", n, r.choice([("i", r.randint(0, 9)), ("bin", "add", ("i", 2), ("i", r.randint(0, 5))), ("neg", ("i", r.randint(1, 5))),
                                               ("abs", ("neg", ("i", r.randint(0, 9)))), ("max", [("i", r.randint(0, 9)), ("neg", ("i", 3)), ("i", 4)]),
                                               ("bin", r.choice(BIT), ("neg", ("i", r.randint(1, 9))), ("i", r.randint(0, 15))),
                                               ("bin", r.choice(DIV), ("i", r.randint(0, 50)), ("i", r.randint(1, 7)))])))
                if r.random() < 0.05:     # a constant initialiser on which C's `/`, `%` differ from Python's (K01b/K01c in a global declaration)
                    pre[-1] = ("as", n, ("bin", r.choice(DIV), ("neg", ("i", r.randint(1, 9))), ("i", r.randint(2, 4))))
        pre.append(("as", "lim", ("i", r.randint(0, 3))))
        if self.promote:
            body_pre = []
            for _ in range(r.randint(1, 5)):
                body_pre += self.top_stmt_promoting(names)
        else:
            body_pre = self.block(self.max_depth, names, False, r.randint(1, 5))
            # a NEW top-level name first assigned late in the prologue, from names that earlier statements may have changed
            for _ in range(r.randint(0, 2)):
                self.fresh += 1
                inames = [n for n in names if n in INTS]
                late = ("as", f"v{self.fresh}", r.choice([self.int_expr(1, inames), ("bin", "add", ("v", r.choice(inames)), ("i", r.randint(0, 9))), ("v", r.choice(inames))]))
                pos = r.randint(0, len(body_pre))
                body_pre = body_pre[:pos] + [late, ("wr", ("v", late[1]))] + body_pre[pos:]
        loop = None
        if with_loop if with_loop is not None else r.random() < 0.7:
            loop = self.block(self.max_depth - 1, names, False, r.randint(1, 4))
        # counters of bounded whiles must be declared at top level (fragment) and reset before each while
        decls = [("as", f"n{k}", ("i", 0)) for k in range(1, self.counters + 1)]
        prog = {"pre": pre + decls + body_pre, "loop": loop}
        if self.strings:
            prog = add_strings(prog, len(pre) + len(decls), names, self.promote)
        return prog


# ---- W13: strings.  ('s', text) literal, ('v', 's'|'t'|'u') names, ('ite', c, a, b) over strings; later increments: ('bin','add',…), ('str', e), ('fstr', parts)
class S:
    """string-typed expressions and statements over the declared names, drawn from a PRNG of its own"""
    def __init__(self, r, inames, level):
        self.r, self.inames, self.level = r, inames, level

    def lit(self):
        r = self.r
        n = r.choice([0, 1, 1, 2, 3, 3, 5, 8])
        cs = [r.choice(LIT_ODD) if r.random() < 0.08 else r.choice(LIT_CHARS) for _ in range(n)]
        text = "".join(cs)
        return ("s", "x" if text == "#" else text)

    def cond(self):
        r = self.r
        return ("cmp", r.choice(list(CMP)), ("v", r.choice(self.inames)), ("i", r.randint(0, 9)))

    def expr(self, d, snames, ivars=()):
        r = self.r
        if d <= 0 or r.random() < 0.35:
            return ("v", r.choice(snames)) if snames and r.random() < 0.55 else self.lit()
        k = r.choice(["ite", "cat", "cat", "cat", "str", "str", "strs", "fstr", "fstr", "fstr"])
        if k == "fstr":
            # f-string: literal text (no quote / brace / backslash) alternating with formatted int- or string-typed values; the model is
            # sent what `_to_c_expr` makes of a JoinedStr: the left fold `String("lit") + String(e) + "lit" + …` (see `sx_expr`)
            parts, want_lit = [], r.random() < 0.6
            for _ in range(r.randint(1, 4)):
                if want_lit:
                    parts.append(("lit", "".join(r.choice(LIT_CHARS) for _ in range(r.randint(1, 4)))))
                else:
                    parts.append(("fv", ("v", r.choice(snames)) if snames and r.random() < 0.4 else G(r).int_expr(r.choice([0, 0, 1]), self.inames + list(ivars))))
                want_lit = not want_lit if r.random() < 0.8 else False
            if r.random() < 0.1:
                parts = [pt for pt in parts if pt[0] == "lit"][:1] or parts      # an f-string without formatted values is a plain literal
            return ("fstr", parts)
        if k == "ite":
            return ("ite", self.cond(), self.expr(d - 1, snames, ivars), self.expr(d - 1, snames, ivars))
        if k == "str":
            # `str(e)` of an int-typed expression whose Python value is an int (never a bool: `str(True)` is "True", `String(true)` is "1")
            return ("str", G(r).int_expr(r.choice([0, 1, 1, 2]), self.inames + list(ivars)))
        if k == "strs":
            return ("str", self.expr(d - 1, snames, ivars))
        a, b = self.expr(d - 1, snames, ivars), self.expr(d - 1, snames, ivars)
        if a[0] != "s" and cstr(a) and cstr(b):
            # `const char* + const char*` does not compile (the emitter wraps only a LITERAL left operand): outside `Expr.wt`
            b = ("str", b)
        return ("bin", "add", a, b)

    def stmt(self, snames, ivars=()):
        r = self.r
        k = r.choice(["wr", "wr", "wr", "as", "as", "swap", "aug"])
        if k == "swap" and len(snames) >= 2:
            a, b = r.sample(snames, 2)
            return ("tup", [a, b], [("v", b), ("v", a)])
        if k == "as" and snames:
            return ("as", r.choice(snames), self.expr(2, snames, ivars))
        if k == "aug" and snames:
            return ("aug", r.choice(snames), "add", self.expr(1, snames, ivars))
        return ("wr", self.expr(2, snames, ivars))


def cstr(e):
    """the emitted C++ expression is a `const char*` (mirrors `Expr.cstr`)"""
    return e[0] == "s" or (e[0] == "ite" and cstr(e[2]) and cstr(e[3])) or (e[0] == "fstr" and all(pt[0] == "lit" for pt in e[1]))


def fstr_fold(parts):
    """what the transpiler emits for a JoinedStr, as an expression tree: no formatted value -> one literal; otherwise the left fold of `+`
    over the parts, a formatted value `{e}` being `str(e)` (emitted `String(e)`), a literal first part being wrapped by the `+` rule"""
    if all(pt[0] == "lit" for pt in parts):
        return ("s", "".join(pt[1] for pt in parts))
    acc = None
    for kind, x in parts:
        nxt = ("s", x) if kind == "lit" else ("str", x)
        acc = nxt if acc is None else ("bin", "add", acc, nxt)
    return acc


def add_strings(prog, ndecl, names, promote):
    """declare `s` (and mostly `t`) after the first `ndecl` top-level statements and sprinkle string statements (serial writes of
    literals / names / conditional expressions, assignments, swaps) over every block; with `promote`, sometimes a top-level
    if/else whose branches first assign `u`"""
    r = _random.Random(_zlib.crc32(repr(prog).encode()))
    if r.random() < 0.25:
        return prog
    inames = [n for n in names if n in INTS]
    g = S(r, inames, 1)
    snames = STRS[: r.choice([1, 2, 2])]
    decls = []
    for i, n in enumerate(snames):
        decls.append(("as", n, r.choice([g.lit(), g.lit(), g.expr(1, snames[:i]), ("ite", ("cmp", "lt", ("i", r.randint(0, 5)), ("i", 3)), g.lit(), g.lit())])))

    def inner(st, iv):
        k = st[0]
        if k == "if":
            els = st[3]
            if len(els) == 1 and els[0][0] == "if":
                els = [inner(els[0], iv)]      # an `elif` chain stays a chain: nothing is put next to the inner `if`
            elif els:
                els = walk(els, iv)
            return ("if", st[1], walk(st[2], iv), els)
        if k == "for":
            return ("for", st[1], st[2], walk(st[3], iv + (st[1],)))
        if k == "seqw":
            w = st[2]
            return ("seqw", st[1], ("while", w[1], walk(w[2], iv)))
        return st

    def walk(block, iv=()):
        out = []
        for st in block:
            if r.random() < 0.22:
                out.append(g.stmt(snames, iv))
            out.append(inner(st, iv))
        if r.random() < 0.3:
            out.append(g.stmt(snames, iv))
        return out

    pre = prog["pre"][:ndecl] + decls + walk(prog["pre"][ndecl:])
    if promote and r.random() < 0.5:
        both = r.random() < 0.8
        pre += [("if", g.cond(), [("as", "u", g.expr(1, snames))] + ([("wr", ("v", "u"))] if r.random() < 0.5 else []),
                 [("as", "u", g.expr(1, snames))] if both else [])]
        if both or r.random() < 0.5:
            pre.append(("wr", ("v", "u")))
    loop = prog["loop"]
    if loop is not None:
        loop = walk(loop)
    return {"pre": pre, "loop": loop}


# ---- W6: helper functions.  prog["helpers"] = [{"name", "params": [(name, "int"|"bool"|"string")], "body": [stmts], "ret": expr | None}],
#      statement ("call", target | None, helper, [args]).  Helpers come before the prologue; a body names its parameters and locals only
#      (locals first assigned at the top level of the body, parameters never assigned), calls EARLIER helpers only, ends in at most one
#      `return e`; every name of a helper (parameters u*/f*/z*, locals m*/g*/y*, counters k*, loop variables j*) is distinct from the
#      module-level names.  ONE emitted definition per helper (measured on the parser): the definition-time parse types every parameter
#      `int`; only a call whose type is inferred (`x = f(args)`) requests the signature of its argument types, a call statement requests
#      nothing.  Hence: a helper has non-int parameters only if it returns a value and is called with a target at the top level of the
#      prologue; every call passes arguments of exactly the parameter types; arguments of calls INSIDE a body are built so that their
#      types do not depend on the parameter types (int names, comparisons of ints, literals: no bool/string names).
def rename(e, m):
    if isinstance(e, tuple):
        if e and e[0] == "v":
            return ("v", m.get(e[1], e[1]))
        if e and e[0] == "s":
            return e
        return tuple(rename(x, m) for x in e)
    if isinstance(e, list):
        return [rename(x, m) for x in e]
    return e


class H:
    def __init__(self, r, target_types, strings=True):
        self.r, self.strings = r, strings
        self.target_types = target_types      # module-level types with an assignable name: a helper with non-int parameters returns one of them
        self.g = G(r)
        self.helpers = []
        self.loopvars = 0

    def iexpr(self, d, ints):
        return self.g.int_expr(d, list(ints))

    def bexpr(self, d, ints, bools):
        bools = list(bools)[:2]
        m = dict(zip(BOOLS, bools))
        return rename(self.g.bool_expr(d, list(ints) + BOOLS[: len(bools)]), m)

    def sexpr(self, d, ints, strs):
        return S(self.r, list(ints), 1).expr(d, list(strs)) if ints else S(self.r, ["0"], 1).lit()

    def arg(self, ty, ints, bools, strs):
        if ty == "int":
            return self.iexpr(1, ints)
        if ty == "bool":
            return self.bexpr(1, ints, bools)
        return self.sexpr(1, ints, strs)

    def call(self, h, targets, ints, bools, strs, force_target=False):
        """a call of helper `h`; `targets`: {type: [assignable declared names]}"""
        r = self.r
        args = [self.arg(t, ints, bools, strs) for _, t in h["params"]]
        x = None
        if h["ret"] is not None and targets.get(h["rty"]) and (force_target or r.random() < 0.7):
            x = r.choice(targets[h["rty"]])
        return ("call", x, h["name"], args)

    def stmt(self, d, env, in_loop):
        r = self.r
        ints, bools, strs = env["ri"], env["rb"], env["rs"]
        kinds = ["as", "as", "aug", "wr", "wr", "sl"] + (["if", "if", "for", "while"] if d > 0 else []) + (["brk"] if in_loop else [])
        if self.helpers:
            kinds += ["call", "call"]
        k = r.choice(kinds)
        if k == "call":
            # argument types independent of the parameter types of THIS helper: int names only
            return [self.call(r.choice(self.helpers), {"int": env["wi"], "bool": env["wb"], "string": env["ws"]}, ints, [], [])]
        if k == "as":
            if env["wb"] and r.random() < 0.3:
                return [("as", r.choice(env["wb"]), self.bexpr(2, ints, bools))]
            if env["ws"] and r.random() < 0.3:
                return [("as", r.choice(env["ws"]), self.sexpr(1, ints, strs))]
            return [("as", r.choice(env["wi"]), self.iexpr(2, ints))]
        if k == "aug":
            op = r.choice(list(BIN))
            return [("aug", r.choice(env["wi"]), op, self.g.divisor(1, list(ints)) if op in DIV else self.iexpr(1, ints))]
        if k == "wr":
            if strs and r.random() < 0.3:
                return [("wr", self.sexpr(1, ints, strs))]
            return [("wr", self.iexpr(2, ints))]
        if k == "sl":
            return [("sl", ("i", r.randint(0, 20)))]
        if k == "if":
            els = self.block(d - 1, env, in_loop, r.randint(1, 2)) if r.random() < 0.4 else []
            return [("if", self.bexpr(2, ints, bools), self.block(d - 1, env, in_loop, r.randint(1, 2)), els)]
        if k == "for":
            self.loopvars += 1
            iv = f"j{self.loopvars}"
            body = self.block(d - 1, env, True, r.randint(1, 2))
            if r.random() < 0.6:
                body.append(("wr", ("bin", "add", ("v", iv), ("i", 0))))
            # the count names a PARAMETER (never assigned: the C++ loop re-evaluates its limit, K01h)
            return [("for", iv, r.choice([("i", r.randint(0, 3)), ("min", [("abs", ("v", r.choice(env["pi"]))), ("i", 3)])]), body)]
        if k == "while" and env["k"]:
            cn = r.choice(env["k"])
            if cn in env["busy"]:
                return [("sl", ("i", 1))]
            env2 = dict(env, busy=env["busy"] + [cn])
            body = [("aug", cn, "add", ("i", 1))] + self.block(d - 1, env2, True, r.randint(1, 2))
            return [("as", cn, ("i", 0)), ("while", ("cmp", "lt", ("v", cn), ("i", r.randint(0, 3))), body)]
        if k == "brk":
            return [("if", self.bexpr(1, ints, bools), [("brk",)], [])]
        return [("sl", ("i", 2))]

    def block(self, d, env, in_loop, n):
        out = []
        for _ in range(n):
            out += self.stmt(d, env, in_loop)
        return out

    def helper(self):
        r = self.r
        idx = len(self.helpers) + 1
        kinds = ["none"] + [t for t in ["int", "int", "int", "bool", "string"] if t in self.target_types and (t != "string" or self.strings)]
        kind = r.choice(kinds)
        typed = kind != "none" and r.random() < 0.7      # non-int parameters need a value call at the top level of the prologue
        types = [r.choice(["int", "int", "int", "bool"] + (["string"] if self.strings else [])) if typed else "int" for _ in range(r.randint(1, 3))]
        if "int" not in types:
            types[0] = "int"
        params = []
        for j, t in enumerate(types):
            params.append((f"{ {'int': 'u', 'bool': 'f', 'string': 'z'}[t]}{idx}{j}", t))
        pi = [n for n, t in params if t == "int"]
        pb = [n for n, t in params if t == "bool"]
        pz = [n for n, t in params if t == "string"]
        body, li, lb, lz, lk = [], [], [], [], []
        for j in range(r.randint(1, 2)):
            x = f"m{idx}{j}"
            body.append(("as", x, self.iexpr(1, pi + li)))
            li.append(x)
        if r.random() < 0.4:
            x = f"g{idx}"
            body.append(("as", x, self.bexpr(1, pi + li, pb)))
            lb.append(x)
        if self.strings and r.random() < 0.3:
            x = f"y{idx}"
            body.append(("as", x, self.sexpr(1, pi + li, pz)))
            lz.append(x)
        if r.random() < 0.5:
            x = f"k{idx}"
            body.append(("as", x, ("i", 0)))
            lk.append(x)
        env = {"pi": pi, "ri": pi + li, "rb": pb + lb, "rs": pz + lz, "wi": li, "wb": lb, "ws": lz, "k": lk, "busy": []}
        body += self.block(r.choice([1, 2, 2]), env, False, r.randint(1, 4))
        ret, rty = None, None
        if kind == "int":
            ret, rty = r.choice([("v", r.choice(li)), self.iexpr(1, pi + li)]), "int"
        elif kind == "bool":
            ret, rty = self.bexpr(1, pi + li, pb + lb), "bool"
        elif kind == "string":
            ret, rty = self.sexpr(1, pi + li, pz + lz), "string"
        h = {"name": f"h{idx}", "params": params, "body": body, "ret": ret, "rty": rty, "typed": any(t != "int" for t in types)}
        self.helpers.append(h)
        return h


def add_helpers(prog, r, strings=True):
    """define 1-3 helpers and sprinkle calls over the prologue (after the leading run of top-level declarations) and the main loop;
    every helper is called at least once at the top level of the prologue (with a target when it has non-int parameters)"""
    pre = list(prog["pre"])
    k = 0
    declared = []
    while k < len(pre) and pre[k][0] == "as" and pre[k][1] not in declared:
        declared.append(pre[k][1])
        k += 1
    gi = [n for n in declared if n in INTS]
    gb = [n for n in declared if n in BOOLS]
    gs = [n for n in declared if n in STRS]
    targets = {"int": gi, "bool": gb, "string": gs}
    hg = H(r, [t for t in targets if targets[t]], strings)
    for _ in range(r.randint(1, 3)):
        hg.helper()

    def call():
        return hg.call(r.choice(hg.helpers), targets, gi, gb, gs)

    def inner(st):
        kd = st[0]
        if kd == "if":
            els = st[3]
            if len(els) == 1 and els[0][0] == "if":
                els = [inner(els[0])]
            elif els:
                els = walk(els)
            return ("if", st[1], walk(st[2]), els)
        if kd == "for":
            return ("for", st[1], st[2], walk(st[3]))
        if kd == "seqw":
            w = st[2]
            return ("seqw", st[1], ("while", w[1], walk(w[2])))
        return st

    def walk(block):
        out = []
        for st in block:
            if r.random() < 0.2:
                out.append(call())
            out.append(inner(st))
        if r.random() < 0.25:
            out.append(call())
        return out

    first = [hg.call(h, targets, gi, gb, gs, force_target=h["typed"]) for h in hg.helpers]
    r.shuffle(first)
    pre = pre[:k] + first + walk(pre[k:])
    loop = prog["loop"]
    if loop is not None:
        loop = walk(loop)
    return {"pre": pre, "loop": loop, "helpers": hg.helpers}


def flatten(block):
    """expand the ('seqw', counter, while) helper into reset + while"""
    out = []
    for s in block:
        if s[0] == "seqw":
            out.append(("as", s[1], ("i", 0)))
            w = s[2]
            out.append(("while", w[1], flatten(w[2])))
        elif s[0] == "if":
            out.append(("if", s[1], flatten(s[2]), flatten(s[3])))
        elif s[0] == "for":
            out.append(("for", s[1], s[2], flatten(s[3])))
        else:
            out.append(s)
    return out


def py_expr(e):
    k = e[0]
    if k == "i": return str(e[1])
    if k == "b": return "True" if e[1] else "False"
    if k == "s": return repr(e[1])
    if k == "v": return e[1]
    if k == "bin": return f"({py_expr(e[2])} {BIN[e[1]]} {py_expr(e[3])})"
    if k == "neg": return f"(-{py_expr(e[1])})"
    if k == "cmp": return f"({py_expr(e[2])} {CMP[e[1]]} {py_expr(e[3])})"
    if k == "chain": return f"({py_expr(e[3])} {CMP[e[1]]} {py_expr(e[4])} {CMP[e[2]]} {py_expr(e[5])})"
    if k in ("and", "or"): return f"({py_expr(e[1])} {k} {py_expr(e[2])})"
    if k == "not": return f"(not {py_expr(e[1])})"
    if k == "ite": return f"({py_expr(e[2])} if {py_expr(e[1])} else {py_expr(e[3])})"
    if k == "abs": return f"abs({py_expr(e[1])})"
    if k in ("min", "max"): return f"{k}({', '.join(py_expr(a) for a in e[1])})"
    if k == "str": return f"str({py_expr(e[1])})"
    if k == "fstr": return 'f"' + "".join(x if kind == "lit" else "{" + py_expr(x) + "}" for kind, x in e[1]) + '"'
    if k == "raw": return e[1]
    raise ValueError(e)


def py_block(block, ind):
    out = []
    pad = "    " * ind
    if not block:
        return [pad + "pass"]
    for s in block:
        k = s[0]
        if k == "as": out.append(f"{pad}{s[1]} = {py_expr(s[2])}")
        elif k == "aug": out.append(f"{pad}{s[1]} {BIN[s[2]]}= {py_expr(s[3])}")
        elif k == "tup": out.append(f"{pad}{', '.join(s[1])} = {', '.join(py_expr(e) for e in s[2])}")
        elif k == "wr": out.append(f"{pad}mon.write({py_expr(s[1])})")
        elif k == "sl": out.append(f"{pad}sleep({py_expr(s[1])})")
        elif k == "brk": out.append(f"{pad}break")
        elif k == "call": out.append(f"{pad}{(s[1] + ' = ') if s[1] else ''}{s[2]}({', '.join(py_expr(a) for a in s[3])})")
        elif k == "raw": out += [pad + l for l in s[1].split("\n")]
        elif k == "if":
            out.append(f"{pad}if {py_expr(s[1])}:")
            out += py_block(s[2], ind + 1)
            els = s[3]
            while len(els) == 1 and els[0][0] == "if":
                out.append(f"{pad}elif {py_expr(els[0][1])}:")
                out += py_block(els[0][2], ind + 1)
                els = els[0][3]
            if els:
                out.append(f"{pad}else:")
                out += py_block(els, ind + 1)
        elif k == "while":
            out.append(f"{pad}while {py_expr(s[1])}:")
            out += py_block(s[2], ind + 1)
        elif k == "for":
            out.append(f"{pad}for {s[1]} in range({py_expr(s[2])}):")
            out += py_block(s[3], ind + 1)
        else:
            raise ValueError(s)
    return out


HEADER = ["from Reduino.Communication import SerialMonitor", "from Reduino.Utils import sleep", "mon = SerialMonitor(9600)"]


def py_helpers(prog):
    out = []
    for h in prog.get("helpers", []):
        out.append(f"def {h['name']}({', '.join(n for n, _ in h['params'])}):")
        out += py_block(flatten(h["body"]), 1)
        if h["ret"] is not None:
            out.append(f"    return {py_expr(h['ret'])}")
    return out


def py_source(prog):
    lines = list(HEADER) + py_helpers(prog) + py_block(flatten(prog["pre"]), 0)
    if prog["loop"] is not None:
        lines.append("while True:")
        lines += py_block(flatten(prog["loop"]), 1)
    return "\n".join(lines) + "\n"


def sx_expr(e):
    k = e[0]
    if k == "i": return f"(i {e[1]})"
    if k == "b": return f"(b {'T' if e[1] else 'F'})"
    if k == "s": return f"(s x{e[1].encode().hex()})"
    if k == "v": return f"(v {e[1]})"
    if k == "bin": return f"(bin {e[1]} {sx_expr(e[2])} {sx_expr(e[3])})"
    if k == "neg": return f"(neg {sx_expr(e[1])})"
    if k == "cmp": return f"(cmp {e[1]} {sx_expr(e[2])} {sx_expr(e[3])})"
    if k == "chain": return f"(and (cmp {e[1]} {sx_expr(e[3])} {sx_expr(e[4])}) (cmp {e[2]} {sx_expr(e[4])} {sx_expr(e[5])}))"
    if k in ("and", "or"): return f"({k} {sx_expr(e[1])} {sx_expr(e[2])})"
    if k == "not": return f"(not {sx_expr(e[1])})"
    if k == "ite": return f"(ite {sx_expr(e[1])} {sx_expr(e[2])} {sx_expr(e[3])})"
    if k == "abs": return f"(abs {sx_expr(e[1])})"
    if k == "str": return f"(str {sx_expr(e[1])})"
    if k == "fstr": return sx_expr(fstr_fold(e[1]))
    if k in ("min", "max"):
        acc = sx_expr(e[1][0])
        for a in e[1][1:]:
            acc = f"({k} {acc} {sx_expr(a)})"
        return acc
    raise ValueError(e)


def sx_block(block):
    if not block:
        return "(skip)"
    s = block[0]
    k = s[0]
    if k == "as": h = f"(as {s[1]} {sx_expr(s[2])})"
    elif k == "aug": h = f"(aug {s[1]} {s[2]} {sx_expr(s[3])})"
    elif k == "tup": h = f"(tup ({' '.join(s[1])}) ({' '.join(sx_expr(e) for e in s[2])}))"
    elif k == "wr": h = f"(wr {sx_expr(s[1])})"
    elif k == "sl": h = f"(sl {sx_expr(s[1])})"
    elif k == "brk": h = "(brk)"
    elif k == "call": h = f"(call {s[1] or '_'} {s[2]} ({' '.join(sx_expr(a) for a in s[3])}))"
    elif k == "if": h = f"(if {sx_expr(s[1])} {sx_block(s[2])} {sx_block(s[3])})"
    elif k == "while": h = f"(while {sx_expr(s[1])} {sx_block(s[2])})"
    elif k == "for": h = f"(for {s[1]} {sx_expr(s[2])} {sx_block(s[3])})"
    else: raise ValueError(s)
    if len(block) == 1:
        return h
    return f"(seq {h} {sx_block(block[1:])})"


def sx_helper(h):
    ps = " ".join(f"({n} {t})" for n, t in h["params"])
    return f"(def {h['name']} ({ps}) {sx_block(flatten(h['body']))} {'none' if h['ret'] is None else sx_expr(h['ret'])})"


def sx_prog(prog):
    defs = f" (defs {' '.join(sx_helper(h) for h in prog['helpers'])})" if prog.get("helpers") else ""
    return f"(prog {sx_block(flatten(prog['pre']))} {'none' if prog['loop'] is None else sx_block(flatten(prog['loop']))}{defs})"
