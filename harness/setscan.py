"""Inventory of places where the transpiler iterates a set-valued expression without sorting (C10)."""
from __future__ import annotations

import ast
from pathlib import Path

SETISH_METHODS = {"union", "difference", "intersection", "symmetric_difference", "copy"}


def setish(node, names):
    if isinstance(node, (ast.Set, ast.SetComp)):
        return True
    if isinstance(node, ast.Call):
        f = node.func
        if isinstance(f, ast.Name) and f.id in ("set", "frozenset"):
            return True
        if isinstance(f, ast.Attribute):
            if f.attr in ("get", "setdefault") and len(node.args) == 2 and setish(node.args[1], names):
                return True
            if f.attr in SETISH_METHODS and setish(f.value, names):
                return True
    if isinstance(node, ast.BinOp) and isinstance(node.op, (ast.Sub, ast.BitOr, ast.BitAnd, ast.BitXor)):
        return setish(node.left, names) or setish(node.right, names)
    if isinstance(node, ast.Name):
        return node.id in names
    return False


def scan_file(path: Path):
    tree = ast.parse(path.read_text())
    sites = []
    for fn in [n for n in ast.walk(tree) if isinstance(n, (ast.FunctionDef, ast.Module))]:
        names = set()
        body_nodes = list(ast.walk(fn))
        # annotated as set / Set[...] parameters and variables
        for n in body_nodes:
            if isinstance(n, ast.AnnAssign) and isinstance(n.target, ast.Name):
                ann = ast.unparse(n.annotation)
                if ann.lower().startswith(("set", "frozenset")) or ann.startswith(("Set[", "FrozenSet[")):
                    names.add(n.target.id)
        if isinstance(fn, ast.FunctionDef):
            for a in fn.args.args + fn.args.kwonlyargs:
                if a.annotation is not None:
                    ann = ast.unparse(a.annotation)
                    if ann.lower().startswith(("set", "frozenset")) or ann.startswith(("Set[", "FrozenSet[", "Optional[Set[")):
                        names.add(a.arg)
        changed = True
        while changed:
            changed = False
            for n in body_nodes:
                if isinstance(n, ast.Assign) and len(n.targets) == 1 and isinstance(n.targets[0], ast.Name):
                    if n.targets[0].id not in names and setish(n.value, names):
                        names.add(n.targets[0].id)
                        changed = True
        for n in body_nodes:
            iters = []
            if isinstance(n, ast.For):
                iters.append(n.iter)
            elif isinstance(n, (ast.ListComp, ast.GeneratorExp, ast.DictComp, ast.SetComp)):
                iters += [g.iter for g in n.generators]
            for it in iters:
                if setish(it, names):
                    sites.append((path.name, getattr(fn, "name", "<module>"), ast.unparse(it)))
            # .pop() on a set picks an arbitrary element
            if isinstance(n, ast.Call) and isinstance(n.func, ast.Attribute) and n.func.attr == "pop" and not n.args and setish(n.func.value, names):
                sites.append((path.name, getattr(fn, "name", "<module>"), ast.unparse(n)))
    return sorted(set(sites))


def scan(src_root: Path):
    out = []
    for f in ["transpile/parser.py", "transpile/emitter.py", "__init__.py"]:
        out += scan_file(src_root / "Reduino" / f)
    return out


if __name__ == "__main__":
    import sys
    for s in scan(Path(sys.argv[1] if len(sys.argv) > 1 else "/repo/src")):
        print(s)
