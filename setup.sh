#!/bin/sh
# Offline setup after a fresh restore: regenerate Gen tables from /repo/src and build every Lean module.
set -e
cd "$(dirname "$0")"
/venv/bin/python harness/extract.py
cd lean
lake build Reduino.Driver.All Reduino.Props.All
