import Reduino.Driver.All
/- Line-protocol driver: one request per line on stdin, one canonical answer per line on stdout. -/
open Reduino.Driver

def handlers : List (List String → Option String) := [handleHost, handleCore, handleTool, handleFw, handleLcd, handleHeap, handleLang, handleEC, handleLayout, handleWF, handleTypes, handleTypesFun, handleCE, handlePins, handleRange]

def handle (line : String) : String :=
  let fields := line.splitOn "|"
  match handlers.findSome? (fun h => h fields) with
  | some r => r
  | none => "bad-request"

partial def loop (h : IO.FS.Stream) (out : IO.FS.Stream) : IO Unit := do
  let line ← h.getLine
  if line.isEmpty then return ()
  let l := if line.endsWith "\n" then (line.dropEnd 1).toString else line
  out.putStrLn (handle l)
  loop h out

def main : IO Unit := do
  let out ← IO.getStdout
  loop (← IO.getStdin) out
  out.flush
