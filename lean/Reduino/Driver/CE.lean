import Reduino.Driver.Lang
import Reduino.Lang.ConstEnv
/- `ce|(p node…)|c1,c2,…` — fold sites (K<value> folded / R run-time), FoldSafe, source trace, emitted-program trace -/
namespace Reduino.Driver
open Reduino Reduino.Lang Reduino.Lang.CE

def sxInts? (l : List SExp) : Option (List Int) := l.mapM fun | .atom a => a.toInt? | _ => none

partial def toCE : SExp → Option Node
  | .list [.atom "bs", .atom x, .atom h] => some (.bind x (.str (unhex h)))
  | .list [.atom "bs", .atom x] => some (.bind x (.str ""))
  | .list (.atom "bl" :: .atom x :: ns) => (sxInts? ns).map fun l => .bind x (.list l)
  | .list [.atom "ds", .atom x, .atom h] => some (.bindDyn x (.str (unhex h)))
  | .list [.atom "ds", .atom x] => some (.bindDyn x (.str ""))
  | .list (.atom "dl" :: .atom x :: ns) => (sxInts? ns).map fun l => .bindDyn x (.list l)
  | .list [.atom "ap", .atom x, .atom n] => n.toInt?.map fun k => .append x k
  | .list [.atom "rm", .atom x, .atom n] => n.toInt?.map fun k => .remove x k
  | .list [.atom "ob", .atom x] => some (.obs x)
  | .list (.atom "if" :: bs) => (bs.mapM fun (b : SExp) => match b with
      | SExp.list (SExp.atom "blk" :: ns) => ns.mapM toCE
      | _ => none).map .branches
  | .list (.atom "loop" :: ns) => (ns.mapM toCE).map .loop
  | .list (.atom "main" :: ns) => (ns.mapM toCE).map .mainLoop
  | _ => none

def showCV : CE.Val → String
  | .str s => "s" ++ hexOf s
  | .list xs => "l" ++ ",".intercalate (xs.map toString)

mutual
partial def sitesNode : Node → List String
  | .obs _ => ["R"]
  | .obsConst v => ["K" ++ showCV v]
  | .branches bs => (bs.map sitesList).flatten
  | .loop b => sitesList b
  | .mainLoop b => sitesList b
  | _ => []
partial def sitesList (l : List Node) : List String := (l.map sitesNode).flatten
end

def showTrace : Option (List CE.Val) → String
  | none => "none"
  | some t => ";".intercalate (t.map showCV)

def handleCE (fields : List String) : Option String :=
  match fields with
  | ["ce", src, ch] =>
    match (parseS (tokenize src)).bind (fun r => match r.1 with | .list (.atom "p" :: items) => items.mapM toCE | _ => none) with
    | none => some "bad-prog"
    | some p =>
      let choices := (ch.splitOn ",").filterMap (·.toNat?)
      let t := transpile p
      some s!"sites={" ".intercalate (sitesList t)} safe={showBool (FoldSafe p)} src={showTrace (run 1000 choices p)} out={showTrace (run 1000 choices t)}"
  | _ => none

end Reduino.Driver
