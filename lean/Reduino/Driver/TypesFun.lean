import Reduino.Driver.Types
import Reduino.Lang.TypesFun
/- `ty|fun|(fn (ps u v k) (p (as x e) …) (rets e₀ e₁ …))|(args a₀ a₁ …)` — a helper in structured form and the argument expressions of one
   call site (literals typed by their own type: the generated scripts pass variables declared from exactly such literals).
   Answer: `sig=` argument types, `parse=` the signature whose parse serves the call, `params=` resolved parameter types (the prototype),
   `locals=` declared local types, `rets=` the recorded return types, `ret=` merged result type or `reject`, `stable=` FunStable,
   `kept=` the body assigns no parameter, `py=`/`c=` the Python / C++ result for EACH return expression (`;`-separated). -/
namespace Reduino.Driver
open Reduino Reduino.Lang.Ty2

def toFun : SExp → Option (Fun Float)
  | .list [.atom "fn", .list (.atom "ps" :: ps), body, .list (.atom "rets" :: rs)] => do
    let names ← ps.mapM fun (p : SExp) => match p with
      | SExp.atom x => some x
      | _ => none
    let b ← toTProg body
    let r ← rs.mapM toTE
    some ⟨names, b, r⟩
  | _ => none

def toArgs : SExp → Option (List (E Float))
  | .list (.atom "args" :: as) => as.mapM toTE
  | _ => none

def showOV (v : Option (V Float)) : String :=
  match v with
  | some x => showTV x
  | none => "none"

def handleTypesFun (fields : List String) : Option String :=
  match fields with
  | ["ty", "fun", fsrc, asrc] =>
    match (parseS (tokenize fsrc)).bind (fun r => toFun r.1), (parseS (tokenize asrc)).bind (fun r => toArgs r.1) with
    | some f, some args =>
      let sig := args.map (infer [])
      let ps := f.parseSig sig
      let ts (l : List T) : String := ",".intercalate (l.map showT)
      let ret := match f.retType ps with
        | some t => showT t
        | none => "reject"
      let stable := decide (FunStable f ps sig)
      let kept := f.body.all fun st => !f.params.contains st.1
      let py := ";".intercalate (f.rets.map fun r => showOV (f.callPy [] args r))
      let c := ";".intercalate (f.rets.map fun r => showOV (f.callC [] [] args r))
      some s!"sig={ts sig} parse={ts ps} params={ts (f.paramTypes ps)} locals={",".intercalate ((f.localTypes ps).map fun d => s!"{d.1}:{showT d.2}")} rets={ts (f.retTypes ps)} ret={ret} stable={showBool stable} kept={showBool kept} py={py} c={c}"
    | _, _ => some "bad-fun"
  | _ => none

end Reduino.Driver
