import Reduino.Driver.Lang
import Reduino.Lang.Escape
import Reduino.Lang.WF
namespace Reduino.Driver
open Reduino Reduino.Lang

/-- esc|x<hex of the string value>|x<hex of what follows the literal> -/
def handleWF (fields : List String) : Option String :=
  match fields with
  | ["esc", v, rest] =>
    let s := (unhex (v.drop 1).toString).toList
    let r := (unhex (rest.drop 1).toString).toList
    let lit := Esc.literal s
    let rd := match Esc.readLiteral (lit ++ r) with
      | some (a, b) => s!"{hexOf (String.ofList a)}/{hexOf (String.ofList b)}"
      | none => "none"
    some s!"lit={hexOf (String.ofList lit)} read={rd}"
  | ["lang", "wf", src] =>
    match parseProg src with
    | none => some "bad-prog"
    | some p =>
      let cl := WF.Closed p
      match tr p with
      | .ok c => some s!"closed={showBool cl} tr=ok wf={showBool (WF.wf c)} kinds={showBool (c.klines.all fun l => (l.2.1 == LK.open_) == l.2.2.endsWith "{" && (l.2.1 == LK.close) == l.2.2.startsWith "}")}"
      | .error .breakInMainLoop => some s!"closed={showBool cl} tr=reject"
      | .error .outsideFragment => some s!"closed={showBool cl} tr=outside"
  | _ => none

end Reduino.Driver
