import Reduino.Driver.Util
import Reduino.Host.Core
namespace Reduino.Driver
open Reduino Reduino.Host

def unhex (s : String) : String :=
  let cs := s.toList
  let rec go : List Char → List UInt8 → List UInt8
    | a :: b :: rest, acc => go rest (UInt8.ofNat (fromHex (String.ofList [a, b])) :: acc)
    | _, acc => acc.reverse
  match String.fromUTF8? (ByteArray.mk (go cs []).toArray) with
  | some r => r
  | none => ""

def hexOf (s : String) : String :=
  "x" ++ String.join (s.toUTF8.toList.map (fun b => toHex 2 b.toNat))

def pin? (t : String) : Option PinArg :=
  if t.startsWith "n" then (t.drop 1).toString.toInt?.map PinArg.num
  else if t.startsWith "x" then some (.str (unhex (t.drop 1).toString))
  else none

def runCore (ops : List String) : String :=
  let rec go (s : Core) : List String → List String → List String
    | [], acc => acc.reverse
    | o :: rest, acc =>
      match words o with
      | ["pm", p, m] => match pin? p with
        | some p => go (Core.step (α := Float) s (.pinMode p (unhex (m.drop 1).toString))) rest ("-" :: acc)
        | none => ("bad-op" :: acc).reverse
      | ["dw", p, v] => match pin? p, parseVal v with
        | some p, some v => go (Core.step s (.digitalWrite p v)) rest ("-" :: acc)
        | _, _ => ("bad-op" :: acc).reverse
      | ["aw", p, v] => match pin? p, parseVal v with
        | some p, some v => go (Core.step s (.analogWrite p v)) rest ("-" :: acc)
        | _, _ => ("bad-op" :: acc).reverse
      | ["dr", p] => match pin? p with
        | some p => go s rest (toString (s.digitalRead p) :: acc)
        | none => ("bad-op" :: acc).reverse
      | ["ar", p] => match pin? p with
        | some p => go s rest (toString (s.analogRead p) :: acc)
        | none => ("bad-op" :: acc).reverse
      | _ => ("bad-op" :: acc).reverse
  "|".intercalate (go {} ops [])

def exc (e : Exc) : String := (Res.raise e).show

def handleCore (fields : List String) : Option String :=
  match fields with
  | "core" :: ops => some (runCore ops)
  | ["map", a] =>
    match vals? (words a) with
    | some [v, fl, fh, tl, th] =>
      some (match Utils.map v fl fh tl th with | .ok r => "ok " ++ showVal r | .error e => exc e)
    | _ => some "bad-op"
  | ["sleep", a] =>
    match parseVal a with
    | some d => some (match Utils.sleep d with | .ok r => "ok " ++ showF64 r | .error e => exc e)
    | none => some "bad-op"
  | ["button", a] =>
    let sig := (words a).map (· == "1")
    let rec go (b : Button) : List Bool → List String → List String
      | [], acc => acc.reverse
      | p :: rest, acc => let r := b.sample p; go r.1 rest (s!"{r.2.1}{showBool r.2.2}" :: acc)
    some (" ".intercalate (go {} sig []) ++ s!" clicks={Button.clicks {} sig}")
  | ["pot", a] =>
    let prov := if a == "none" then some none else (parseVal a).map some
    match prov with
    | some p => some (match potRead p with | .ok r => s!"ok {r}" | .error e => exc e)
    | none => some "bad-op"
  | ["ultra", a, d] =>
    let prov := if a == "none" then some none else (parseVal a).map some
    match prov, parseVal d with
    | some p, some d => some (match ultraMeasure p d with | .ok r => "ok " ++ showF64 r | .error e => exc e)
    | _, _ => some "bad-op"
  | ["serial", t, nl, o] =>
    let r := serialWrite (unhex (t.drop 1).toString) (unhex (nl.drop 1).toString) (o == "T")
    some (s!"sent={",".intercalate (r.1.map hexOf)} ret={hexOf r.2}")
  | _ => none

end Reduino.Driver
