import Reduino.Driver.Util
import Reduino.Driver.Core
import Reduino.Fw.Lcd
import Reduino.Fw.LcdAnim
import Reduino.Fw.LcdAnimWrap
/- Line protocol for the LCD text models: `lcdtext|fw|cols rows|op|op…` and `lcdtext|host|cols rows|op|op…` -/
namespace Reduino.Driver
open Reduino Reduino.Lcd

def txt (t : String) : List Char := if t == "-" then [] else (unhex (t.drop 1).toString).toList
def optTxt (t : String) : Option (List Char) := if t == "-" then none else some (unhex (t.drop 1).toString).toList
def align? (s : String) : Align := if s == "center" then .center else if s == "right" then .right else .left
def showGrid (g : Grid) : String := hexOf (String.intercalate "\n" (g.map String.ofList))
def fillOf (style : String) : Char := if style == "hash" then '#' else if style == "pipe" then '|' else if style == "dot" then '.' else '@'
def showPrints (p : List Print) : String := ",".intercalate (p.map fun x => s!"{x.col}:{x.row}:{x.len}")

def runLcdFw (cols rows : Nat) (ops : List String) : String :=
  let c : Int := Int.ofNat cols
  let rec go (g : Grid) (bl : Fw.Backlight) : List String → List String → List String
    | [], acc => acc.reverse
    | o :: rest, acc =>
      match words o with
      | ["wr", col, row, t, clear, al] =>
        let r := Fw.writeAligned g c col.toInt! row.toInt! (txt t) (clear == "T") (align? al)
        go r.grid bl rest (s!"{showGrid r.grid} p={showPrints r.prints}" :: acc)
      | ["ln", row, t, al, clear] =>
        let r := Fw.writeAligned g c 0 row.toInt! (txt t) (clear == "T") (align? al)
        go r.grid bl rest (s!"{showGrid r.grid} p={showPrints r.prints}" :: acc)
      | ["msg", top, bottom, ta, ba, clear] =>
        let r1 : Out := match optTxt top with
          | some t => Fw.writeAligned g c 0 0 t (clear == "T") (align? ta)
          | none => { grid := g }
        let r2 : Out := match optTxt bottom with
          | some t => let r := Fw.writeAligned r1.grid c 0 1 t (clear == "T") (align? ba); { grid := r.grid, prints := r1.prints ++ r.prints }
          | none => r1
        go r2.grid bl rest (s!"{showGrid r2.grid} p={showPrints r2.prints}" :: acc)
      | ["clr"] => let g' := blank cols rows; go g' bl rest (s!"{showGrid g'} p=" :: acc)
      | ["prog", row, v, mx, w, style, label] =>
        let width : Int := if w == "-" then c else w.toInt!
        let r := Fw.progress g c row.toInt! v.toInt! mx.toInt! width (fillOf style) (txt label)
        go r.grid bl rest (s!"{showGrid r.grid} p={showPrints r.prints}" :: acc)
      | ["bl", on] => let b := bl.setOn (on == "T"); go g b rest (s!"pin={b.pin}" :: acc)
      | ["disp", on] => let b := bl.setOn (on == "T"); go g b rest (s!"pin={b.pin}" :: acc)
      | ["bri", lv] => let b := bl.setLevel lv.toInt!; go g b rest (s!"pin={b.pin}" :: acc)
      | "glyph" :: _slot :: vs => go g bl rest (",".intercalate ((Fw.glyphRows (vs.map String.toInt!)).map toString) :: acc)
      | _ => ("bad-op" :: acc).reverse
  "|".intercalate (go (blank cols rows) {} ops [])

def runLcdHost (cols rows : Nat) (ops : List String) : String :=
  let rec go (l : Host.LCD) : List String → List String → List String
    | [], acc => acc.reverse
    | o :: rest, acc =>
      let fin (r : Except Exc (Host.LCD × List Print)) :=
        match r with
        | .ok (l', _) => go l' rest (showGrid l'.buffer :: acc)
        | .error e => go l rest (exc e :: acc)
      match words o with
      | ["wr", col, row, t, clear, al] => fin (Host.write l col.toInt! row.toInt! (txt t) (clear == "T") (align? al))
      | ["ln", row, t, al, clear] => fin (Host.line l row.toInt! (txt t) (align? al) (clear == "T"))
      | ["msg", top, bottom, ta, ba, clear] => fin (Host.message l (optTxt top) (optTxt bottom) (align? ta) (align? ba) (clear == "T"))
      | ["clr"] => let l' := Host.clear l; go l' rest (showGrid l'.buffer :: acc)
      | ["prog", row, v, mx, w, style, label] =>
        let width : Option Int := if w == "-" then none else some w.toInt!
        match Host.progress (α := Float) l row.toInt! v.toInt! mx.toInt! width (fillOf style) (txt label) with
        | .ok l' => go l' rest (showGrid l'.buffer :: acc)
        | .error e => go l rest (exc e :: acc)
      | ["bl", on] => let l' := Host.backlight l (on == "T"); go l' rest (s!"on={showBool l'.backlightOn} b={l'.brightness}" :: acc)
      | ["disp", on] => let l' := Host.display l (on == "T"); go l' rest (s!"on={showBool l'.backlightOn} b={l'.brightness}" :: acc)
      | ["bri", lv] =>
        match Host.setBrightness l lv.toInt! with
        | .ok l' => go l' rest (s!"on={showBool l'.backlightOn} b={l'.brightness}" :: acc)
        | .error e => go l rest (exc e :: acc)
      | "glyph" :: slot :: vs =>
        match Host.glyph slot.toInt! (vs.map String.toInt!) with
        | .ok v => go l rest (",".intercalate (v.map toString) :: acc)
        | .error e => go l rest (exc e :: acc)
      | _ => ("bad-op" :: acc).reverse
  "|".intercalate (go (Host.LCD.create cols rows) ops [])

def style? (s : String) : Style :=
  if s == "blink" then .blink else if s == "typewriter" then .typewriter else if s == "bounce" then .bounce else .scroll

structure AnimSpec where
  style : Style
  row : Nat
  text : List Char
  speed : Nat
  loop : Bool

def animSpecs (s : String) : List AnimSpec :=
  (s.splitOn ";").filterMap fun a =>
    match words a with
    | [st, row, t, sp, lp] => some ⟨style? st, row.toNat!, txt t, sp.toNat!, lp == "T"⟩
    | _ => none

def showActives (l : List Anim) : String := String.join (l.map fun a => if a.active then "1" else "0")

/-- firmware: setup starts the animations, every pass ticks each one (one millis() per active animation) then sleeps -/
/- `W = 0`: the natural-number clock; otherwise the templates' arithmetic on a counter of `W` values that reads `start` at power-up
   (`Fw.tickW`, related to the natural-number model by `Props.C18.fw_run_across_wrap`) -/
def runAnimFw (cols rows : Nat) (drifts : List Nat) (sleepMs passes : Nat) (specs : List AnimSpec) (W : Nat := 0) (start : Nat := 0) : String :=
  let (anims, g0) := specs.foldl (fun (acc : List Anim × Grid) sp =>
      let (a, o) := Fw.start sp.style acc.2 cols sp.row sp.text sp.speed sp.loop
      (acc.1 ++ [a], o.grid)) ([], blank cols rows)
  let rec tickAll (as : List Anim) (g : Grid) (now : Nat) (ds : List Nat) (done : List Anim) (stepped : String) :
      List Anim × Grid × Nat × List Nat × String :=
    match as with
    | [] => (done, g, now, ds, stepped)
    | a :: rest =>
      if a.active then
        let (now', ds') := match ds with | [] => (now, []) | d :: r => (now + d, r)
        let (a', o, st) := if W = 0 then Fw.tick a g cols now' else Fw.tickW W a g cols ((start + now') % W)
        tickAll rest o.grid now' ds' (done ++ [a']) (stepped ++ (if st then "s" else "-"))
      else tickAll rest g now ds (done ++ [a]) (stepped ++ ".")
  let rec go (k : Nat) (as : List Anim) (g : Grid) (now : Nat) (ds : List Nat) (acc : List String) : List String :=
    match k with
    | 0 => acc.reverse
    | k + 1 =>
      let (as', g', now', ds', st) := tickAll as g now ds [] ""
      go k as' g' (now' + sleepMs) ds' (s!"{showGrid g'} a={showActives as'} t={st}" :: acc)
  "|".intercalate (go passes anims g0 0 drifts [s!"{showGrid g0} a={showActives anims} t="])

def runAnimHost (cols rows : Nat) (times : List Nat) (specs : List AnimSpec) : String :=
  let (anims, g0) := specs.foldl (fun (acc : List Anim × Grid) sp =>
      let (a, g) := Host.animate sp.style acc.2 cols sp.row sp.text sp.speed sp.loop
      (acc.1 ++ [a], g)) ([], blank cols rows)
  let tickAll (as : List Anim) (g : Grid) (now : Nat) : List Anim × Grid × String :=
    as.foldl (fun (acc : List Anim × Grid × String) a =>
      let (a', g', st) := Host.tick a acc.2.1 cols now
      (acc.1 ++ [a'], g', acc.2.2 ++ (if st then "s" else "-"))) ([], g, "")
  let rec go (ts : List Nat) (as : List Anim) (g : Grid) (acc : List String) : List String :=
    match ts with
    | [] => acc.reverse
    | t :: rest =>
      let (as', g', st) := tickAll as g t
      go rest as' g' (s!"{showGrid g'} a={showActives as'} t={st}" :: acc)
  "|".intercalate (go times anims g0 [s!"{showGrid g0} a={showActives anims} t="])

def handleLcd (fields : List String) : Option String :=
  match fields with
  | ["lcdanim", "fw", geom, drifts, sl, passes, specs] =>
    match (words geom).map String.toNat! with
    | [c, r] => some (runAnimFw c r ((words drifts).map String.toNat!) sl.toNat! passes.toNat! (animSpecs specs))
    | _ => some "bad-op"
  | ["lcdanim", "fwW", geom, drifts, sl, passes, specs, w, start] =>
    match (words geom).map String.toNat! with
    | [c, r] => some (runAnimFw c r ((words drifts).map String.toNat!) sl.toNat! passes.toNat! (animSpecs specs) w.toNat! start.toNat!)
    | _ => some "bad-op"
  | ["lcdanim", "host", geom, times, specs] =>
    match (words geom).map String.toNat! with
    | [c, r] => some (runAnimHost c r ((words times).map String.toNat!) (animSpecs specs))
    | _ => some "bad-op"
  | "lcdtext" :: side :: geom :: ops =>
    match (words geom).map String.toNat! with
    | [c, r] => some (if side == "fw" then runLcdFw c r ops else runLcdHost c r ops)
    | _ => some "bad-op"
  | _ => none

end Reduino.Driver
