import Reduino.Driver.Host
import Reduino.Driver.Core
import Reduino.Driver.Tool
import Reduino.Driver.Fw
import Reduino.Driver.Lcd
import Reduino.Driver.Heap
import Reduino.Driver.Lang
import Reduino.Driver.EC
