import Reduino.Driver.Host
