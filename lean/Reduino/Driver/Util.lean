import Reduino.Basic
namespace Reduino.Driver

def words (s : String) : List String := (s.splitOn " ").filter (· ≠ "")

def showVals (l : List (Val Float)) : String := ",".intercalate (l.map showVal)
def showInts (l : List Int) : String := ",".intercalate (l.map toString)

def vals? (l : List String) : Option (List (Val Float)) := l.mapM parseVal

end Reduino.Driver
