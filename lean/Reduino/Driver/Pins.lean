import Reduino.Driver.Util
import Reduino.Lang.AssemblePins
/- `pins|N|<setup items>|<loop items>` — an item is `d:kind:name:p1,p2,…` (kind `buttonin` = Button with mode INPUT) / `u:name` / `s:tag` / `a:lcdname` (animate); the answer is the pin-level
   event list of `setup(); loop() × N`, phases separated by `|` -/
namespace Reduino.Driver
open Reduino.Lang

def pinsKind? : String → Option AssemblePins.Kind
  | "led" => some .led | "rgb" => some .rgb | "servo" => some .servo | "motor" => some .motor | "buzzer" => some .buzzer
  | "button" => some .button | "buttonin" => some .buttonIn | "pot" => some .pot | "ultra" => some .ultra | "lcd" => some .lcd | "serial" => some .serial
  | _ => none

def pinsItem? (w : String) : Option AssemblePins.Item :=
  match w.splitOn ":" with
  | ["d", k, nm, ps] => do some (.decl (← pinsKind? k) nm ((ps.splitOn ",").filter (· ≠ "") |>.map String.toNat!))
  | ["u", nm] => some (.use nm)
  | ["s", t] => some (.stmt t.toNat!)
  | ["a", nm] => some (.animate nm)
  | _ => none

def pinsMode : AssemblePins.Mode → String
  | .input => "0" | .output => "1" | .pullup => "2"

def pinsEv : AssemblePins.Ev → String
  | .pinMode p m => s!"pm:{p}:{pinsMode m}"
  | .attach p => s!"at:{p}"
  | .serialBegin => "sb"
  | .lcdInit n => "li:" ++ n
  | .write p => s!"w:{p}"
  | .read p => s!"r:{p}"
  | .servoWrite p => s!"sw:{p}"
  | .lcdWrite n => "lw:" ++ n
  | .stmt t => s!"s:{t}"
  | .poll n p => s!"p:{n}:{p}"
  | .animStart n => "as:" ++ n
  | .tick n => "tk:" ++ n

def handlePins (fields : List String) : Option String :=
  match fields with
  | ["pins", n, setup, loop] =>
    match (words setup).mapM pinsItem?, (words loop).mapM pinsItem? with
    | some s, some l =>
      let p : AssemblePins.Prog := { setup := s, loop := l }
      let pass := (AssemblePins.loopEvents p).map pinsEv
      let parts := (AssemblePins.setupEvents p).map pinsEv :: List.replicate n.toNat! pass
      some (" ".intercalate ((" | ".intercalate (parts.map (" ".intercalate ·))).splitOn " " |>.filter (· ≠ "")))
    | _, _ => some "bad-items"
  | _ => none

end Reduino.Driver
