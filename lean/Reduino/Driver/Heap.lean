import Reduino.Driver.Util
import Reduino.Fw.ListHeap
/- `heap|op;op;…` — per op `ok live=<n> [v=<value>]`, stops at the first `memerr:<kind>`.
   Op tokens: `dm x v,…` `dc y x` `av x y` `at x v,…` `ap x v` `rm x v` `get x i` `len x` `sw x y`. -/
namespace Reduino.Driver
open Reduino.Fw.Heap

def intsCsv (s : String) : List Int := if s == "-" then [] else (s.splitOn ",").map String.toInt!

def heapOp? (ws : List String) : Option Op :=
  match ws with
  | ["dm", x, vs] => some (.declMake x (intsCsv vs))
  | ["dc", y, x] => some (.declCopy y x)
  | ["av", x, y] => some (.assignVar x y)
  | ["at", x, vs] => some (.assignTemp x (intsCsv vs))
  | ["ap", x, v] => some (.append x v.toInt!)
  | ["rm", x, v] => some (.remove x v.toInt!)
  | ["get", x, i] => some (.get x i.toInt!)
  | ["len", x] => some (.len x)
  | ["sw", x, y] => some (.swap x y)
  | _ => none

def errName : MemErr → String
  | .oob => "oob" | .useAfterFree => "use-after-free" | .doubleFree => "double-free"

def runHeap (ops : List String) : String :=
  let rec go (h : Heap) : List String → List String → List String
    | [], acc => acc.reverse
    | o :: rest, acc =>
      match heapOp? (words o) with
      | none => ("bad-op" :: acc).reverse
      | some op =>
        match step h op with
        | .error e => (("memerr:" ++ errName e) :: acc).reverse
        | .ok r =>
          let v := match r.value with | some x => s!" v={x}" | none => ""
          go r.heap rest (s!"ok live={liveBlocks r.heap}{v}" :: acc)
  "|".intercalate (go {} ops [])

def handleHeap (fields : List String) : Option String :=
  match fields with
  | ["heap", ops] => some (runHeap (ops.splitOn ";"))
  | _ => none

end Reduino.Driver
