import Reduino.Driver.Util
import Reduino.Fw.Buzzer
import Reduino.Fw.Inputs
/- Line protocol for the firmware-side models (tie S_c).  Floats are C `float` (Float32), `g<8 hex>`. -/
namespace Reduino.Driver
open Reduino Reduino.Fw

def parseVal32 (s : String) : Option (Val Float32) :=
  if s.startsWith "i" then (s.drop 1).toString.toInt?.map Val.int
  else if s.startsWith "g" then some (.flt (Float32.ofBits (UInt32.ofNat (fromHex (s.drop 1).toString))))
  else none

def opt32 (s : String) : Option (Option (Val Float32)) :=
  if s == "-" then some none else (parseVal32 s).map some

def showEvs (l : List Ev) : String := ",".intercalate (l.map Ev.show)

def buzzerOp? (ws : List String) : Option (BuzzerOp Float32) :=
  match ws with
  | ["pt", f, d] => do some (.playTone (← parseVal32 f) (← opt32 d))
  | ["stop"] => some .stop
  | ["beep", f, a, b, n] => do some (.beep (← opt32 f) (← parseVal32 a) (← parseVal32 b) (← parseVal32 n))
  | ["sweep", s, e, d, n] => do some (.sweep (← parseVal32 s) (← parseVal32 e) (← parseVal32 d) (← parseVal32 n))
  | ["mel", name, t] => do some (.melody name (← opt32 t))
  | _ => none

def runBuzzer (ctor : List String) (ops : List String) : String :=
  match ctor with
  | [pin, dflt] =>
    match parseInt pin, parseVal32 dflt with
    | some p, some d =>
      let rec go (b : Buzzer Float32) : List String → List String → List String
        | [], acc => acc.reverse
        | o :: rest, acc =>
          match buzzerOp? (words o) with
          | none => ("bad-op" :: acc).reverse
          | some op =>
            let r := Buzzer.step b op
            if !r.defined then ("undefined" :: acc).reverse
            else go r.st rest (s!"{showEvs r.evs} st={if r.st.state then 1 else 0} cur={showF32 r.st.current} last={showF32 r.st.last}" :: acc)
      "|".intercalate (go (Buzzer.init p d) ops [])
    | _, _ => "bad-op"
  | _ => "bad-op"

def showUEv : UEv → String
  | .delay ms => s!"delay {ms}"
  | .pulse t => s!"pulse {t}"
  | .echo d => s!"echo {d}"
  | .stamp t => s!"stamp {t}"

def nats (s : String) : List Nat := (words s).filterMap String.toNat?

/-- `fwultra|echoes|drifts|call;sleep 30;call…` -/
def runUltra (echoes drifts : List Nat) (prog : List String) : String :=
  let rec go (u : Ultra Float32) (now : Nat) (es ds : List Nat) : List String → List String → List String
    | [], acc => acc.reverse
    | o :: rest, acc =>
      match words o with
      | ["call"] =>
        let r := Ultra.measure u now es ds
        go r.st r.now r.echoes r.drifts rest (s!"{",".intercalate (r.evs.map showUEv)} result={showF32 r.result}" :: acc)
      | ["sleep", n] => go u (now + n.toNat!) es ds rest acc
      | _ => ("bad-op" :: acc).reverse
  "|".intercalate (go Ultra.init 0 echoes drifts prog [])

def runButton (s0 : String) (sig : List Bool) : String :=
  let b : Button := if s0 == "-" then {} else Button.setupSample (s0 == "1")
  " ".intercalate ((b.passes sig).map fun p => s!"c{if p.1 then 1 else 0}v{if p.2 then 1 else 0}")

def handleFw (fields : List String) : Option String :=
  match fields with
  | "fwbuzzer" :: ctor :: ops => some (runBuzzer (words ctor) ops)
  | ["fwultra", es, ds, prog] => some (runUltra (nats es) (nats ds) (prog.splitOn ";"))
  | ["fwbutton", s0, sig] => some (runButton s0 ((words sig).map (· == "1")))
  | _ => none

end Reduino.Driver
