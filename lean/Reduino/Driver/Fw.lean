import Reduino.Driver.Util
import Reduino.Fw.Buzzer
/- Line protocol for the firmware-side models (tie S_c).  Floats are C `float` (Float32), `g<8 hex>`. -/
namespace Reduino.Driver
open Reduino Reduino.Fw

def parseVal32 (s : String) : Option (Val Float32) :=
  if s.startsWith "i" then (s.drop 1).toString.toInt?.map Val.int
  else if s.startsWith "g" then some (.flt (Float32.ofBits (UInt32.ofNat (fromHex (s.drop 1).toString))))
  else none

def opt32 (s : String) : Option (Option (Val Float32)) :=
  if s == "-" then some none else (parseVal32 s).map some

def showEvs (l : List Ev) : String := ",".intercalate (l.map Ev.show)

def buzzerOp? (ws : List String) : Option (BuzzerOp Float32) :=
  match ws with
  | ["pt", f, d] => do some (.playTone (← parseVal32 f) (← opt32 d))
  | ["stop"] => some .stop
  | ["beep", f, a, b, n] => do some (.beep (← opt32 f) (← parseVal32 a) (← parseVal32 b) (← parseVal32 n))
  | ["sweep", s, e, d, n] => do some (.sweep (← parseVal32 s) (← parseVal32 e) (← parseVal32 d) (← parseVal32 n))
  | ["mel", name, t] => do some (.melody name (← opt32 t))
  | _ => none

def runBuzzer (ctor : List String) (ops : List String) : String :=
  match ctor with
  | [pin, dflt] =>
    match parseInt pin, parseVal32 dflt with
    | some p, some d =>
      let rec go (b : Buzzer Float32) : List String → List String → List String
        | [], acc => acc.reverse
        | o :: rest, acc =>
          match buzzerOp? (words o) with
          | none => ("bad-op" :: acc).reverse
          | some op =>
            let r := Buzzer.step b op
            if !r.defined then ("undefined" :: acc).reverse
            else go r.st rest (s!"{showEvs r.evs} st={if r.st.state then 1 else 0} cur={showF32 r.st.current} last={showF32 r.st.last}" :: acc)
      "|".intercalate (go (Buzzer.init p d) ops [])
    | _, _ => "bad-op"
  | _ => "bad-op"

def handleFw (fields : List String) : Option String :=
  match fields with
  | "fwbuzzer" :: ctor :: ops => some (runBuzzer (words ctor) ops)
  | _ => none

end Reduino.Driver
