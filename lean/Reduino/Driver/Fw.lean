import Reduino.Driver.Util
import Reduino.Fw.Buzzer
import Reduino.Fw.Inputs
import Reduino.Fw.InputsWrap
import Reduino.Fw.Actuators
/- Line protocol for the firmware-side models (tie S_c).  Floats are C `float` (Float32), `g<8 hex>`. -/
namespace Reduino.Driver
open Reduino Reduino.Fw

def parseVal32 (s : String) : Option (Val Float32) :=
  if s.startsWith "i" then (s.drop 1).toString.toInt?.map Val.int
  else if s.startsWith "g" then some (.flt (Float32.ofBits (UInt32.ofNat (fromHex (s.drop 1).toString))))
  else none

def opt32 (s : String) : Option (Option (Val Float32)) :=
  if s == "-" then some none else (parseVal32 s).map some

def showEvs (l : List Ev) : String := ",".intercalate (l.map Ev.show)

def buzzerOp? (ws : List String) : Option (BuzzerOp Float32) :=
  match ws with
  | ["pt", f, d] => do some (.playTone (← parseVal32 f) (← opt32 d))
  | ["stop"] => some .stop
  | ["beep", f, a, b, n] => do some (.beep (← opt32 f) (← parseVal32 a) (← parseVal32 b) (← parseVal32 n))
  | ["sweep", s, e, d, n] => do some (.sweep (← parseVal32 s) (← parseVal32 e) (← parseVal32 d) (← parseVal32 n))
  | ["mel", name, t] => do some (.melody name (← opt32 t))
  | _ => none

def runBuzzer (ctor : List String) (ops : List String) : String :=
  match ctor with
  | [pin, dflt] =>
    match parseInt pin, parseVal32 dflt with
    | some p, some d =>
      let rec go (b : Buzzer Float32) : List String → List String → List String
        | [], acc => acc.reverse
        | o :: rest, acc =>
          match buzzerOp? (words o) with
          | none => ("bad-op" :: acc).reverse
          | some op =>
            let r := Buzzer.step b op
            if !r.defined then ("undefined" :: acc).reverse
            else go r.st rest (s!"{showEvs r.evs} st={if r.st.state then 1 else 0} cur={showF32 r.st.current} last={showF32 r.st.last}" :: acc)
      "|".intercalate (go (Buzzer.init p d) ops [])
    | _, _ => "bad-op"
  | _ => "bad-op"

def showUEv : UEv → String
  | .delay ms => s!"delay {ms}"
  | .pulse t => s!"pulse {t}"
  | .echo d => s!"echo {d}"
  | .stamp t => s!"stamp {t}"

def nats (s : String) : List Nat := (words s).filterMap String.toNat?

/-- `fwultra|echoes|drifts|call;sleep 30;call…` -/
def runUltra (echoes drifts : List Nat) (prog : List String) : String :=
  let rec go (u : Ultra Float32) (now : Nat) (es ds : List Nat) : List String → List String → List String
    | [], acc => acc.reverse
    | o :: rest, acc =>
      match words o with
      | ["call"] =>
        let r := Ultra.measure u now es ds
        go r.st r.now r.echoes r.drifts rest (s!"{",".intercalate (r.evs.map showUEv)} result={showF32 r.result}" :: acc)
      | ["sleep", n] => go u (now + n.toNat!) es ds rest acc
      | _ => ("bad-op" :: acc).reverse
  "|".intercalate (go Ultra.init 0 echoes drifts prog [])

/-- `fwultraW|W|start|echoes|drifts|prog`: the helper on a counter of `W` values that reads `start` at power-up
    (`Ultra.attemptsW`, related to `Ultra.measure` by `Props.C15.ultra_measure_across_wrap`); event times are shown relative to `start` -/
def runUltraW (W start : Nat) (echoes drifts : List Nat) (prog : List String) : String :=
  let rel : UEv → UEv
    | .pulse t => .pulse (t - start)
    | .stamp t => .stamp (t - start)
    | e => e
  let rec go (u : Ultra Float32) (now : Nat) (es ds : List Nat) : List String → List String → List String
    | [], acc => acc.reverse
    | o :: rest, acc =>
      match words o with
      | ["call"] =>
        let r := Ultra.attemptsW W Ultra.maxAttempts u now es ds []
        go r.st r.now r.echoes r.drifts rest (s!"{",".intercalate (r.evs.map (showUEv ∘ rel))} result={showF32 r.result}" :: acc)
      | ["sleep", n] => go u (now + n.toNat!) es ds rest acc
      | _ => ("bad-op" :: acc).reverse
  "|".intercalate (go Ultra.init start echoes drifts prog [])

def runButton (s0 : String) (sig : List Bool) : String :=
  let b : Button := if s0 == "-" then {} else Button.setupSample (s0 == "1")
  " ".intercalate ((b.passes sig).map fun p => s!"c{if p.1 then 1 else 0}v{if p.2 then 1 else 0}")

def ints? (l : List String) : Option (List Int) := l.mapM parseInt

def fledOp? (ws : List String) : Option (FLedOp Float32) :=
  match ws with
  | ["on"] => some .on
  | ["off"] => some .off
  | ["toggle"] => some .toggle
  | ["sb", v] => do some (.setBrightness (← parseVal32 v))
  | ["blink", d, t] => do some (.blink (← parseVal32 d) (← parseVal32 t))
  | ["fi", a, d] => do some (.fadeIn (← parseVal32 a) (← parseVal32 d))
  | ["fo", a, d] => do some (.fadeOut (← parseVal32 a) (← parseVal32 d))
  | "fp" :: d :: p => do some (.flashPattern (← ints? p) (← parseVal32 d))
  | _ => none

def frgbOp? (ws : List String) : Option (FRgbOp Float32) :=
  match ws with
  | ["sc", r, g, b] => do some (.setColor (← parseVal32 r) (← parseVal32 g) (← parseVal32 b))
  | ["off"] => some .off
  | ["fade", r, g, b, d, n] => do
    some (.fade (← parseVal32 r) (← parseVal32 g) (← parseVal32 b) (← parseVal32 d) (← parseVal32 n))
  | ["blink", r, g, b, t, d] => do
    some (.blink (← parseVal32 r) (← parseVal32 g) (← parseVal32 b) (← parseVal32 t) (← parseVal32 d))
  | _ => none

def fservoOp? (ws : List String) : Option (FServoOp Float32) :=
  match ws with
  | ["w", a] => do some (.write (← parseVal32 a))
  | ["wu", p] => do some (.writeUs (← parseVal32 p))
  | _ => none

def fmotorOp? (ws : List String) : Option (FMotorOp Float32) :=
  match ws with
  | ["ss", v] => do some (.setSpeed (← parseVal32 v))
  | ["bw", v] => do some (.backward (← parseVal32 v))
  | ["stop"] => some .stop
  | ["coast"] => some .coast
  | ["inv"] => some .invert
  | ["ramp", t, d] => do some (.ramp (← parseVal32 t) (← parseVal32 d))
  | ["rf", d, v] => do some (.runFor (← parseVal32 d) (← parseVal32 v))
  | _ => none

/-- generic op-sequence runner -/
def runSeq {σ op : Type} (parse : List String → Option op) (stepf : σ → op → FOut σ) (shw : σ → String)
    (s0 : σ) (ops : List String) : String :=
  let rec go (s : σ) : List String → List String → List String
    | [], acc => acc.reverse
    | o :: rest, acc =>
      match parse (words o) with
      | none => ("bad-op" :: acc).reverse
      | some op =>
        let r := stepf s op
        if !r.defined then ("undefined" :: acc).reverse
        else go r.st rest (s!"{showEvs r.evs} {shw r.st}" :: acc)
  "|".intercalate (go s0 ops [])

def handleFwAct (fields : List String) : Option String :=
  match fields with
  | "fwled" :: ctor :: ops =>
    match parseInt ctor with
    | some pin => some (runSeq fledOp? FLed.step (fun l => s!"st={if l.state then 1 else 0} b={l.brightness}") ({ pin := pin } : FLed) ops)
    | none => some "bad-op"
  | "fwrgb" :: ctor :: ops =>
    match ints? (words ctor) with
    | some [r, g, b] => some (runSeq frgbOp? FRgb.step (fun _ => "-") ({ pins := (r, g, b) } : FRgb) ops)
    | _ => some "bad-op"
  | "fwservo" :: ctor :: ops =>
    match (words ctor).mapM parseVal32 with
    | some [a, b, c, d] =>
      some (runSeq fservoOp? FServo.step (fun s => s!"a={showF32 s.angle} p={showF32 s.pulse}") (FServo.init a b c d) ops)
    | _ => some "bad-op"
  | "fwmotor" :: ctor :: ops =>
    match ints? (words ctor) with
    | some [a, b, c] =>
      some (runSeq fmotorOp? FMotor.step
        (fun m => s!"sp={showF32 m.speed} ap={showF32 (if m.inverted then -m.speed else m.speed)} inv={if m.inverted then 1 else 0} m={m.mode.name}")
        (FMotor.init (a, b, c)) ops)
    | _ => some "bad-op"
  | _ => none

def handleFw (fields : List String) : Option String :=
  match handleFwAct fields with
  | some r => some r
  | none =>
  match fields with
  | "fwbuzzer" :: ctor :: ops => some (runBuzzer (words ctor) ops)
  | ["fwultra", es, ds, prog] => some (runUltra (nats es) (nats ds) (prog.splitOn ";"))
  | ["fwultraW", w, st, es, ds, prog] => some (runUltraW w.toNat! st.toNat! (nats es) (nats ds) (prog.splitOn ";"))
  | ["fwbutton", s0, sig] => some (runButton s0 ((words sig).map (· == "1")))
  | _ => none

end Reduino.Driver
