import Reduino.Driver.Util
import Reduino.Fw.ListRange
/- `range|a|b|s` (body `t`) or `range|a|b|s|m|c` (body `m*t + c`) — the helper model `Fw.ListRange.fromRangeRun` on
   `[m*t + c for t in range(a, b, s)]`: `ok n=<size> block=<cells of the block> count=<counting walk> v=<v0,v1,…|->`, or `memerr:<kind>`;
   `pyrange|a|b|s` — the closed form `pyRange` (`raises ValueError` for s = 0): `ok n=<len> v=<…>`. -/
namespace Reduino.Driver
open Reduino.Fw.ListRange Reduino.Fw.Heap

def csvInts (l : List Int) : String := if l.isEmpty then "-" else ",".intercalate (l.map toString)

def runRange (a b s m c : Int) : String :=
  match fromRangeRun (fun t => m * t + c) a b s with
  | .error .oob => "memerr:oob"
  | .error .useAfterFree => "memerr:use-after-free"
  | .error .doubleFree => "memerr:double-free"
  | .ok (cells, size) =>
    if size ≤ cells.length then s!"ok n={size} block={cells.length} count={fwCount a b s} v={csvInts (cells.take size)}"
    else "memerr:oob"

def handleRange (fields : List String) : Option String :=
  match fields with
  | ["range", a, b, s] => some (runRange a.toInt! b.toInt! s.toInt! 1 0)
  | ["range", a, b, s, m, c] => some (runRange a.toInt! b.toInt! s.toInt! m.toInt! c.toInt!)
  | ["pyrange", a, b, s] =>
    match pyRangeE a.toInt! b.toInt! s.toInt! with
    | none => some "raises ValueError"
    | some l => some s!"ok n={l.length} v={csvInts l}"
  | _ => none

end Reduino.Driver
