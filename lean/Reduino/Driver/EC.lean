import Reduino.Driver.Util
import Reduino.Driver.Core
import Reduino.Driver.Lang
import Reduino.Lang.EvalConst
/- `ec|<env: name=val,…>|<sexpr>` — the evaluator model on one expression -/
namespace Reduino.Driver
open Reduino.Lang.EC

def ecBin? : String → Option Reduino.Lang.EC.BinOp
  | "add" => some .add | "sub" => some .sub | "mul" => some .mul | "floordiv" => some .floordiv | "mod" => some .mod
  | "pow" => some .pow | "shl" => some .shl | "shr" => some .shr
  | "band" => some .band | "bor" => some .bor | "bxor" => some .bxor | "div" => some .div | _ => none
def ecUn? : String → Option UnOp | "pos" => some .pos | "neg" => some .neg | "not" => some .not | _ => none
def ecCmp? : String → Option Reduino.Lang.EC.CmpOp
  | "eq" => some .eq | "ne" => some .ne | "lt" => some .lt | "le" => some .le | "gt" => some .gt | "ge" => some .ge | _ => none

partial def toVal : SExp → Option Reduino.Lang.EC.Val
  | .list [.atom "i", .atom n] => n.toInt?.map Reduino.Lang.EC.Val.int
  | .list [.atom "b", .atom v] => some (.bool (v == "T"))
  | .list [.atom "s", .atom h] => some (.str (unhex (h.drop 1).toString))
  | .list (.atom "l" :: .atom t :: vs) => do some (Reduino.Lang.EC.Val.list (t == "T") (← vs.mapM toVal))
  | _ => none

partial def toPExpr : SExp → Option PExpr
  | .list [.atom "c", v] => do some (PExpr.const (← toVal v))
  | .list [.atom "n", .atom x] => some (.name x)
  | .list [.atom "bin", .atom op, a, b] => do some (.bin (← ecBin? op) (← toPExpr a) (← toPExpr b))
  | .list [.atom "un", .atom op, a] => do some (.un (← ecUn? op) (← toPExpr a))
  | .list [.atom "and", a, b] => do some (.and (← toPExpr a) (← toPExpr b))
  | .list [.atom "or", a, b] => do some (.or (← toPExpr a) (← toPExpr b))
  | .list (.atom "cmp" :: l :: rest) => do
    let rs ← rest.mapM fun r => match r with
      | .list [.atom op, e] => do some ((← ecCmp? op), (← toPExpr e))
      | _ => none
    some (.compare (← toPExpr l) rs)
  | .list [.atom "if", c, a, b] => do some (.ifexp (← toPExpr c) (← toPExpr a) (← toPExpr b))
  | .list (.atom "f" :: parts) => do
    let ps ← parts.mapM fun p => match p with
      | .list [.atom "l", .atom h] => some (some (unhex (h.drop 1).toString), none)
      | .list [.atom "e", e] => do some (none, some (← toPExpr e))
      | _ => none
    some (.fstr ps)
  | .list (.atom "call" :: .atom f :: args) => do some (.call f (← args.mapM toPExpr))
  | .list (.atom "seq" :: .atom t :: es) => do some (.seq (t == "T") (← es.mapM toPExpr))
  | .list [.atom "forb", .atom k] => some (.forbidden k)
  | _ => none

partial def showECVal : Reduino.Lang.EC.Val → String
  | .int n => s!"i{n}"
  | .bool b => if b then "bT" else "bF"
  | .str s => "s" ++ hexOf s
  | .list t vs => (if t then "(" else "[") ++ ",".intercalate (vs.map showECVal) ++ (if t then ")" else "]")

def handleEC (fields : List String) : Option String :=
  match fields with
  | ["ec", envs, src] =>
    let env : Env := (if envs == "-" then [] else envs.splitOn ",").filterMap fun kv =>
      match kv.splitOn "=" with
      | [k, "?"] => some (k, none)
      | [k, v] => (parseS (tokenize v)).bind (fun p => toVal p.1) |>.map fun x => (k, some x)
      | _ => none
    match (parseS (tokenize src)).bind (fun p => toPExpr p.1) with
    | none => some "bad-expr"
    | some e =>
      some (match eval env e with
        | .ok v => "ok " ++ showECVal v
        | .error .value => "err value"
        | .error .pyError => "err py"
        | .error .floatResult => "ok float")     -- accepted; the value is a float, outside the model's domain
  | _ => none

end Reduino.Driver
