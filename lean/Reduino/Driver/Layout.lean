import Reduino.Driver.Util
import Reduino.Driver.Core
import Reduino.Lang.Layout
/- `layout|prog|<lines>` / `layout|py|<lines>` / `indent|<hex>` / `strip|<hex>` / `collect|<start>|<hex> <hex> …` — a line is `indent:kind:trailing:tag` -/
namespace Reduino.Driver
open Reduino.Lang.Layout

def kind? : String → Option Kind
  | "b" => some .blank | "c" => some .comment | "s" => some .simple
  | "hIF" => some (.header .ifH) | "hELIF" => some (.header .elifH) | "hELSE" => some (.header .elseH)
  | "hWHILE" => some (.header .whileH) | "hFOR" => some (.header .forH) | "hTRY" => some (.header .tryH)
  | "hEXC" => some (.header .exceptH) | "hWT" => some (.header .whileTrue) | _ => none

def line? (s : String) : Option Line :=
  match s.splitOn ":" with
  | [i, k, t, g] => do some { indent := i.toNat!, kind := ← kind? k, trailing := t == "T", tag := g.toNat! }
  | _ => none

def hkName : HK → String
  | .ifH => "if" | .elifH => "elif" | .elseH => "else" | .whileH => "while" | .forH => "for" | .tryH => "try" | .exceptH => "except" | .whileTrue => "while"

partial def showTree : Tree → String
  | .leaf t => s!"L{t}"
  | .dropped t => s!"D{t}"
  | .node t h cs =>
    let tg := match h with | .elseH | .tryH | .exceptH => 0 | _ => t
    s!"N{tg}:{hkName h}[{",".intercalate (cs.map showTree)}]"

def showForest (f : List Tree) : String := ",".intercalate (f.map showTree)

def handleLayout (fields : List String) : Option String :=
  match fields with
  | ["layout", which, ls] =>
    match ((if ls == "" then [] else ls.splitOn " ").mapM line?) with
    | none => some "bad-lines"
    | some lines =>
      if which == "prog" then
        let t := reduinoProgram lines
        some s!"setup={showForest t.setup} loop={showForest t.loop}"
      else if which == "py" then some (showForest (pyBlocks lines))
      else some (showForest (reduinoBlocks lines))
  | ["indent", h] => some (toString (indentOf (unhex (h.drop 1).toString).toList))
  | ["collect", start, ls] =>      -- `_collect_block(lines, start)` on raw lines: `<index after the block>|<hex> <hex> …`
    let lines := (ls.splitOn " ").map fun h => (unhex (h.drop 1).toString).toList
    let r := collectBlockAt lines start.toNat!
    some (toString r.2 ++ "|" ++ " ".intercalate (r.1.map fun l => hexOf (String.ofList l)))
  | ["strip", h] => some (hexOf (String.ofList (stripInlineComment (unhex (h.drop 1).toString).toList)))
  | _ => none

end Reduino.Driver
