import Reduino.Driver.Util
import Reduino.Driver.Core
import Reduino.Lang.Render
import Reduino.Lang.InF
import Reduino.Lang.Promote
import Reduino.Lang.Libs
import Reduino.Lang.Assemble
import Reduino.Lang.Tr2
/- string literals travel as `(s x<hex>)`; a write event is printed as `w<text>` (the text of an int is its decimal digits).
   `lang|tr|<sexpr>`, `lang|pyrun|<sexpr>|N|fuel`, `lang|crun|<sexpr>|N|fuel` (strict reading of `/`, `%`),
   `lang|crunraw|<sexpr>|N|fuel` (raw reading); `tr2` / `crun2` / `crunraw2` translate with `tr2` -/
namespace Reduino.Driver
open Reduino.Lang

inductive SExp where
  | atom (s : String)
  | list (l : List SExp)
  deriving Repr

def tokenize (s : String) : List String :=
  let s := (s.replace "(" " ( ").replace ")" " ) "
  (s.splitOn " ").filter (· ≠ "")

partial def parseS : List String → Option (SExp × List String)
  | [] => none
  | "(" :: rest =>
    let rec items (ts : List String) (acc : List SExp) : Option (List SExp × List String) :=
      match ts with
      | [] => none
      | ")" :: r => some (acc.reverse, r)
      | _ => match parseS ts with
        | some (e, r) => items r (e :: acc)
        | none => none
    (items rest []).map fun (l, r) => (.list l, r)
  | ")" :: _ => none
  | a :: rest => some (.atom a, rest)

def binop? : String → Option BinOp
  | "add" => some .add | "sub" => some .sub | "mul" => some .mul
  | "band" => some .band | "bor" => some .bor | "bxor" => some .bxor | "fdiv" => some .fdiv | "fmod" => some .fmod | _ => none
def cmpop? : String → Option CmpOp
  | "lt" => some .lt | "le" => some .le | "gt" => some .gt | "ge" => some .ge | "eq" => some .eq | "ne" => some .ne | _ => none

partial def toExpr : SExp → Option Expr
  | .list [.atom "i", .atom n] => n.toInt?.map .int
  | .list [.atom "b", .atom v] => some (.bool (v == "T"))
  | .list [.atom "s", .atom h] => some (.str (unhex (h.drop 1).toString))      -- `(s x<hex of the UTF-8 bytes>)`
  | .list [.atom "v", .atom x] => some (.var x)
  | .list [.atom "bin", .atom op, a, b] => do some (.bin (← binop? op) (← toExpr a) (← toExpr b))
  | .list [.atom "neg", a] => do some (.neg (← toExpr a))
  | .list [.atom "cmp", .atom op, a, b] => do some (.cmp (← cmpop? op) (← toExpr a) (← toExpr b))
  | .list [.atom "and", a, b] => do some (.and (← toExpr a) (← toExpr b))
  | .list [.atom "or", a, b] => do some (.or (← toExpr a) (← toExpr b))
  | .list [.atom "not", a] => do some (.not (← toExpr a))
  | .list [.atom "ite", c, a, b] => do some (.ite (← toExpr c) (← toExpr a) (← toExpr b))
  | .list [.atom "abs", a] => do some (.abs (← toExpr a))
  | .list [.atom "min", a, b] => do some (.mm .min (← toExpr a) (← toExpr b))
  | .list [.atom "max", a, b] => do some (.mm .max (← toExpr a) (← toExpr b))
  | .list [.atom "str", a] => do some (.toStr (← toExpr a))
  | _ => none

partial def toStmt : SExp → Option Stmt
  | .list [.atom "skip"] => some .skip
  | .list [.atom "seq", a, b] => do some (.seq (← toStmt a) (← toStmt b))
  | .list [.atom "as", .atom x, e] => do some (.assign x (← toExpr e))
  | .list [.atom "aug", .atom x, .atom op, e] => do some (.aug x (← binop? op) (← toExpr e))
  | .list [.atom "tup", .list xs, .list es] => do
    -- `(tup (x y …) (e0 e1 …))`; the stored counter is filled in by `Prog.renum` (see `parseProg`)
    some (.tuple 0 (← xs.mapM fun x => match x with | .atom a => some a | _ => none) (← es.mapM toExpr))
  | .list [.atom "if", c, t, e] => do some (.ifs (← toExpr c) (← toStmt t) (← toStmt e))
  | .list [.atom "while", c, b] => do some (.whileLoop (← toExpr c) (← toStmt b))
  | .list [.atom "for", .atom i, n, b] => do some (.forRange i (← toExpr n) (← toStmt b))
  | .list [.atom "wr", e] => do some (.write (← toExpr e))
  | .list [.atom "sl", e] => do some (.sleep (← toExpr e))
  | .list [.atom "brk"] => some .brk
  -- W6: `(call x f (args))` / `(call _ f (args))`; the carried definition is filled in by `Prog.resolve` (see `parseProg`)
  | .list [.atom "call", .atom x, .atom f, .list args] => do
    some (.call (if x == "_" then none else some x) f [] [] .int .skip none (← args.mapM toExpr))
  | _ => none

def ty? : String → Option Ty
  | "int" => some .int | "bool" => some .bool | "string" => some .string | _ => none

/-- `(def name ((a int) (b bool)) body ret)` with `ret` an expression or `none` -/
def toHelper : SExp → Option Helper
  | .list [.atom "def", .atom name, .list ps, body, ret] => do
    let ps ← ps.mapM fun q => match q with | .list [.atom a, .atom t] => (ty? t).map fun t => (a, t) | _ => none
    let ret ← (match ret with | .atom "none" => some none | e => (toExpr e).map some)
    some { name := name, ps := ps, body := ← toStmt body, ret := ret }
  | _ => none

def toProg : SExp → Option Prog
  | .list [.atom "prog", pre, .atom "none"] => do some { pre := ← toStmt pre, body := none }
  | .list [.atom "prog", pre, body] => do some { pre := ← toStmt pre, body := some (← toStmt body) }
  | .list [.atom "prog", pre, body, .list (.atom "defs" :: ds)] => do
    some { pre := ← toStmt pre, body := ← (match body with | .atom "none" => some none | b => (toStmt b).map some), helpers := ← ds.mapM toHelper }
  | _ => none

def parseProg (s : String) : Option Prog := do
  let (e, _) ← parseS (tokenize s)
  (toProg e).map fun p => p.resolve.renum

def showEv : Ev → String
  | .write n => s!"w{n}"
  | .delay ms => s!"d{ms}"

def showErr : Err → String
  | .nameError => "NameError" | .typeError => "TypeError" | .fuel => "fuel" | .breakOutside => "break-outside" | .negativeDelay => "negative-delay" | .overflow => "overflow"
  | .zeroDiv => "ZeroDivisionError" | .signedDiv => "signed-division"

def showRun (r : Except Err (List Ev)) : String :=
  match r with
  | .ok t => "ok " ++ ",".intercalate (t.map showEv)
  | .error e => "error " ++ showErr e

def handleLang (fields : List String) : Option String :=
  match fields with
  | ["lang", "tr", src] =>
    match parseProg src with
    | none => some "bad-prog"
    | some p =>
      match tr p with
      | .ok c => some ("ok " ++ hexOf ("\n".intercalate c.lines) ++ (if InF p then " in" else " out"))
      | .error .breakInMainLoop => some "reject break-in-main-loop"
      | .error .outsideFragment => some "outside-fragment"
  | ["assemble", n, setup, loop] =>
    let kindOf (k : String) : Assemble.Kind :=
      match k with
      | "led" => .led | "rgb" => .rgb | "servo" => .servo | "motor" => .motor | "buzzer" => .buzzer | "button" => .button
      | "pot" => .pot | "ultra" => .ultra | "lcd" => .lcd | _ => .serial
    let items (s : String) : List Assemble.Item := (words s).filterMap fun w =>
      match w.splitOn ":" with
      | ["d", k, nm] => some (.decl (kindOf k) nm)
      | ["u", nm] => some (.use nm)
      | ["s", t] => some (.stmt t.toNat!)
      | _ => none
    let p : Assemble.Prog := { setup := items setup, loop := items loop }
    let shw (e : Assemble.Ev) : Option String :=
      match e with
      | .cfg _ => none
      | .use nm => some ("u:" ++ nm)
      | .stmt t => some s!"s:{t}"
      | .poll nm => some ("p:" ++ nm)
    let pass := " ".intercalate ((Assemble.loopEvents p).filterMap shw)
    let parts := [" ".intercalate ((Assemble.setupEvents p).filterMap shw)] ++ List.replicate n.toNat! pass
    some (" ".intercalate (" | ".intercalate parts |>.splitOn " " |>.filter (· ≠ "")))
  | ["libs", decls] =>
    let ds : List Libs.Decl := (decls.splitOn ";").filterMap fun d =>
      match words d with
      | [k, p] =>
        let kind : Libs.Kind := if k == "servo" then .servo else if k == "lcdPar" then .lcdPar else if k == "lcdI2c" then .lcdI2c else .other
        let pos : Libs.Pos := if p == "setupTop" then .setupTop else if p == "loopTop" then .loopTop else .nested
        some ⟨kind, pos⟩
      | _ => none
    some s!"libs={",".intercalate (Libs.libs ds)} inc={",".intercalate (Libs.includes ds)} inst={",".intercalate (Libs.instantiated ds)}"
  | ["promote", parent, branches] =>
    let bs := (branches.splitOn ";").map words
    some (" ".intercalate (Promote.promote Promote.sorted (words parent) bs))
  | ["lang", "inf", src] =>
    match parseProg src with
    | none => some "bad-prog"
    | some p => some (if InF p then "in" else "out")
  | ["lang", "pyrun", src, n, fuel] =>
    match parseProg src with
    | none => some "bad-prog"
    | some p => some (showRun (Py.run p n.toNat! fuel.toNat!))
  | ["lang", "crun", src, n, fuel] =>
    match parseProg src with
    | none => some "bad-prog"
    | some p =>
      match tr p with
      | .ok c => some (showRun (C.run c n.toNat! fuel.toNat!))
      | .error .breakInMainLoop => some "reject break-in-main-loop"
      | .error .outsideFragment => some "outside-fragment"
  | ["lang", "crunraw", src, n, fuel] =>
    match parseProg src with
    | none => some "bad-prog"
    | some p =>
      match tr p with
      | .ok c => some (showRun (C.run c n.toNat! fuel.toNat! .raw))
      | .error .breakInMainLoop => some "reject break-in-main-loop"
      | .error .outsideFragment => some "outside-fragment"
  | ["lang", "crunraw2", src, n, fuel] =>
    match parseProg src with
    | none => some "bad-prog"
    | some p =>
      match tr2 p with
      | .ok c => some (showRun (C.run c n.toNat! fuel.toNat! .raw))
      | .error .breakInMainLoop => some "reject break-in-main-loop"
      | .error .outsideFragment => some "outside-fragment"
  | ["lang", "tr2", src] =>
    match parseProg src with
    | none => some "bad-prog"
    | some p =>
      match tr2 p with
      | .ok c => some ("ok " ++ hexOf ("\n".intercalate c.lines) ++ (if InF2 p then " in" else " out"))
      | .error .breakInMainLoop => some "reject break-in-main-loop"
      | .error .outsideFragment => some "outside-fragment"
  | ["lang", "crun2", src, n, fuel] =>
    match parseProg src with
    | none => some "bad-prog"
    | some p =>
      match tr2 p with
      | .ok c => some (showRun (C.run c n.toNat! fuel.toNat!))
      | .error .breakInMainLoop => some "reject break-in-main-loop"
      | .error .outsideFragment => some "outside-fragment"
  | _ => none

end Reduino.Driver
