import Reduino.Driver.Util
import Reduino.Driver.Core
import Reduino.Toolchain.Pio
import Reduino.Toolchain.Target
import Reduino.Gen.Pio
namespace Reduino.Driver
open Reduino Reduino.Toolchain

def hx (s : Str) : String := hexOf (String.ofList s)
def uh (t : String) : Str := (unhex (t.drop 1).toString).toList

def showParsed (r : Option (List (Str × List (Str × Str)))) : String :=
  match r with
  | none => "error"
  | some secs => ";".intercalate (secs.map fun s =>
      hx s.1 ++ ":" ++ ",".intercalate (s.2.map fun kv => hx kv.1 ++ "=" ++ hx kv.2))

def faultOf (s : String) : Option Fault :=
  [Fault.none, .read, .parse, .emit, .mkdtemp, .mkdir, .writeMain, .writeIni, .build, .upload].find? (·.name == s)

def handleTool (fields : List String) : Option String :=
  match fields with
  | ["validate", p, b] =>
    let v := validate Gen.registry (String.ofList (uh p)) (String.ofList (uh b))
    some (match v with | .ok => "ok" | .badPlatform => "badPlatform" | .badBoard => "badBoard" | .mismatch => "mismatch")
  | ["ini", port, plat, board, libs] =>
    let ls := if libs == "-" then [] else (libs.splitOn ",").map uh
    let c : Cfg := { port := uh port, platform := uh plat, board := uh board, libs := ls }
    some (s!"text={hx (renderIni c)} parsed={showParsed (parseLines (iniLines c))} libs={",".intercalate ((dedupLibs ls []).map hx)}")
  | ["iniparse", text] =>
    some (showParsed (parseLines ((uh text).splitOn '\n')))
  | ["target", pv, up, pio, servo, f] =>
    match faultOf f with
    | none => some "bad-op"
    | some f =>
      let r := target { pairValid := pv == "T", upload := up == "T", pioPresent := pio == "T", needsServo := servo == "T", fault := f }
      some (s!"effects={",".intercalate (r.1.map Effect.name)} outcome={r.2.name}")
  | _ => none

end Reduino.Driver
