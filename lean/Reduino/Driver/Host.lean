import Reduino.Driver.Util
import Reduino.Host.Led
import Reduino.Host.RGBLed
import Reduino.Host.Servo
import Reduino.Host.DCMotor
/- Line protocol for the host actuator models (tie `H`).  Request: `<class>|<ctor args>|<op>|<op>…` -/
namespace Reduino.Driver
open Reduino Reduino.Host

def ledOp? (ws : List String) : Option (LedOp Float) :=
  match ws with
  | ["on"] => some .on
  | ["off"] => some .off
  | ["toggle"] => some .toggle
  | ["sb", v] => do some (.setBrightness (← parseVal v))
  | ["blink", d, t] => do some (.blink (← parseVal d) (← parseVal t))
  | ["fi", s, d] => do some (.fadeIn (← parseVal s) (← parseVal d))
  | ["fo", s, d] => do some (.fadeOut (← parseVal s) (← parseVal d))
  | "fp" :: d :: p => do some (.flashPattern (← vals? p) (← parseVal d))
  | _ => none

def showLed (o : Out Led Float) : String :=
  s!"{o.res.show} b={o.st.brightness} s={showBool o.st.state} sl={showVals o.sleeps}"

def runLed (ops : List String) : String :=
  let rec go (s : Led) : List String → List String → List String
    | [], acc => acc.reverse
    | o :: rest, acc =>
      match ledOp? (words o) with
      | none => ("bad-op" :: acc).reverse
      | some op => let r := Led.step s op; go r.st rest (showLed r :: acc)
  "|".intercalate (go {} ops [])

def showColor (c : Color) : String := s!"{c.1},{c.2.1},{c.2.2}"

def rgbOp? (ws : List String) : Option (RGBOp Float) :=
  match ws with
  | ["sc", r, g, b] => do some (.setColor (← parseVal r) (← parseVal g) (← parseVal b))
  | ["on", r, g, b] => do some (.on (← parseVal r) (← parseVal g) (← parseVal b))
  | ["off"] => some .off
  | ["fade", r, g, b, d, n] => do
    some (.fade (← parseVal r) (← parseVal g) (← parseVal b) (← parseVal d) (← parseVal n))
  | ["blink", r, g, b, t, d] => do
    some (.blink (← parseVal r) (← parseVal g) (← parseVal b) (← parseVal t) (← parseVal d))
  | _ => none

def showRGB (o : RGBOut Float) : String :=
  s!"{o.res.show} c={showColor o.st.color} s={showBool o.st.state} sl={showVals o.sleeps} tr={";".intercalate (o.trace.map showColor)}"

def runRGB (ctor : List String) (ops : List String) : String :=
  match vals? ctor with
  | some [r, g, b] =>
    match RGB.create r g b with
    | .error e => (Res.raise e).show
    | .ok s0 =>
      let rec go (s : RGB) : List String → List String → List String
        | [], acc => acc.reverse
        | o :: rest, acc =>
          match rgbOp? (words o) with
          | none => ("bad-op" :: acc).reverse
          | some op => let r := RGB.step s op; go r.st rest (showRGB r :: acc)
      "|".intercalate (go s0 ops ["ok"])
  | _ => "bad-op"

def servoOp? (ws : List String) : Option (ServoOp Float) :=
  match ws with
  | ["w", a] => do some (.write (← parseVal a))
  | ["wu", p] => do some (.writeUs (← parseVal p))
  | _ => none

def runServo (ctor : List String) (ops : List String) : String :=
  match vals? ctor with
  | some [a, b, c, d] =>
    match Servo.create a b c d with
    | .error e => (Res.raise e).show
    | .ok s0 =>
      let sh (s : Servo Float) (r : Res) := s!"{r.show} a={showF64 s.angle} p={showF64 s.pulse}"
      let rec go (s : Servo Float) : List String → List String → List String
        | [], acc => acc.reverse
        | o :: rest, acc =>
          match servoOp? (words o) with
          | none => ("bad-op" :: acc).reverse
          | some op => let r := Servo.step s op; go r.1 rest (sh r.1 r.2 :: acc)
      "|".intercalate (go s0 ops [sh s0 .ok])
  | _ => "bad-op"

def motorOp? (ws : List String) : Option (MotorOp Float) :=
  match ws with
  | ["ss", v] => do some (.setSpeed (← parseVal v))
  | ["bw", v] => do some (.backward (← parseVal v))
  | ["stop"] => some .stop
  | ["coast"] => some .coast
  | ["inv"] => some .invert
  | ["ramp", t, d] => do some (.ramp (← parseVal t) (← parseVal d))
  | ["rf", d, s] => do some (.runFor (← parseVal d) (← parseVal s))
  | _ => none

def showMotor (o : MotorOut Float) : String :=
  s!"{o.res.show} sp={showF64 o.st.speed} ap={showF64 o.st.applied} inv={showBool o.st.inverted} m={o.st.mode.name} sl={showVals o.sleeps} tr={",".intercalate (o.trace.map showF64)}"

def runMotor (ctor : List String) (ops : List String) : String :=
  match vals? ctor with
  | some [a, b, c] =>
    match Motor.create a b c with
    | .error e => (Res.raise e).show
    | .ok s0 =>
      let rec go (s : Motor Float) : List String → List String → List String
        | [], acc => acc.reverse
        | o :: rest, acc =>
          match motorOp? (words o) with
          | none => ("bad-op" :: acc).reverse
          | some op => let r := Motor.step s op; go r.st rest (showMotor r :: acc)
      "|".intercalate (go s0 ops ["ok"])
  | _ => "bad-op"

def handleHost (fields : List String) : Option String :=
  match fields with
  | "led" :: _ctor :: ops => some (runLed ops)
  | "rgb" :: ctor :: ops => some (runRGB (words ctor) ops)
  | "servo" :: ctor :: ops => some (runServo (words ctor) ops)
  | "motor" :: ctor :: ops => some (runMotor (words ctor) ops)
  | _ => none

end Reduino.Driver
