import Reduino.Driver.Lang
import Reduino.Lang.Types
import Reduino.Lang.TypesTree
/- `ty|run|(p (as x e) …)|all` or `…|0,2,1` (indices of the statements to execute, in order).
   Expressions: `(i n) (f hex) (b T|F) (s hex) (v x) (neg a) (not a) (add|sub|mul|div a b) (lt|le|eq a b) (and|or a b) (ite c a b)`
   and the builtin calls `(abs a) (min a b) (max a b) (toint a) (tofloat a) (tobool a)`. -/
namespace Reduino.Driver
open Reduino Reduino.Lang.Ty2

partial def toTE : SExp → Option (E Float)
  | .list [.atom "i", .atom n] => n.toInt?.map fun k => .lit (.int k)
  | .list [.atom "f", .atom h] => some (.lit (.flt (Float.ofBits (UInt64.ofNat (fromHex h)))))
  | .list [.atom "b", .atom v] => some (.lit (.bool (v == "T")))
  | .list [.atom "s", .atom h] => some (.lit (.str (unhex h)))
  | .list [.atom "s"] => some (.lit (.str ""))
  | .list [.atom "v", .atom x] => some (.var x)
  | .list [.atom "neg", a] => do some (.neg (← toTE a))
  | .list [.atom "not", a] => do some (.not (← toTE a))
  | .list [.atom "add", a, b] => do some (.bin .add (← toTE a) (← toTE b))
  | .list [.atom "sub", a, b] => do some (.bin .sub (← toTE a) (← toTE b))
  | .list [.atom "mul", a, b] => do some (.bin .mul (← toTE a) (← toTE b))
  | .list [.atom "div", a, b] => do some (.bin .div (← toTE a) (← toTE b))
  | .list [.atom "lt", a, b] => do some (.cmp .lt (← toTE a) (← toTE b))
  | .list [.atom "le", a, b] => do some (.cmp .le (← toTE a) (← toTE b))
  | .list [.atom "eq", a, b] => do some (.cmp .eq (← toTE a) (← toTE b))
  | .list [.atom "and", a, b] => do some (.and (← toTE a) (← toTE b))
  | .list [.atom "or", a, b] => do some (.or (← toTE a) (← toTE b))
  | .list [.atom "ite", c, a, b] => do some (.ite (← toTE c) (← toTE a) (← toTE b))
  | .list [.atom "abs", a] => do some (.abs (← toTE a))
  | .list [.atom "min", a, b] => do some (.min (← toTE a) (← toTE b))
  | .list [.atom "max", a, b] => do some (.max (← toTE a) (← toTE b))
  | .list [.atom "toint", a] => do some (.toInt (← toTE a))
  | .list [.atom "tofloat", a] => do some (.toFloat (← toTE a))
  | .list [.atom "tobool", a] => do some (.toBool (← toTE a))
  | _ => none

def toTProg : SExp → Option (List (Stmt Float))
  | .list (.atom "p" :: items) => items.mapM fun it =>
    match it with
    | .list [.atom "as", .atom x, e] => (toTE e).map fun e' => (x, e')
    | _ => none
  | _ => none

partial def toNode : SExp → Option (Node Float)
  | .list [.atom "as", .atom x, e] => (toTE e).map fun e' => .assign x e'
  | .list (.atom "if" :: bs) => (bs.mapM fun (b : SExp) => match b with
      | SExp.list (SExp.atom "blk" :: ns) => ns.mapM toNode
      | _ => none).map .branches
  | .list (.atom "loop" :: ns) => (ns.mapM toNode).map .loop
  | .list (.atom "main" :: ns) => (ns.mapM toNode).map .mainLoop
  | _ => none

def toTree : SExp → Option (List (Node Float))
  | .list (.atom "p" :: items) => items.mapM toNode
  | _ => none

def showT : T → String | .bool => "bool" | .int => "int" | .float => "float" | .str => "String"

def showTV : V Float → String
  | .bool b => if b then "bT" else "bF"
  | .int n => s!"i{n}"
  | .flt x => showF64 x
  | .str s => "s" ++ hexOf s

def showStore (s : Option (Store Float)) (names : List String) : String :=
  match s with
  | none => "none"
  | some st => ",".intercalate (names.filterMap fun x => (st.get x).map fun v => s!"{x}:{showTV v}")

def handleTypes (fields : List String) : Option String :=
  match fields with
  | ["ty", "run", src, path] =>
    match (parseS (tokenize src)).bind (fun r => toTProg r.1) with
    | none => some "bad-prog"
    | some p =>
      let env := declare p
      let names := env.decl.map (·.1)
      let sel : List (Stmt Float) := if path == "all" then p else (path.splitOn ",").filterMap fun i => p[i.toNat!]?
      let stable := p.all fun st => Tame env.decl st.2 && (env.decl.lookup st.1 == some (infer env.decl st.2))
      some s!"decl={",".intercalate (env.decl.map fun d => s!"{d.1}:{showT d.2}")} stable={showBool stable} py={showStore (pyRun [] sel) names} c={showStore (cRun env.decl [] sel) names}"
  | ["ty", "decl", src] =>
    match (parseS (tokenize src)).bind (fun r => toTree r.1) with
    | none => some "bad-prog"
    | some p =>
      let g := declareT p
      let stable := (flattenList p).all fun st => Tame g st.2 && (g.lookup st.1 == some (infer g st.2))
      let names := (flattenList p).map (·.1) |>.eraseDups
      some s!"decl={",".intercalate (names.map fun x => s!"{x}:{showT (g.get x)}")} stable={showBool stable}"
  | ["ty", "merge", ts] =>
    let l : List T := (words ts).filterMap fun w => match w with | "bool" => some .bool | "int" => some .int | "float" => some .float | "String" => some .str | _ => none
    some (match mergeReturn l with | some t => showT t | none => "reject")
  | _ => none

end Reduino.Driver
