import Reduino.Basic
/-
  Host-side `Reduino.Actuators.DCMotor` (src/Reduino/Actuators/DCMotor.py).
-/
namespace Reduino.Host

inductive Mode where | coast | drive | brake
  deriving DecidableEq, Repr

def Mode.name : Mode → String
  | .coast => "coast" | .drive => "drive" | .brake => "brake"

structure Motor (α : Type) where
  speed : α
  inverted : Bool
  mode : Mode
  applied : α

inductive MotorOp (α : Type) where
  | setSpeed (v : Val α)
  | backward (v : Val α)
  | stop | coast | invert
  | ramp (target duration : Val α)
  | runFor (duration speed : Val α)

structure MotorOut (α : Type) where
  st : Motor α
  res : Res
  sleeps : List (Val α) := []
  /-- every value passed to `set_speed` by this call, in order (after clamping) -/
  trace : List α := []

namespace Motor
variable {α : Type} [Num α] [LT α] [LE α] [DecidableLT α] [DecidableLE α]
variable [Add α] [Sub α] [Mul α] [Div α] [Neg α]

def zero : α := Num.ofInt 0
def one : α := Num.ofInt 1

def init : Motor α := { speed := zero, inverted := false, mode := .coast, applied := zero }

/-- `DCMotor(in1, in2, enable)`: all ints, pairwise distinct. -/
def create (a b c : Val α) : Except Exc (Motor α) :=
  match a, b, c with
  | .int x, .int y, .int z =>
    if x = y ∨ x = z ∨ y = z then .error .valueError else .ok init
  | _, _, _ => .error .typeError

/-- `_clamp_speed` -/
def clamp (v : Val α) : α :=
  let x := v.toF
  if one < x then one else if x < -one then -one else x

/-- `_apply_speed` -/
def apply (s : Motor α) (speed : α) : Motor α :=
  let eff := if s.inverted then -speed else speed
  let z : Bool := !(decide (eff < zero)) && !(decide (zero < eff))
  { s with mode := if z then .coast else .drive, applied := eff }

def setSpeed (s : Motor α) (v : Val α) : Motor α :=
  let sp := clamp v
  apply { s with speed := sp } sp

/-- Python `abs` on a float (gives +0.0 for either zero). -/
def fabs (x : α) : α := if x < zero then -x else if zero < x then x else zero

def rampSteps : Nat := 20

def rampGo (start stepv : α) (delay : Val α) : Nat → Motor α → List (Val α) → List α →
    Motor α × List (Val α) × List α
  | 0, s, sl, tr => (s, sl.reverse, tr.reverse)
  | k + 1, s, sl, tr =>
    let i : Int := Int.ofNat (rampSteps - k)
    let s' := setSpeed s (.flt (start + stepv * Num.ofInt i))
    let sl' := if Val.lt (.int 0) delay then delay :: sl else sl
    rampGo start stepv delay k s' sl' (s'.speed :: tr)

def step (s : Motor α) : MotorOp α → MotorOut α
  | .setSpeed v => let s' := setSpeed s v; { st := s', res := .ok, trace := [s'.speed] }
  | .backward v =>
    let s' := setSpeed s (.flt (-(fabs (clamp v)))); { st := s', res := .ok, trace := [s'.speed] }
  | .stop => { st := { s with speed := zero, applied := zero, mode := .brake }, res := .ok }
  | .coast => { st := { s with speed := zero, applied := zero, mode := .coast }, res := .ok }
  | .invert => { st := apply { s with inverted := !s.inverted } s.speed, res := .ok }
  | .ramp target duration =>
    if Val.lt duration (.int 0) then { st := s, res := .raise .valueError }
    else
      let t := clamp target
      let stepv := (t - s.speed) / Num.ofInt (Int.ofNat rampSteps)
      let delay := Val.div duration (.int (Int.ofNat rampSteps))
      let (s', sl, tr) := rampGo s.speed stepv delay rampSteps s [] []
      { st := s', res := .ok, sleeps := sl, trace := tr }
  | .runFor duration speed =>
    if Val.lt duration (.int 0) then { st := s, res := .raise .valueError }
    else
      let s' := setSpeed s speed
      { st := { s' with speed := zero, applied := zero, mode := .brake }, res := .ok,
        sleeps := [duration], trace := [s'.speed] }

def run (ops : List (MotorOp α)) : Motor α := ops.foldl (fun s op => (step s op).st) init

end Motor
end Reduino.Host
