import Reduino.Basic
/-
  Host-side `Reduino.Core` pin simulation (src/Reduino/Core/__init__.py), `Reduino.Utils.map/sleep`
  (src/Reduino/Utils/__init__.py) and the host sensors (src/Reduino/Sensors/*.py), SerialMonitor.write.
-/
namespace Reduino.Host

/-- a pin as the caller writes it: `7` or `"7"` / `"A0"` -/
inductive PinArg where
  | num (n : Int)
  | str (s : String)
  deriving DecidableEq, Repr

/-- Python `str.isdigit()` restricted to ASCII input (the harness generates ASCII pin names only). -/
def isDigitStr (s : String) : Bool := !s.isEmpty && s.all Char.isDigit

def digitsToNat (s : String) : Nat := s.foldl (fun a c => a * 10 + (c.toNat - 48)) 0

/-- `_normalise_pin` -/
def normalise : PinArg → PinArg
  | .num n => .num n
  | .str s => if isDigitStr s then .num (Int.ofNat (digitsToNat s)) else .str s

structure Core where
  modes : PinArg → Option String := fun _ => none
  digital : PinArg → Option Int := fun _ => none
  analog : PinArg → Option Int := fun _ => none

def upd {β : Type} (m : PinArg → Option β) (k : PinArg) (v : β) : PinArg → Option β :=
  fun k' => if k' = k then some v else m k'

inductive CoreOp (α : Type) where
  | pinMode (p : PinArg) (mode : String)
  | digitalWrite (p : PinArg) (v : Val α)
  | analogWrite (p : PinArg) (v : Val α)

namespace Core
variable {α : Type} [Num α] [LT α] [LE α] [DecidableLT α] [DecidableLE α]

def pullup : String := "INPUT_PULLUP"

/-- `HIGH if bool(value) else LOW` -/
def level (v : Val α) : Int := if Val.isZero v then 0 else 1

/-- `max(0, min(255, int(round(float(value)))))` -/
def duty (v : Val α) : Int := max 0 (min 255 (Num.roundHE v.toF))

def step (s : Core) : CoreOp α → Core
  | .pinMode p mode =>
    let k := normalise p
    let s' := { s with modes := upd s.modes k mode }
    if mode = pullup ∧ (s.digital k).isNone then { s' with digital := upd s.digital k 1 } else s'
  | .digitalWrite p v => { s with digital := upd s.digital (normalise p) (level v) }
  | .analogWrite p v => { s with analog := upd s.analog (normalise p) (duty v) }

def digitalRead (s : Core) (p : PinArg) : Int :=
  let k := normalise p
  match s.digital k with
  | some v => v
  | none => if s.modes k = some pullup then 1 else 0

def analogRead (s : Core) (p : PinArg) : Int := (s.analog (normalise p)).getD 0

def run (s : Core) (ops : List (CoreOp α)) : Core := ops.foldl step s

end Core

/-! ### Utils -/
namespace Utils
variable {α : Type} [Num α] [LT α] [LE α] [DecidableLT α] [DecidableLE α]
variable [Add α] [Sub α] [Mul α] [Div α] [Neg α]

/-- Python `a == b` on numbers -/
def veq (a b : Val α) : Bool := Val.le a b && Val.le b a

/-- `Utils.map(value, from_low, from_high, to_low, to_high)` -/
def map (v fl fh tl th : Val α) : Except Exc (Val α) :=
  if veq fl fh then .error .valueError
  else
    let ratio := Val.div (Val.sub v fl) (Val.sub fh fl)
    .ok (Val.add tl (Val.mul ratio (Val.sub th tl)))

/-- `Utils.sleep(duration)`: the single argument passed to the sleeper, or ValueError -/
def sleep (d : Val α) : Except Exc α :=
  if Val.lt d (.int 0) then .error .valueError else .ok (d.toF / Num.ofInt 1000)

end Utils

/-! ### Button (host) -/
structure Button where
  wasPressed : Bool := false
  deriving DecidableEq, Repr

/-- one `is_pressed()` with the sampled level `p`: new state, return value, whether on_click fired -/
def Button.sample (b : Button) (p : Bool) : Button × Int × Bool :=
  ({ wasPressed := p }, if p then 1 else 0, p && !b.wasPressed)

/-- number of `on_click` invocations over a sampled signal -/
def Button.clicks : Button → List Bool → Nat
  | _, [] => 0
  | b, p :: rest => (if (b.sample p).2.2 then 1 else 0) + Button.clicks (b.sample p).1 rest

/-- rising edges of a signal with previous level `prev` -/
def risingEdges : Bool → List Bool → Nat
  | _, [] => 0
  | prev, p :: rest => (if p && !prev then 1 else 0) + risingEdges p rest

/-! ### Potentiometer / Ultrasonic (host) -/
section sensors
variable {α : Type} [Num α] [LT α] [LE α] [DecidableLT α] [DecidableLE α]

/-- `Potentiometer.read()` given the provider's value (`none` = no provider) -/
def potRead (provided : Option (Val α)) : Except Exc Int :=
  let v : Int := match provided with | none => 0 | some x => x.toInt
  if v < 0 ∨ v > 1023 then .error .valueError else .ok v

/-- `UltrasonicSensor.measure_distance()` given provider value or the default -/
def ultraMeasure (provided : Option (Val α)) (dflt : Val α) : Except Exc α :=
  let d : α := match provided with | none => dflt.toF | some x => x.toF
  if d < Num.ofInt 0 then .error .valueError else .ok d

end sensors

/-! ### SerialMonitor.write -/
/-- bytes sent (as text) and the return value, given `str(value)`, the newline and whether a port is open -/
def serialWrite (text newline : String) (isOpen : Bool) : List String × String :=
  (if isOpen then [text ++ newline] else [], text)

end Reduino.Host
