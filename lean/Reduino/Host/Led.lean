import Reduino.Basic
/-
  Host-side `Reduino.Actuators.Led` (src/Reduino/Actuators/Led.py) as a state machine.
  One `step` per public method call; the result carries the exception class (if any) and the
  list of arguments passed to `sleep`, in order.
-/
namespace Reduino.Host

structure Led where
  brightness : Int := 0
  state : Bool := false
  deriving DecidableEq, Repr

inductive LedOp (α : Type) where
  | on | off | toggle
  | setBrightness (v : Val α)
  | blink (duration times : Val α)
  | fadeIn (step delay : Val α)
  | fadeOut (step delay : Val α)
  | flashPattern (pattern : List (Val α)) (delay : Val α)

structure Out (σ α : Type) where
  st : σ
  res : Res
  sleeps : List (Val α) := []

namespace Led
variable {α : Type} [Num α] [LT α] [LE α] [DecidableLT α] [DecidableLE α]

/-- `set_brightness(value)`: validates, then stores `int(value)`. -/
def setBrightness (s : Led) (v : Val α) : Led × Res :=
  if Val.between (.int 0) v (.int 255) then
    let b := v.toInt
    ({ brightness := b, state := decide (b > 0) }, .ok)
  else (s, .raise .valueError)

def setB (b : Int) : Led := { brightness := b, state := decide (b > 0) }

/-- brightness values visited by the `while current < 255` loop of `fade_in` (integer step > 0). -/
def fadeInLevels (cur step : Int) (h : 0 < step) : List Int :=
  if hc : cur < 255 then cur :: fadeInLevels (min 255 (cur + step)) step h else []
termination_by (255 - cur).toNat
decreasing_by omega

def fadeOutLevels (cur step : Int) (h : 0 < step) : List Int :=
  if hc : 0 < cur then cur :: fadeOutLevels (max 0 (cur - step)) step h else []
termination_by cur.toNat
decreasing_by omega

def clamp255 (n : Int) : Int := max 0 (min 255 n)

/-- entries of `flash_pattern`, processed left to right; stops at the first invalid entry. -/
def flashGo (delay : Val α) : Led → List (Val α) → List (Val α) → Out Led α
  | s, [], acc => { st := s, res := .ok, sleeps := acc.reverse }
  | s, e :: rest, acc =>
    let isZ := Val.isZero e
    let isOne := Val.le e (.int 1) && Val.le (.int 1) e
    if !(isZ || isOne) && !(Val.between (.int 0) e (.int 255)) then
      { st := s, res := .raise .valueError, sleeps := acc.reverse }
    else
      let s' := if isZ then setB 0 else if isOne then setB 255 else setB e.toInt
      match rest with
      | [] => { st := s', res := .ok, sleeps := acc.reverse }
      | _ :: _ => flashGo delay s' rest (delay :: acc)

def step (s : Led) : LedOp α → Out Led α
  | .on => { st := setB 255, res := .ok }
  | .off => { st := setB 0, res := .ok }
  | .toggle => { st := if s.state then setB 0 else setB 255, res := .ok }
  | .setBrightness v => let (s', r) := setBrightness s v; { st := s', res := r }
  | .blink d times =>
    if Val.lt d (.int 0) then { st := s, res := .raise .valueError }
    else if Val.le times (.int 0) then { st := s, res := .raise .valueError }
    else match times with
      | .flt _ => { st := s, res := .raise .typeError }       -- range(float)
      | .int n => { st := setB 0, res := .ok, sleeps := List.replicate (2 * n.toNat) d }
  | .fadeIn stepv delay =>
    if Val.le stepv (.int 0) then { st := s, res := .raise .valueError }
    else if Val.lt delay (.int 0) then { st := s, res := .raise .valueError }
    else match stepv with
      | .flt _ => { st := s, res := .unsup }
      | .int k =>
        if h : 0 < k then
          let lv := fadeInLevels (clamp255 s.brightness) k h
          { st := setB 255, res := .ok, sleeps := lv.map (fun _ => delay) }
        else { st := s, res := .raise .valueError }
  | .fadeOut stepv delay =>
    if Val.le stepv (.int 0) then { st := s, res := .raise .valueError }
    else if Val.lt delay (.int 0) then { st := s, res := .raise .valueError }
    else match stepv with
      | .flt _ => { st := s, res := .unsup }
      | .int k =>
        if h : 0 < k then
          let lv := fadeOutLevels (clamp255 s.brightness) k h
          { st := setB 0, res := .ok, sleeps := lv.map (fun _ => delay) }
        else { st := s, res := .raise .valueError }
  | .flashPattern p delay =>
    if Val.lt delay (.int 0) then { st := s, res := .raise .valueError }
    else flashGo delay s p []

/-- Run a whole call history from the initial object. -/
def run (ops : List (LedOp α)) : Led := ops.foldl (fun s op => (step s op).st) {}

end Led
end Reduino.Host
