import Reduino.Basic
/-
  Host-side `Reduino.Actuators.Servo` (src/Reduino/Actuators/Servo.py).  All state is `float`.
-/
namespace Reduino.Host

structure Servo (α : Type) where
  minA : α
  maxA : α
  minP : α
  maxP : α
  angle : α
  pulse : α

inductive ServoOp (α : Type) where
  | write (a : Val α)
  | writeUs (p : Val α)

namespace Servo
variable {α : Type} [Num α] [LT α] [LE α] [DecidableLT α] [DecidableLE α]
variable [Add α] [Sub α] [Mul α] [Div α] [Neg α]

/-- `Servo(pin, min_angle=…, max_angle=…, min_pulse_us=…, max_pulse_us=…)` -/
def create (minA maxA minP maxP : Val α) : Except Exc (Servo α) :=
  if Val.le maxA minA then .error .valueError
  else if Val.le maxP minP then .error .valueError
  else .ok { minA := minA.toF, maxA := maxA.toF, minP := minP.toF, maxP := maxP.toF,
             angle := minA.toF, pulse := minP.toF }

def angleToPulse (s : Servo α) (a : α) : α :=
  s.minP + ((a - s.minA) / (s.maxA - s.minA)) * (s.maxP - s.minP)

def pulseToAngle (s : Servo α) (p : α) : α :=
  s.minA + ((p - s.minP) / (s.maxP - s.minP)) * (s.maxA - s.minA)

def step (s : Servo α) : ServoOp α → Servo α × Res
  | .write a =>
    if Val.between (.flt s.minA) a (.flt s.maxA) then
      ({ s with angle := a.toF, pulse := s.angleToPulse a.toF }, .ok)
    else (s, .raise .valueError)
  | .writeUs p =>
    if Val.between (.flt s.minP) p (.flt s.maxP) then
      ({ s with pulse := p.toF, angle := s.pulseToAngle p.toF }, .ok)
    else (s, .raise .valueError)

def run (s : Servo α) (ops : List (ServoOp α)) : Servo α := ops.foldl (fun s op => (step s op).1) s

end Servo
end Reduino.Host
