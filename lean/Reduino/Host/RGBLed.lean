import Reduino.Basic
import Reduino.Host.Led
/-
  Host-side `Reduino.Actuators.RGBLed` (src/Reduino/Actuators/RGBLed.py).
  `trace` lists the colour passed to every successful `set_color`, in order.
-/
namespace Reduino.Host

abbrev Color := Int × Int × Int

structure RGB where
  color : Color := (0, 0, 0)
  state : Bool := false
  deriving DecidableEq, Repr

inductive RGBOp (α : Type) where
  | setColor (r g b : Val α)
  | on (r g b : Val α)
  | off
  | fade (r g b duration steps : Val α)
  | blink (r g b times delay : Val α)

structure RGBOut (α : Type) where
  st : RGB
  res : Res
  sleeps : List (Val α) := []
  trace : List Color := []

namespace RGB
variable {α : Type} [Num α] [LT α] [LE α] [DecidableLT α] [DecidableLE α]
variable [Add α] [Sub α] [Mul α] [Div α] [Neg α]

/-- `_validate_component`: TypeError for a non-int, ValueError outside 0..255. -/
def component : Val α → Except Exc Int
  | .flt _ => .error .typeError
  | .int n => if 0 ≤ n ∧ n ≤ 255 then .ok n else .error .valueError

/-- validates red, then green, then blue (first failure wins). -/
def triple (r g b : Val α) : Except Exc Color := do
  let r' ← component r
  let g' ← component g
  let b' ← component b
  pure (r', g', b')

def ofColor (c : Color) : RGB :=
  { color := c, state := decide (c.1 > 0) || decide (c.2.1 > 0) || decide (c.2.2 > 0) }

/-- constructor pin validation: int and non-negative, in order. -/
def pin : Val α → Except Exc Int
  | .flt _ => .error .typeError
  | .int n => if n < 0 then .error .valueError else .ok n

def create (r g b : Val α) : Except Exc RGB := do
  let _ ← pin r; let _ ← pin g; let _ ← pin b
  pure {}

/-- one interpolated channel at step `i` of `n`: `int(round(cur + (goal-cur)*i / n))`. -/
def interp (cur goal i n : Int) : Int :=
  Num.roundHE ((Val.add (.int cur) (Val.div (.int ((goal - cur) * i)) (.int n)) : Val α).toF)

def fadeColor (start target : Color) (i n : Int) : Color :=
  (interp (α := α) start.1 target.1 i n, interp (α := α) start.2.1 target.2.1 i n,
   interp (α := α) start.2.2 target.2.2 i n)

def step (s : RGB) : RGBOp α → RGBOut α
  | .setColor r g b | .on r g b =>
    match triple r g b with
    | .error e => { st := s, res := .raise e }
    | .ok c => { st := ofColor c, res := .ok, trace := [c] }
  | .off => { st := ofColor (0, 0, 0), res := .ok, trace := [(0, 0, 0)] }
  | .fade r g b duration steps =>
    if Val.lt duration (.int 0) then { st := s, res := .raise .valueError }
    else if Val.le steps (.int 0) then { st := s, res := .raise .valueError }
    else match triple r g b with
      | .error e => { st := s, res := .raise e }
      | .ok target =>
        if Val.isZero duration || s.color == target then
          { st := ofColor target, res := .ok, trace := [target] }
        else match steps with
          | .flt _ => { st := s, res := .raise .typeError }   -- range(1, steps + 1)
          | .int n =>
            let cols := (List.range n.toNat).map
              (fun k => fadeColor (α := α) s.color target (Int.ofNat (k + 1)) n)
            let delay := Val.div duration.toFloat (.int n)
            { st := ofColor (cols.getLastD s.color), res := .ok, trace := cols,
              sleeps := List.replicate (n.toNat - 1) delay }
  | .blink r g b times delay =>
    if Val.le times (.int 0) then { st := s, res := .raise .valueError }
    else if Val.lt delay (.int 0) then { st := s, res := .raise .valueError }
    else match triple r g b with
      | .error e => { st := s, res := .raise e }
      | .ok c =>
        match times with
        | .flt _ => { st := s, res := .raise .typeError }     -- range(times)
        | .int n =>
          { st := ofColor s.color, res := .ok,
            trace := (List.replicate n.toNat [c, (0, 0, 0)]).flatten ++ [s.color],
            sleeps := List.replicate (2 * n.toNat) delay }

def run (ops : List (RGBOp α)) : RGB := ops.foldl (fun s op => (step s op).st) {}

end RGB
end Reduino.Host
