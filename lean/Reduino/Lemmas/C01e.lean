import Reduino.Lang.Render
import Reduino.Lang.InF
import Reduino.Lemmas.C01d
/- C01 helpers, part e: lock-step simulation of nested statements (W6: the frame of a call — `evalArgs_sim`, `Rel_setAll`, `funDecls_prefix`) -/
namespace Reduino.Lemmas.C01
open Reduino.Lang

/-- related machine states: same trace, same flow, related stores -/
structure StRel (te : C.TyEnv) (stp stc : Py.St) : Prop where
  tr : stc.trace = stp.trace
  fl : stc.flow = stp.flow
  rel : Rel te stp.store stc.store

/-- outcome of the C side: a state related to Python's, or tracked undefined behaviour (`UB`) -/
def Sim1 (te : C.TyEnv) (stp' : Py.St) (r : Except Err Py.St) : Prop :=
  (∃ stc', r = .ok stc' ∧ StRel te stp' stc') ∨ UB r

theorem cond_sim {te : C.TyEnv} {sp sc : Store} (hrel : Rel te sp sc) {c : Expr} {v : Val}
    (hwt : c.wt te = true) (hpy : Py.eval sp c = .ok v) :
    (∃ cv, C.eval te sc c = .ok cv ∧ cv.truthy = v.truthy) ∨ UB (C.eval te sc c) := by
  rcases expr_sim te sp sc hrel c v hwt hpy with h | h
  · left; exact ⟨_, h, conv_truthy _ _ (typed_val te sp sc hrel c v hwt hpy)⟩
  · right; exact h

/-- the line the sketch prints for a written value is the one Python prints (bools are outside) -/
theorem write_text {t : Ty} {v : Val} {ev : Ev} (hty : t.holds v = true) (hnb : t ≠ .bool) (hev : Py.writeEv v = .ok ev) :
    Ev.write (C.conv t v).text = ev := by
  cases t <;> cases v <;> simp_all [Ty.holds, Py.writeEv, C.conv, Val.text, Val.toInt] <;> (cases hev; rfl)

theorem assign_sim {te : C.TyEnv} {stp stc : Py.St} (h : StRel te stp stc) {x : String} {e : Expr} {v : Val}
    (hwt : e.wt te = true) (hx : te.lookup x = some (inferTy te e)) (hpy : Py.eval stp.store e = .ok v) (f : Nat) :
    Sim1 te { stp with store := stp.store.set x v } (C.exec te (f+1) (.assign x e) stc) := by
  rw [C.exec]
  rcases expr_sim te _ _ h.rel e v hwt hpy with hc | hc
  · rw [hc, ok_bind]
    have : C.assignTo te stc.store x (C.conv (inferTy te e) v)
        = .ok (stc.store.set x (C.conv (inferTy te e) v)) := by
      unfold C.assignTo; rw [hx]; dsimp only; rw [conv_idem]
    rw [this, ok_bind]
    left
    exact ⟨_, rfl, ⟨h.tr, h.fl, Rel_set_both h.rel v hx (typed_val te _ _ h.rel e v hwt hpy)⟩⟩
  · right; exact ub_bind _ hc

/-! ### W6: the frame of a call -/

/-- the arguments converted to the parameter types -/
def convAll : List (String × Ty) → List Val → List Val
  | p :: ps, v :: vs => C.conv p.2 v :: convAll ps vs
  | _, _ => []

/-- each argument value is one its parameter's type admits -/
def HoldsAll : List (String × Ty) → List Val → Prop
  | [], [] => True
  | p :: ps, v :: vs => p.2.holds v = true ∧ HoldsAll ps vs
  | _, _ => False

theorem lookup_append_of_some' {β : Type} {l1 : List (String × β)} (l2 : List (String × β)) {k : String} {v : β}
    (h : l1.lookup k = some v) : (l1 ++ l2).lookup k = some v := by
  rw [List.lookup_append, h]; rfl

theorem evalArgs_sim (te : C.TyEnv) (sp sc : Store) (hrel : Rel te sp sc) :
    ∀ (ps : List (String × Ty)) (es : List Expr) (vs : List Val),
      (∀ e ∈ es, e.wt te = true) → es.map (inferTy te) = ps.map (·.2) → Py.evalList sp es = .ok vs →
      (C.evalArgs te sc .strict ps es = .ok (convAll ps vs) ∧ HoldsAll ps vs) ∨ UB (C.evalArgs te sc .strict ps es)
  | [], [], vs, _, _, h => by
    simp only [Py.evalList] at h; cases h
    left; exact ⟨rfl, trivial⟩
  | [], _ :: _, _, _, hty, _ => by simp at hty
  | _ :: _, [], _, _, hty, _ => by simp at hty
  | p :: ps, e :: es, vs, hwt, hty, h => by
    rw [Py.evalList] at h
    obtain ⟨v, hv, h⟩ := bind_ok h
    obtain ⟨vs', hvs, h⟩ := bind_ok h
    cases h
    simp only [List.map_cons, List.cons.injEq] at hty
    have hwe := hwt e (List.mem_cons_self ..)
    rw [C.evalArgs]
    rcases expr_sim te sp sc hrel e v hwe hv with hc | hc
    · rw [hc, ok_bind]
      rcases evalArgs_sim te sp sc hrel ps es vs' (fun e' he' => hwt e' (List.mem_cons_of_mem _ he')) hty.2 hvs with ⟨hr, hh⟩ | hr
      · rw [hr, ok_bind]
        left
        refine ⟨?_, ?_, hh⟩
        · show Except.ok _ = Except.ok _
          rw [convAll, ← hty.1, conv_idem]
        · rw [← hty.1]; exact typed_val te sp sc hrel e v hwe hv
      · right; exact ub_bind _ hr
    · right; exact ub_bind _ hc

theorem Rel_setAll {te : C.TyEnv} : ∀ (ps : List (String × Ty)) (vs : List Val) (sp sc : Store), Rel te sp sc →
    (∀ p ∈ ps, te.lookup p.1 = some p.2) → HoldsAll ps vs →
    Rel te (sp.setAll (ps.map (·.1)) vs) (sc.setAll (ps.map (·.1)) (convAll ps vs))
  | [], [], _, _, h, _, _ => by simpa [Store.setAll] using h
  | [], _ :: _, _, _, _, _, hh => by cases hh
  | _ :: _, [], _, _, _, _, hh => by cases hh
  | p :: ps, v :: vs, sp, sc, h, hl, hh => by
    simp only [List.map_cons, Store.setAll, convAll]
    exact Rel_setAll ps vs _ _ (Rel_set_both h v (hl p (List.mem_cons_self ..)) hh.1)
      (fun q hq => hl q (List.mem_cons_of_mem _ hq)) hh.2

theorem funDecls_prefix (s : Stmt) : ∀ (te te' : C.TyEnv), funDecls te s = some te' → ∃ l, te' = te ++ l := by
  induction s with
  | seq a b iha ihb =>
    intro te te' h
    simp only [funDecls] at h
    cases ha : funDecls te a with
    | none => rw [ha] at h; cases h
    | some te1 =>
      rw [ha] at h
      obtain ⟨l1, rfl⟩ := iha te te1 ha
      obtain ⟨l2, rfl⟩ := ihb _ te' h
      exact ⟨l1 ++ l2, by rw [List.append_assoc]⟩
  | assign x e =>
    intro te te' h
    simp only [funDecls] at h
    split at h
    · cases h; exact ⟨[], by simp⟩
    · cases h; exact ⟨_, rfl⟩
  | skip => intro te te' h; simp only [funDecls] at h; cases h; exact ⟨[], by simp⟩
  | _ =>
    intro te te' h
    simp only [funDecls] at h
    split at h
    · cases h; exact ⟨[], by simp⟩
    · cases h

theorem lookup_of_nodup {β : Type} : ∀ (l : List (String × β)), (l.map (·.1)).Nodup → ∀ p ∈ l, l.lookup p.1 = some p.2
  | [], _, p, hp => by cases hp
  | q :: l, hn, p, hp => by
    simp only [List.map_cons, List.nodup_cons] at hn
    rcases List.mem_cons.1 hp with rfl | hp
    · exact lookup_cons_eq _ _ _
    · have hne : p.1 ≠ q.1 := by
        rintro he; exact hn.1 (he ▸ List.mem_map_of_mem hp)
      rw [show (q :: l) = ((q.1, q.2) :: l) from rfl, lookup_cons_ne _ _ hne]
      exact lookup_of_nodup l hn.2 p hp

theorem sim (all : List String) (f : Nat) :
    (∀ te m d s s' stp stc stp', s.okNested all te = true → (∀ x ∈ s.assigned, x ∈ all) →
        trNested te m d s = .ok s' → StRel te stp stc → Py.exec f s stp = .ok stp' →
        Sim1 te stp' (C.exec te f s' stc)) ∧
    (∀ te m d i n b b' stp stc stp' nvI k, n.wt te = true → i ∉ all → te.lookup i = none →
        (∀ v ∈ n.vars, v ∉ b.assigned) → b.okNested all ((i, .int) :: te) = true → (∀ x ∈ b.assigned, x ∈ all) →
        trNested ((i, .int) :: te) m d b = .ok b' → StRel te stp stc → stc.store.get i = some (.int k) →
        ((∃ cv, C.eval ((i, .int) :: te) stc.store (foldArg n) = .ok cv ∧ cv.toInt = nvI) ∨
          UB (C.eval ((i, .int) :: te) stc.store (foldArg n))) →
        Py.exec.forLoop f i nvI k b stp = .ok stp' →
        Sim1 te stp' (C.exec.forLoop ((i, .int) :: te) f i (foldArg n) b' stc)) := by
  induction f with
  | zero =>
    constructor
    · intro te m d s s' stp stc stp' _ _ _ _ h; rw [Py.exec] at h; cases h
    · intro te m d i n b b' stp stc stp' nvI k _ _ _ _ _ _ _ _ _ _ h; rw [Py.exec.forLoop] at h; cases h
  | succ f ih =>
    obtain ⟨ihe, ihf⟩ := ih
    constructor
    · intro te m d s s' stp stc stp' hok hall htr hst hpy
      cases s with
      | skip =>
        rw [trNested] at htr; cases htr
        rw [Py.exec] at hpy; cases hpy
        rw [C.exec]; left; exact ⟨_, rfl, hst⟩
      | seq a b =>
        rw [trNested] at htr
        obtain ⟨a', ha, htr⟩ := bind_ok htr
        obtain ⟨b', hb, htr⟩ := bind_ok htr
        cases htr
        simp only [Stmt.okNested, Bool.and_eq_true] at hok
        simp only [Stmt.assigned, List.mem_append] at hall
        rw [Py.exec] at hpy
        obtain ⟨st1, h1, hpy⟩ := bind_ok hpy
        rw [C.exec]
        rcases ihe te m d a a' stp stc st1 hok.1 (fun x hx => hall x (.inl hx)) ha hst h1 with ⟨st1c, hc, hr⟩ | hc
        · rw [hc, ok_bind]
          rw [hr.fl]
          split at hpy
          · rename_i hbr
            rw [if_pos hbr]; cases hpy
            left; exact ⟨_, rfl, hr⟩
          · rename_i hbr
            rw [if_neg hbr]
            exact ihe te m d b b' st1 st1c stp' hok.2 (fun x hx => hall x (.inr hx)) hb hr hpy
        · right; exact ub_bind _ hc
      | assign x e =>
        rw [trNested] at htr
        split at htr
        · cases htr
          simp only [Stmt.okNested, Bool.and_eq_true, beq_iff_eq] at hok
          rw [Py.exec] at hpy
          obtain ⟨v, hv, hpy⟩ := bind_ok hpy
          cases hpy
          exact assign_sim hst hok.1 hok.2 hv f
        · cases htr
      | aug x op e =>
        rw [trNested] at htr
        split at htr
        · cases htr
          simp only [Stmt.okNested, Bool.and_eq_true, beq_iff_eq] at hok
          rw [Py.exec] at hpy
          obtain ⟨cur, hcur, hpy⟩ := bind_ok hpy
          obtain ⟨v, hv, hpy⟩ := bind_ok hpy
          obtain ⟨r, hr, hpy⟩ := bind_ok hpy
          cases hpy
          have hpy' : Py.eval stp.store (.bin op (.var x) e) = .ok r := by
            rw [Py.eval, hcur, ok_bind, hv, ok_bind]; exact hr
          exact assign_sim hst hok.1 hok.2 hpy' f
        · cases htr
      | tuple k xs es =>
        rw [trNested] at htr
        split at htr
        · cases htr
          simp only [Stmt.okNested, Bool.and_eq_true, beq_iff_eq, decide_eq_true_eq, List.all_eq_true] at hok
          obtain ⟨⟨⟨⟨⟨_, hlen⟩, hwt⟩, htg⟩, _⟩, hte⟩ := hok
          have htmp : ∀ j, te.lookup (tmpName j) = none :=
            lookup_tmp_none (List.all_eq_true.mpr hte)
          rw [Py.exec] at hpy
          obtain ⟨vs, hvs, hpy⟩ := bind_ok hpy
          rw [if_pos hlen] at hpy
          · cases hpy
            rw [C.exec]
            simp only [tmp_guard htmp, List.length_map, Bool.false_eq_true, if_false, hlen, ne_eq, not_true_eq_false]
            rcases declTemps_sim te stp.store es vs k te stc.store (fun _ _ h => h) (fun j _ => htmp j) hst.rel hwt hvs
              with ⟨sc1, hd, hfr, hheld⟩ | hd
            · rw [hd, ok_bind]
              have hrel1 : Rel te stp.store sc1 := by
                refine Rel_agree hst.rel (fun y t hy => hfr y (fun j _ hyj => ?_))
                rw [hyj, htmp j] at hy; cases hy
              obtain ⟨sc2, ha, hr, _⟩ := assignTemps_sim te htmp xs es vs k stp.store sc1 htg hlen hheld hrel1
              rw [ha, ok_bind]
              left
              refine ⟨_, rfl, ⟨hst.tr, hst.fl, ?_⟩⟩
              refine Rel_agree hr (fun y t hy => dropTemps_other _ y _ _ _ (fun j _ _ hyj => ?_))
              rw [hyj, htmp j] at hy; cases hy
            · right; exact ub_bind _ hd
        · cases htr
      | ctuple k ts xs es => rw [trNested] at htr; cases htr
      | ifs c a b =>
        rw [trNested] at htr
        obtain ⟨a', ha, htr⟩ := bind_ok htr
        obtain ⟨b', hb, htr⟩ := bind_ok htr
        cases htr
        simp only [Stmt.okNested, Bool.and_eq_true] at hok
        simp only [Stmt.assigned, List.mem_append] at hall
        rw [Py.exec] at hpy
        obtain ⟨v, hv, hpy⟩ := bind_ok hpy
        rw [C.exec]
        rcases cond_sim hst.rel (okCond_wt hok.1.1) hv with ⟨cv, hc, hcv⟩ | hc
        · rw [hc, ok_bind]
          rw [hcv]
          split at hpy
          · rename_i hbr
            rw [if_pos hbr]
            exact ihe te m d a a' stp stc stp' hok.1.2 (fun x hx => hall x (.inl hx)) ha hst hpy
          · rename_i hbr
            rw [if_neg hbr]
            exact ihe te m d b b' stp stc stp' hok.2 (fun x hx => hall x (.inr hx)) hb hst hpy
        · right; exact ub_bind _ hc
      | whileLoop c b =>
        have htr0 := htr
        rw [trNested] at htr
        obtain ⟨b', hb, htr⟩ := bind_ok htr
        cases htr
        have hok0 := hok
        simp only [Stmt.okNested, Bool.and_eq_true] at hok
        have hall0 := hall
        simp only [Stmt.assigned] at hall
        rw [Py.exec] at hpy
        obtain ⟨v, hv, hpy⟩ := bind_ok hpy
        rw [C.exec]
        rcases cond_sim hst.rel (okCond_wt hok.1) hv with ⟨cv, hc, hcv⟩ | hc
        · rw [hc, ok_bind]
          rw [hcv]
          split at hpy
          · rename_i hbr
            rw [if_pos hbr]
            obtain ⟨st1, h1, hpy⟩ := bind_ok hpy
            rcases ihe te m (d+1) b b' stp stc st1 hok.2 hall hb hst h1 with ⟨st1c, hc1, hr⟩ | hc1
            · rw [hc1, ok_bind]
              rw [hr.fl]
              split at hpy
              · rename_i hbr1
                rw [if_pos hbr1]; cases hpy
                left; exact ⟨_, rfl, ⟨hr.tr, rfl, hr.rel⟩⟩
              · rename_i hbr1
                rw [if_neg hbr1]
                exact ihe te m d _ _ st1 st1c stp' hok0 hall0 htr0 hr hpy
            · right; exact ub_bind _ hc1
          · rename_i hbr
            rw [if_neg hbr]; cases hpy
            left; exact ⟨_, rfl, hst⟩
        · right; exact ub_bind _ hc
      | forRange i n b =>
        rw [trNested] at htr
        split at htr
        · cases htr
        · rename_i hni
          obtain ⟨b', hb, htr⟩ := bind_ok htr
          cases htr
          simp only [Stmt.okNested, Bool.and_eq_true, Bool.not_eq_true', List.contains_eq_mem,
            decide_eq_false_iff_not, Option.isNone_iff_eq_none, List.all_eq_true] at hok
          obtain ⟨⟨⟨⟨hnc, hiall⟩, hi⟩, hnv⟩, hbok⟩ := hok
          have hnwt := okCond_wt hnc
          simp only [Stmt.assigned] at hall
          rw [Py.exec] at hpy
          obtain ⟨nv, hnvv, hpy⟩ := bind_ok hpy
          obtain ⟨kk, hkk, hpy⟩ := bind_ok hpy
          obtain ⟨rfl, _⟩ := num_ok hkk
          rw [C.exec]
          -- the state in which the C loop starts
          have hst0 : StRel te stp { stc with store := stc.store.set i (.int 0) } :=
            ⟨hst.tr, hst.fl, Rel_c_out hst.rel hi (fun y hy => get_set_ne _ _ hy)⟩
          have hinv : ∀ x ∈ n.vars, x ≠ i := by
            intro x hx hxi; subst hxi
            have := wt_vars te n hnwt x hx
            rw [hi] at this; cases this
          have hlim : (∃ cv, C.eval ((i, .int) :: te) (stc.store.set i (.int 0)) (foldArg n) = .ok cv ∧
                cv.toInt = nv.toInt) ∨
              UB (C.eval ((i, .int) :: te) (stc.store.set i (.int 0)) (foldArg n)) := by
            have hrel' : Rel ((i, .int) :: te) (stp.store.set i (.int 0)) (stc.store.set i (.int 0)) :=
              Rel_cons (Rel_set_py_out hst0.rel _ hi) 0 (get_set_eq _ _ _) (get_set_eq _ _ _)
            refine foldArg_sim _ _ _ hrel' n nv (wt_sub (Sub_cons _ hi) n hnwt).1 ?_
            rw [← hnvv]
            exact Py_eval_congr _ _ n (fun x hx => get_set_ne _ _ (hinv x hx))
          rcases ihf te m (d+1) i n b b' stp _ stp' nv.toInt 0 hnwt hiall hi
              (fun v hv => by simpa using hnv v hv) hbok hall hb hst0 (get_set_eq _ _ _) hlim hpy
            with ⟨st1c, hc1, hr⟩ | hc1
          · rw [hc1, ok_bind]
            left
            refine ⟨_, rfl, ⟨hr.tr, hr.fl, ?_⟩⟩
            refine Rel_c_out hr.rel hi ?_
            intro y hy
            show Store.get (match stc.store.get i with
              | some v => st1c.store.set i v
              | none => st1c.store.filter (·.1 ≠ i)) y = _
            cases stc.store.get i with
            | some v => exact get_set_ne _ _ hy
            | none => exact get_filter_ne _ hy
          · right; exact ub_bind _ hc1
      | write e =>
        rw [trNested] at htr; cases htr
        simp only [Stmt.okNested, Bool.and_eq_true, beq_iff_eq] at hok
        rw [Py.exec] at hpy
        obtain ⟨v, hv, hpy⟩ := bind_ok hpy
        obtain ⟨ev, hev, hpy⟩ := bind_ok hpy
        cases hpy
        rw [C.exec]
        rcases expr_sim te _ _ hst.rel e v hok.1 hv with hc | hc
        · rw [hc, ok_bind]
          left
          refine ⟨_, rfl, ⟨?_, hst.fl, hst.rel⟩⟩
          have hty := typed_val te _ _ hst.rel e v hok.1 hv
          show Ev.write (C.conv (inferTy te e) v).text :: stc.trace = _
          rw [hst.tr, write_text hty (by simpa using hok.2) hev]
        · right; exact ub_bind _ hc
      | sleep e =>
        rw [trNested] at htr; cases htr
        simp only [Stmt.okNested] at hok
        rw [Py.exec] at hpy
        obtain ⟨v, hv, hpy⟩ := bind_ok hpy
        obtain ⟨ms, hms, hpy⟩ := bind_ok hpy
        obtain ⟨rfl, _⟩ := num_ok hms
        rw [C.exec]
        rcases foldArg_sim te _ _ hst.rel e v (okCond_wt hok) hv with ⟨cv, hc, hcv⟩ | hc
        · rw [hc, ok_bind]
          rw [hcv]
          split at hpy
          · cases hpy
          · rename_i hneg
            rw [if_neg hneg]; cases hpy
            left
            exact ⟨_, rfl, ⟨by show _ :: stc.trace = _ :: stp.trace; rw [hst.tr], hst.fl, hst.rel⟩⟩
        · right; exact ub_bind _ hc
      | brk =>
        rw [trNested] at htr
        split at htr
        · cases htr
        · cases htr
          rw [Py.exec] at hpy; cases hpy
          rw [C.exec]; left
          exact ⟨_, rfl, ⟨hst.tr, rfl, hst.rel⟩⟩
      | call y g ps ls rt body ret args =>
        cases ret with
        | none =>
          cases y with
          | none =>
            simp only [Stmt.okNested, Bool.and_eq_true, beq_iff_eq, List.all_eq_true] at hok
            obtain ⟨⟨⟨hwt, hty⟩, hshape⟩, hbody⟩ := hok
            rw [trNested, if_pos hshape] at htr
            cases hfd : funDecls ps body with
            | none => rw [hfd] at hbody; cases hbody
            | some te' =>
              rw [hfd] at htr hbody
              simp only [Bool.and_eq_true, List.all_eq_true] at htr hbody
              obtain ⟨⟨hbok, hball⟩, hretok⟩ := hbody
              obtain ⟨body', hb', htr⟩ := bind_ok htr
              split at htr
              · cases htr
                obtain ⟨l, hl⟩ := funDecls_prefix body ps te' hfd
                have hte' : ps ++ te'.drop ps.length = te' := by rw [hl, List.drop_left]
                have hnd : (ps.map (·.1)).Nodup := by
                  simp only [funShapeOk, Bool.and_eq_true, decide_eq_true_eq] at hshape; exact hshape.2
                have hlk : ∀ p ∈ ps, te'.lookup p.1 = some p.2 := fun p hp => by
                  rw [hl]; exact lookup_append_of_some' l (lookup_of_nodup ps hnd p hp)
                rw [Py.exec] at hpy
                obtain ⟨vs, hvs, hpy⟩ := bind_ok hpy
                split at hpy
                · cases hpy
                · obtain ⟨st1, h1, hpy⟩ := bind_ok hpy
                  split at hpy
                  · cases hpy
                  · rename_i hnb
                    rw [C.exec]
                    rcases evalArgs_sim te _ _ hst.rel ps args vs hwt hty hvs with ⟨hc, hh⟩ | hc
                    · rw [hc, ok_bind, hte']
                      have hrel0 : StRel te' { store := Store.setAll [] (ps.map (·.1)) vs, trace := stp.trace }
                          { store := Store.setAll [] (ps.map (·.1)) (convAll ps vs), trace := stc.trace } :=
                        ⟨hst.tr, rfl, Rel_setAll ps vs [] [] (Rel_nil _ _) hlk hh⟩
                      rcases ihe te' false 0 body body' _ _ st1 hbok
                          (fun x hx => by simpa using hball x hx) hb' hrel0 h1 with ⟨stc1, hc1, hr1⟩ | hc1
                      · rw [hc1, ok_bind, if_neg (by rw [hr1.fl]; exact hnb)]
                        simp only [pure, Except.pure, Except.ok.injEq] at hpy
                        subst hpy
                        left
                        exact ⟨_, rfl, ⟨hr1.tr, hst.fl, hst.rel⟩⟩
                      · right; exact ub_bind _ hc1
                    · right; exact ub_bind _ hc
              · cases htr
          | some y =>
            simp only [Stmt.okNested, Bool.and_eq_true] at hok
            obtain ⟨_, hbody⟩ := hok
            cases hfd : funDecls ps body with
            | none => rw [hfd] at hbody; cases hbody
            | some te' => rw [hfd] at hbody; simp [callRetOk] at hbody
        | some e =>
          cases y with
          | none =>
            simp only [Stmt.okNested, Bool.and_eq_true, beq_iff_eq, List.all_eq_true] at hok
            obtain ⟨⟨⟨hwt, hty⟩, hshape⟩, hbody⟩ := hok
            rw [trNested, if_pos hshape] at htr
            cases hfd : funDecls ps body with
            | none => rw [hfd] at hbody; cases hbody
            | some te' =>
              rw [hfd] at htr hbody
              simp only [Bool.and_eq_true, List.all_eq_true] at htr hbody
              obtain ⟨⟨hbok, hball⟩, hretok⟩ := hbody
              obtain ⟨body', hb', htr⟩ := bind_ok htr
              split at htr
              · cases htr
                obtain ⟨l, hl⟩ := funDecls_prefix body ps te' hfd
                have hte' : ps ++ te'.drop ps.length = te' := by rw [hl, List.drop_left]
                have hnd : (ps.map (·.1)).Nodup := by
                  simp only [funShapeOk, Bool.and_eq_true, decide_eq_true_eq] at hshape; exact hshape.2
                have hlk : ∀ p ∈ ps, te'.lookup p.1 = some p.2 := fun p hp => by
                  rw [hl]; exact lookup_append_of_some' l (lookup_of_nodup ps hnd p hp)
                rw [Py.exec] at hpy
                obtain ⟨vs, hvs, hpy⟩ := bind_ok hpy
                split at hpy
                · cases hpy
                · obtain ⟨st1, h1, hpy⟩ := bind_ok hpy
                  split at hpy
                  · cases hpy
                  · rename_i hnb
                    rw [C.exec]
                    rcases evalArgs_sim te _ _ hst.rel ps args vs hwt hty hvs with ⟨hc, hh⟩ | hc
                    · rw [hc, ok_bind, hte']
                      have hrel0 : StRel te' { store := Store.setAll [] (ps.map (·.1)) vs, trace := stp.trace }
                          { store := Store.setAll [] (ps.map (·.1)) (convAll ps vs), trace := stc.trace } :=
                        ⟨hst.tr, rfl, Rel_setAll ps vs [] [] (Rel_nil _ _) hlk hh⟩
                      rcases ihe te' false 0 body body' _ _ st1 hbok
                          (fun x hx => by simpa using hball x hx) hb' hrel0 h1 with ⟨stc1, hc1, hr1⟩ | hc1
                      · rw [hc1, ok_bind, if_neg (by rw [hr1.fl]; exact hnb)]
                        simp only [callRetOk] at hretok
                        dsimp only at hpy ⊢
                        obtain ⟨v, hv, hpy⟩ := bind_ok hpy
                        cases hpy
                        rcases expr_sim te' _ _ hr1.rel e v hretok hv with hce | hce
                        · rw [hce, ok_bind]
                          left
                          exact ⟨_, rfl, ⟨hr1.tr, hst.fl, hst.rel⟩⟩
                        · right; exact ub_bind _ hce
                      · right; exact ub_bind _ hc1
                    · right; exact ub_bind _ hc
              · cases htr
          | some y =>
            simp only [Stmt.okNested, Bool.and_eq_true, beq_iff_eq, List.all_eq_true] at hok
            obtain ⟨⟨⟨hwt, hty⟩, hshape⟩, hbody⟩ := hok
            rw [trNested, if_pos hshape] at htr
            cases hfd : funDecls ps body with
            | none => rw [hfd] at hbody; cases hbody
            | some te' =>
              rw [hfd] at htr hbody
              simp only [Bool.and_eq_true, List.all_eq_true] at htr hbody
              obtain ⟨⟨hbok, hball⟩, hretok⟩ := hbody
              obtain ⟨body', hb', htr⟩ := bind_ok htr
              split at htr
              · cases htr
                obtain ⟨l, hl⟩ := funDecls_prefix body ps te' hfd
                have hte' : ps ++ te'.drop ps.length = te' := by rw [hl, List.drop_left]
                have hnd : (ps.map (·.1)).Nodup := by
                  simp only [funShapeOk, Bool.and_eq_true, decide_eq_true_eq] at hshape; exact hshape.2
                have hlk : ∀ p ∈ ps, te'.lookup p.1 = some p.2 := fun p hp => by
                  rw [hl]; exact lookup_append_of_some' l (lookup_of_nodup ps hnd p hp)
                rw [Py.exec] at hpy
                obtain ⟨vs, hvs, hpy⟩ := bind_ok hpy
                split at hpy
                · cases hpy
                · obtain ⟨st1, h1, hpy⟩ := bind_ok hpy
                  split at hpy
                  · cases hpy
                  · rename_i hnb
                    rw [C.exec]
                    rcases evalArgs_sim te _ _ hst.rel ps args vs hwt hty hvs with ⟨hc, hh⟩ | hc
                    · rw [hc, ok_bind, hte']
                      have hrel0 : StRel te' { store := Store.setAll [] (ps.map (·.1)) vs, trace := stp.trace }
                          { store := Store.setAll [] (ps.map (·.1)) (convAll ps vs), trace := stc.trace } :=
                        ⟨hst.tr, rfl, Rel_setAll ps vs [] [] (Rel_nil _ _) hlk hh⟩
                      rcases ihe te' false 0 body body' _ _ st1 hbok
                          (fun x hx => by simpa using hball x hx) hb' hrel0 h1 with ⟨stc1, hc1, hr1⟩ | hc1
                      · rw [hc1, ok_bind, if_neg (by rw [hr1.fl]; exact hnb)]
                        simp only [callRetOk, Bool.and_eq_true, beq_iff_eq] at hretok
                        dsimp only at hpy ⊢
                        obtain ⟨v, hv, hpy⟩ := bind_ok hpy
                        cases hpy
                        rcases expr_sim te' _ _ hr1.rel e v hretok.1 hv with hce | hce
                        · rw [hce, ok_bind]
                          have hasg : C.assignTo te stc.store y (C.conv (retTy te' (some e)) (C.conv (inferTy te' e) v))
                              = .ok (stc.store.set y (C.conv (inferTy te' e) v)) := by
                            unfold C.assignTo; rw [hretok.2]; dsimp only [retTy]; rw [conv_idem, conv_idem]
                          rw [hasg, ok_bind]
                          left
                          exact ⟨_, rfl, ⟨hr1.tr, hst.fl, Rel_set_both hst.rel v hretok.2 (typed_val te' _ _ hr1.rel e v hretok.1 hv)⟩⟩
                        · right; exact ub_bind _ hce
                      · right; exact ub_bind _ hc1
                    · right; exact ub_bind _ hc
              · cases htr
    · intro te m d i n b b' stp stc stp' nvI k hnwt hiall hi hnv hbok hall hb hst hci hlim hpy
      rw [Py.exec.forLoop] at hpy
      rw [C.exec.forLoop]
      have hiv : C.eval ((i, .int) :: te) stc.store (.var i) = .ok (.int k) := by
        simp only [C.eval, hci]
      rw [hiv, ok_bind]
      rcases hlim with ⟨cv, hcv, hcvI⟩ | hc
      · rw [hcv, ok_bind]
        rw [hcvI]
        simp only [show (Val.int k).toInt = k from rfl]
        split at hpy
        · rename_i hlt
          rw [if_pos hlt]
          obtain ⟨st1, h1, hpy⟩ := bind_ok hpy
          have hst' : StRel ((i, .int) :: te) { stp with store := stp.store.set i (.int k) } stc :=
            ⟨hst.tr, hst.fl, Rel_cons (Rel_set_py_out hst.rel _ hi) k (get_set_eq _ _ _) hci⟩
          rcases ihe _ m d b b' _ stc st1 hbok hall hb hst' h1 with ⟨st1c, hc1, hr⟩ | hc1
          · rw [hc1, ok_bind]
            rw [hr.fl]
            split at hpy
            · rename_i hbr
              rw [if_pos hbr]; cases hpy
              left; exact ⟨_, rfl, ⟨hr.tr, rfl, Rel_of_cons hr.rel hi⟩⟩
            · rename_i hbr
              rw [if_neg hbr]
              have hib' : i ∉ b'.assigned := by
                rw [trNested_assigned hb]; exact fun h => hiall (hall i h)
              have hfr := (C_frame f).1 _ _ _ _ hc1
              have hci1 : st1c.store.get i = some (.int k) := by rw [hfr i hib', hci]
              have hiv1 : C.eval ((i, .int) :: te) st1c.store (.var i) = .ok (.int k) := by
                simp only [C.eval, hci1]
              rw [hiv1, ok_bind]
              simp only [show (Val.int k).toInt = k from rfl]
              rcases chk_cases (k + 1) with hk | hk
              · rw [hk, ok_bind]
                refine ihf te m d i n b b' st1 _ stp' nvI (k+1) hnwt hiall hi hnv hbok hall hb
                  ⟨hr.tr, rfl, Rel_c_out (Rel_of_cons hr.rel hi) hi (fun y hy => get_set_ne _ _ hy)⟩
                  (get_set_eq _ _ _) ?_ hpy
                have hcongr : C.eval ((i, .int) :: te) (st1c.store.set i (.int (k+1))) (foldArg n)
                    = C.eval ((i, .int) :: te) stc.store (foldArg n) := by
                  apply C_eval_congr
                  intro x hx
                  have hxn := foldArg_vars n x hx
                  have hxi : x ≠ i := by
                    rintro rfl
                    have := wt_vars te n hnwt x hxn
                    rw [hi] at this; cases this
                  show Store.get (st1c.store.set i _) x = _
                  rw [get_set_ne _ _ hxi]
                  exact hfr x (by rw [trNested_assigned hb]; exact hnv x hxn)
                rw [hcongr]
                left; exact ⟨cv, hcv, hcvI⟩
              · right; exact ub_bind _ hk
          · right; exact ub_bind _ hc1
        · rename_i hlt
          rw [if_neg hlt]; cases hpy
          left; exact ⟨_, rfl, hst⟩
      · right; exact ub_bind _ hc

end Reduino.Lemmas.C01
