import Reduino.Lang.Render
import Reduino.Lang.InF
/- helper lemmas for Props/C01.lean (individual Mathlib modules may be imported here) -/
namespace Reduino.Lemmas.C01
end Reduino.Lemmas.C01
