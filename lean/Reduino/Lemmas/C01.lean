import Reduino.Lang.Render
import Reduino.Lang.InF
import Reduino.Lemmas.C01a
import Reduino.Lemmas.C01b
import Reduino.Lemmas.C01c
import Reduino.Lemmas.C01d
import Reduino.Lemmas.C01e
import Reduino.Lemmas.C01f
import Reduino.Lemmas.C01g
import Reduino.Lemmas.C01h
import Reduino.Lemmas.C01i
import Reduino.Lemmas.C01r
/- helper lemmas for Props/C01.lean (individual Mathlib modules may be imported here) -/
namespace Reduino.Lemmas.C01
end Reduino.Lemmas.C01
