import Reduino.Lang.Render
import Reduino.Lang.InF
import Reduino.Lemmas.C01b
/- C01 helpers, part r: the two readings of the C semantics — a strict run that succeeds is a raw run with the same result -/
namespace Reduino.Lemmas.C01
open Reduino.Lang

theorem binop_strict_raw {op : BinOp} {a b : Int} {v : Val} (h : C.binop op a b = .ok v) :
    C.binop op a b .raw = .ok v := by
  unfold C.binop at h ⊢
  by_cases hd : op.isDiv = true
  · rw [if_pos hd] at h ⊢
    by_cases hb : b = 0
    · rw [if_pos hb] at h; cases h
    · rw [if_neg hb] at h ⊢
      by_cases hs : a < 0 ∨ b < 0
      · rw [if_pos ⟨rfl, hs⟩] at h; cases h
      · rw [if_neg (fun h => hs h.2)] at h
        rw [if_neg (fun h => by cases h.1)]
        exact h
  · rw [if_neg hd] at h ⊢; exact h

theorem binopV_strict_raw {op : BinOp} {x y v : Val} (h : C.binopV op x y = .ok v) : C.binopV op x y .raw = .ok v := by
  cases x <;> cases y <;> simp only [C.binopV] at h ⊢ <;> first | exact binop_strict_raw h | exact h

theorem eval_strict_raw (te : C.TyEnv) (s : Store) (e : Expr) :
    ∀ v, C.eval te s e = .ok v → C.eval te s e .raw = .ok v := by
  induction e with
  | int n => intro v h; rw [C.eval] at h ⊢; exact h
  | bool b => intro v h; rw [C.eval] at h ⊢; exact h
  | str t => intro v h; rw [C.eval] at h ⊢; exact h
  | var x => intro v h; rw [C.eval] at h ⊢; exact h
  | bin op a b iha ihb =>
    intro v h
    rw [C.eval] at h ⊢
    obtain ⟨x, hx, h⟩ := bind_ok h
    obtain ⟨y, hy, h⟩ := bind_ok h
    rw [iha x hx, ok_bind, ihb y hy, ok_bind]
    exact binopV_strict_raw h
  | neg a iha =>
    intro v h
    rw [C.eval] at h ⊢
    obtain ⟨x, hx, h⟩ := bind_ok h
    rw [iha x hx, ok_bind]; exact h
  | cmp op a b iha ihb =>
    intro v h
    rw [C.eval] at h ⊢
    obtain ⟨x, hx, h⟩ := bind_ok h
    obtain ⟨y, hy, h⟩ := bind_ok h
    rw [iha x hx, ok_bind, ihb y hy, ok_bind]; exact h
  | and a b iha ihb =>
    intro v h
    rw [C.eval] at h ⊢
    obtain ⟨x, hx, h⟩ := bind_ok h
    rw [iha x hx, ok_bind]
    by_cases ht : x.truthy = true
    · rw [if_pos ht] at h ⊢
      obtain ⟨y, hy, h⟩ := bind_ok h
      rw [ihb y hy, ok_bind]; exact h
    · rw [if_neg ht] at h ⊢; exact h
  | or a b iha ihb =>
    intro v h
    rw [C.eval] at h ⊢
    obtain ⟨x, hx, h⟩ := bind_ok h
    rw [iha x hx, ok_bind]
    by_cases ht : x.truthy = true
    · rw [if_pos ht] at h ⊢; exact h
    · rw [if_neg ht] at h ⊢
      obtain ⟨y, hy, h⟩ := bind_ok h
      rw [ihb y hy, ok_bind]; exact h
  | not a iha =>
    intro v h
    rw [C.eval] at h ⊢
    obtain ⟨x, hx, h⟩ := bind_ok h
    rw [iha x hx, ok_bind]; exact h
  | ite c a b ihc iha ihb =>
    intro v h
    rw [C.eval] at h ⊢
    obtain ⟨x, hx, h⟩ := bind_ok h
    rw [ihc x hx, ok_bind]
    dsimp only at h ⊢
    by_cases ht : x.truthy = true
    · rw [if_pos ht] at h ⊢
      obtain ⟨w, hw, h⟩ := bind_ok h
      rw [iha w hw, ok_bind]; exact h
    · rw [if_neg ht] at h ⊢
      obtain ⟨w, hw, h⟩ := bind_ok h
      rw [ihb w hw, ok_bind]; exact h
  | abs a iha =>
    intro v h
    rw [C.eval] at h ⊢
    obtain ⟨x, hx, h⟩ := bind_ok h
    rw [iha x hx, ok_bind]; exact h
  | mm k a b iha ihb =>
    intro v h
    rw [C.eval] at h ⊢
    obtain ⟨x, hx, h⟩ := bind_ok h
    obtain ⟨y, hy, h⟩ := bind_ok h
    rw [iha x hx, ok_bind, ihb y hy, ok_bind]; exact h
  | toStr a iha =>
    intro v h
    rw [C.eval] at h ⊢
    obtain ⟨x, hx, h⟩ := bind_ok h
    rw [iha x hx, ok_bind]; exact h

theorem declTemps_strict_raw : ∀ (ts : List Ty) (es : List Expr) (k : Nat) (te : C.TyEnv) (s s' : Store),
    C.declTemps te .strict k ts es s = .ok s' → C.declTemps te .raw k ts es s = .ok s'
  | [], [], _, _, _, _, h => by simpa only [C.declTemps] using h
  | [], _ :: _, _, _, _, _, h => by simp only [C.declTemps] at h; cases h
  | _ :: _, [], _, _, _, _, h => by simp only [C.declTemps] at h; cases h
  | t :: ts, e :: es, k, te, s, s', h => by
    rw [C.declTemps] at h ⊢
    obtain ⟨v, hv, h⟩ := bind_ok h
    rw [eval_strict_raw te _ e v hv, ok_bind]
    exact declTemps_strict_raw ts es (k + 1) _ _ _ h

theorem evalArgs_strict_raw (te : C.TyEnv) (s : Store) : ∀ (ps : List (String × Ty)) (es : List Expr) (vs : List Val),
    C.evalArgs te s .strict ps es = .ok vs → C.evalArgs te s .raw ps es = .ok vs
  | [], [], _, h => by simpa only [C.evalArgs] using h
  | [], _ :: _, _, h => by simp only [C.evalArgs] at h; cases h
  | _ :: _, [], _, h => by simp only [C.evalArgs] at h; cases h
  | p :: ps, e :: es, vs, h => by
    rw [C.evalArgs] at h ⊢
    obtain ⟨v, hv, h⟩ := bind_ok h
    obtain ⟨vs', hvs, h⟩ := bind_ok h
    rw [eval_strict_raw te _ e v hv, ok_bind, evalArgs_strict_raw te s ps es vs' hvs, ok_bind]; exact h

theorem exec_strict_raw (f : Nat) :
    (∀ te s st st', C.exec te f s st = .ok st' → C.exec te f s st .raw = .ok st') ∧
    (∀ te i n b st st', C.exec.forLoop te f i n b st = .ok st' → C.exec.forLoop te f i n b st .raw = .ok st') := by
  induction f with
  | zero =>
    constructor
    · intro te s st st' h; rw [C.exec] at h; cases h
    · intro te i n b st st' h; rw [C.exec.forLoop] at h; cases h
  | succ f ih =>
    obtain ⟨ihe, ihf⟩ := ih
    constructor
    · intro te s st st' h
      cases s with
      | skip => rw [C.exec] at h ⊢; exact h
      | seq a b =>
        rw [C.exec] at h ⊢
        obtain ⟨st1, h1, h⟩ := bind_ok h
        rw [ihe te a st st1 h1, ok_bind]
        by_cases hb : st1.flow = .broke
        · rw [if_pos hb] at h ⊢; exact h
        · rw [if_neg hb] at h ⊢; exact ihe te b st1 st' h
      | assign x e =>
        rw [C.exec] at h ⊢
        obtain ⟨v, hv, h⟩ := bind_ok h
        rw [eval_strict_raw te _ e v hv, ok_bind]; exact h
      | aug x op e =>
        rw [C.exec] at h ⊢
        obtain ⟨cur, hcur, h⟩ := bind_ok h
        obtain ⟨v, hv, h⟩ := bind_ok h
        obtain ⟨r, hr, h⟩ := bind_ok h
        rw [eval_strict_raw te _ _ cur hcur, ok_bind, eval_strict_raw te _ e v hv, ok_bind, binopV_strict_raw hr, ok_bind]
        exact h
      | tuple k xs es => rw [C.exec] at h; cases h
      | ctuple k ts xs es =>
        rw [C.exec] at h ⊢
        split at h
        · cases h
        · rename_i hg
          rw [if_neg hg]
          split at h
          · cases h
          · rename_i hl
            rw [if_neg hl]
            obtain ⟨s1, h1, h⟩ := bind_ok h
            rw [declTemps_strict_raw _ _ _ _ _ _ h1, ok_bind]
            exact h
      | ifs c a b =>
        rw [C.exec] at h ⊢
        obtain ⟨v, hv, h⟩ := bind_ok h
        rw [eval_strict_raw te _ c v hv, ok_bind]
        by_cases ht : v.truthy = true
        · rw [if_pos ht] at h ⊢; exact ihe te a st st' h
        · rw [if_neg ht] at h ⊢; exact ihe te b st st' h
      | whileLoop c b =>
        rw [C.exec] at h ⊢
        obtain ⟨v, hv, h⟩ := bind_ok h
        rw [eval_strict_raw te _ c v hv, ok_bind]
        by_cases ht : v.truthy = true
        · rw [if_pos ht] at h ⊢
          obtain ⟨st1, h1, h⟩ := bind_ok h
          rw [ihe te b st st1 h1, ok_bind]
          by_cases hb : st1.flow = .broke
          · rw [if_pos hb] at h ⊢; exact h
          · rw [if_neg hb] at h ⊢; exact ihe te _ st1 st' h
        · rw [if_neg ht] at h ⊢; exact h
      | forRange i n b =>
        rw [C.exec] at h ⊢
        obtain ⟨st1, h1, h⟩ := bind_ok h
        rw [ihf _ i n b _ st1 h1, ok_bind]; exact h
      | write e =>
        rw [C.exec] at h ⊢
        obtain ⟨v, hv, h⟩ := bind_ok h
        rw [eval_strict_raw te _ e v hv, ok_bind]; exact h
      | sleep e =>
        rw [C.exec] at h ⊢
        obtain ⟨v, hv, h⟩ := bind_ok h
        rw [eval_strict_raw te _ e v hv, ok_bind]; exact h
      | brk => rw [C.exec] at h ⊢; exact h
      | call x g ps ls rt body ret args =>
        rw [C.exec] at h ⊢
        obtain ⟨vs, hvs, h⟩ := bind_ok h
        rw [evalArgs_strict_raw _ _ _ _ _ hvs, ok_bind]
        obtain ⟨st1, h1, h⟩ := bind_ok h
        rw [ihe _ body _ st1 h1, ok_bind]
        by_cases hb : st1.flow = .broke
        · rw [if_pos hb] at h; cases h
        · rw [if_neg hb] at h ⊢
          cases ret with
          | none => cases x <;> exact h
          | some e =>
            cases x with
            | none =>
              dsimp only at h ⊢
              obtain ⟨v, hv, h⟩ := bind_ok h
              rw [eval_strict_raw _ _ e v hv, ok_bind]; exact h
            | some x =>
              dsimp only at h ⊢
              obtain ⟨v, hv, h⟩ := bind_ok h
              rw [eval_strict_raw _ _ e v hv, ok_bind]; exact h
    · intro te i n b st st' h
      rw [C.exec.forLoop] at h ⊢
      obtain ⟨iv, hiv, h⟩ := bind_ok h
      obtain ⟨nv, hnv, h⟩ := bind_ok h
      rw [eval_strict_raw te _ _ iv hiv, ok_bind, eval_strict_raw te _ n nv hnv, ok_bind]
      by_cases hlt : iv.toInt < nv.toInt
      · rw [if_pos hlt] at h ⊢
        obtain ⟨st1, h1, h⟩ := bind_ok h
        rw [ihe te b st st1 h1, ok_bind]
        by_cases hb : st1.flow = .broke
        · rw [if_pos hb] at h ⊢; exact h
        · rw [if_neg hb] at h ⊢
          obtain ⟨cur, hcur, h⟩ := bind_ok h
          obtain ⟨nxt, hnxt, h⟩ := bind_ok h
          rw [eval_strict_raw te _ _ cur hcur, ok_bind, hnxt, ok_bind]
          exact ihf te i n b _ st' h
      · rw [if_neg hlt] at h ⊢; exact h

theorem init_strict_raw (te : C.TyEnv) (gl : List (String × Ty × Expr)) :
    ∀ s s0, C.initGlobals te gl s = .ok s0 → C.initGlobals te gl s .raw = .ok s0 := by
  induction gl with
  | nil => intro s s0 h; rw [C.initGlobals] at h ⊢; exact h
  | cons g rest ih =>
    obtain ⟨x, t, e⟩ := g
    intro s s0 h
    rw [C.initGlobals] at h ⊢
    obtain ⟨v, hv, h⟩ := bind_ok h
    rw [eval_strict_raw te s e v hv, ok_bind]
    exact ih _ _ h

theorem passes_strict_raw (te : C.TyEnv) (f : Nat) (b : Stmt) (n : Nat) :
    ∀ st st', C.passes te f b n st = .ok st' → C.passes te f b n st .raw = .ok st' := by
  induction n with
  | zero => intro st st' h; rw [C.passes] at h ⊢; exact h
  | succ n ih =>
    intro st st' h
    rw [C.passes] at h ⊢
    obtain ⟨st1, h1, h⟩ := bind_ok h
    rw [(exec_strict_raw f).1 te b st st1 h1, ok_bind]
    by_cases hb : st1.flow = .broke
    · rw [if_pos hb] at h; cases h
    · rw [if_neg hb] at h ⊢; exact ih st1 st' h

/-- a strict run that succeeds never divided with a negative operand: it is a run of the raw (faithful C) reading -/
theorem run_strict_raw (c : CProg) (N f : Nat) (t : List Ev) (h : C.run c N f = .ok t) : C.run c N f .raw = .ok t := by
  unfold C.run at h ⊢
  dsimp only at h ⊢
  obtain ⟨s0, hs0, h⟩ := bind_ok h
  rw [init_strict_raw _ _ _ _ hs0, ok_bind]
  obtain ⟨st0, hst0, h⟩ := bind_ok h
  rw [(exec_strict_raw f).1 _ _ _ _ hst0, ok_bind]
  by_cases hb : st0.flow = .broke
  · rw [if_pos hb] at h; cases h
  · rw [if_neg hb] at h ⊢
    obtain ⟨st, hst, h⟩ := bind_ok h
    rw [passes_strict_raw _ _ _ _ _ _ hst, ok_bind]
    exact h

end Reduino.Lemmas.C01
