import Reduino.Lang.Types
import Reduino.Lemmas.Field
import Mathlib.Data.Rat.Floor
namespace Reduino.Lemmas.C02
open Reduino Reduino.Lang.Ty2

set_option linter.unusedSectionVars false

variable {K : Type} [Field K] [LinearOrder K] [IsStrictOrderedRing K] [FloorRing K]

/-! ### the order on types -/

theorem sub_refl (t : T) : sub t t = true := by cases t <;> rfl

theorem sub_trans {a b c : T} (h1 : sub a b = true) (h2 : sub b c = true) : sub a c = true := by
  revert h1 h2; cases a <;> cases b <;> cases c <;> decide

theorem sub_str_right {a : T} (h : sub a .str = true) : a = .str := by
  revert h; cases a <;> decide

theorem sub_str_left {a : T} (h : sub .str a = true) : a = .str := by
  revert h; cases a <;> decide

theorem sub_float_left {a : T} (h : sub .float a = true) : a = .float := by
  revert h; cases a <;> decide

theorem sub_bool_right {a : T} (h : sub a .bool = true) : a = .bool := by
  revert h; cases a <;> decide

/-! ### zero test -/

theorem fzero_iff (x : K) : fzero x = true ↔ x = 0 := by
  simp only [fzero, ofInt_eq, Int.cast_zero, Bool.and_eq_true, Bool.not_eq_true', decide_eq_false_iff_not,
    not_lt]
  constructor
  · rintro ⟨h1, h2⟩; exact le_antisymm h2 h1
  · rintro rfl; exact ⟨le_refl _, le_refl _⟩

theorem fzero_cast (n : Int) : fzero ((n : K)) = decide (n = 0) := by
  rw [Bool.eq_iff_iff, fzero_iff]; simp

/-! ### `rep` -/

theorem rep_sub {t : T} {v w : V K} (h : rep t v = some w) : sub v.ty t = true := by
  unfold rep at h; split at h
  · assumption
  · cases h

theorem rep_of_sub {t : T} {v : V K} (h : sub v.ty t = true) : ∃ w, rep t v = some w := by
  cases t <;> cases v <;> first | (exact ⟨_, rfl⟩) | (exact absurd h (by simp [sub, V.ty]))

theorem rep_self (v : V K) : rep v.ty v = some v := by cases v <;> rfl

theorem conv_rep {t : T} {v w : V K} (h : rep t v = some w) : conv t w = some w := by
  cases t <;> cases v <;> first | (cases h; rfl) | (exact absurd h (by simp [rep, sub, V.ty]))

theorem rep_comp {t t' : T} {v w : V K} (hs : sub t t' = true) (h : rep t v = some w) :
    conv t' w = rep t' v := by
  cases t <;> cases t' <;> first | (exact absurd hs (by decide)) | skip
  all_goals cases v <;> first | (cases h; rfl) | (exact absurd h (by simp [rep, sub, V.ty]))

theorem rep_truthy {t : T} {v w : V K} (h : rep t v = some w) : w.truthy = v.truthy := by
  cases t <;> cases v <;> cases h
  all_goals first | rfl | skip
  · rename_i b; cases b <;> rfl
  · rename_i b
    cases b
    · simpa [V.truthy, b2i] using fzero_cast (K := K) 0
    · simpa [V.truthy, b2i] using fzero_cast (K := K) 1
  · rename_i n; simp [V.truthy, fzero_cast]

theorem rep_not_str {t : T} {v w : V K} (h : rep t v = some w) (ht : t.isNum = true) : ∀ s, w ≠ .str s := by
  cases t <;> cases v <;> cases h
  all_goals first | (intro s hs; cases hs; done) | (exact absurd ht (by decide))

theorem rep_bool {v w : V K} (h : rep .bool v = some w) : ∃ b, v = .bool b ∧ w = .bool b := by
  cases v <;> cases h
  all_goals exact ⟨_, rfl, rfl⟩

theorem rep_str {t : T} {x : String} {w : V K} (h : rep t (.str x) = some w) : t = .str ∧ w = .str x := by
  cases t <;> cases h
  all_goals exact ⟨rfl, rfl⟩

/-- numbers through `rep`: in a float slot the number is its float image, otherwise it is the same integer -/
theorem rep_num {t : T} {v w : V K} {m : N K} (h : rep t v = some w) (hm : v.num? = some m) :
    (t = .float ∧ w.num? = some (.f m.toF)) ∨ (t ≠ .float ∧ w.num? = some m ∧ ∃ k, m = .i k) := by
  cases t <;> cases v <;> cases h <;> cases hm
  all_goals first
    | (left; exact ⟨rfl, rfl⟩)
    | (right; exact ⟨by decide, rfl, _, rfl⟩)

theorem rep_num_toF {t : T} {v w : V K} {m : N K} (h : rep t v = some w) (hm : v.num? = some m) :
    ∃ m', w.num? = some m' ∧ m'.toF = m.toF := by
  rcases rep_num h hm with ⟨_, h2⟩ | ⟨_, h2, _⟩
  · exact ⟨_, h2, rfl⟩
  · exact ⟨_, h2, rfl⟩

theorem num_isNum {v : V K} {m : N K} (hm : v.num? = some m) : ∀ s, v ≠ .str s := by
  intro s hs; subst hs; cases hm

/-! ### comparisons only depend on the float image -/

theorem cmpN_toF (op : COp) (m n : N K) :
    cmpN op m n = (match op with
      | .lt => decide (m.toF < n.toF)
      | .le => decide (m.toF ≤ n.toF)
      | .eq => decide (m.toF ≤ n.toF) && decide (n.toF ≤ m.toF)) := by
  cases m <;> cases n <;> first | rfl | skip
  rename_i a b
  cases op <;> simp only [cmpN, N.toF, ofInt_eq, Int.cast_lt, Int.cast_le]
  rw [Bool.eq_iff_iff]; simp only [decide_eq_true_eq, Bool.and_eq_true]; omega

theorem cmpN_congr (op : COp) {m n m' n' : N K} (hm : m'.toF = m.toF) (hn : n'.toF = n.toF) :
    cmpN op m' n' = cmpN op m n := by
  rw [cmpN_toF, cmpN_toF, hm, hn]

/-! ### arithmetic -/

theorem cArith_f_left (op : AOp) (x : K) (n : N K) :
    cArith op (.f x) n = (arithF op x n.toF).map .flt := by
  cases n <;> rfl

theorem cArith_f_right (op : AOp) (m : N K) (y : K) :
    cArith op m (.f y) = (arithF op m.toF y).map .flt := by
  cases m <;> rfl

/-- Python's result, seen as a float, is the float computation on the float images -/
theorem pyArith_float {op : AOp} {m n : N K} {v : V K} (h : pyArith op m n = some v) :
    ∃ z, arithF op m.toF n.toF = some z ∧ rep .float v = some (.flt z) := by
  cases m <;> cases n
  · rename_i a b
    cases op
    · cases h; exact ⟨_, rfl, by simp [rep, sub, V.ty, conv, N.toF]⟩
    · cases h; exact ⟨_, rfl, by simp [rep, sub, V.ty, conv, N.toF]⟩
    · cases h; exact ⟨_, rfl, by simp [rep, sub, V.ty, conv, N.toF]⟩
    · simp only [pyArith] at h
      split at h
      · cases h
      · cases h
        refine ⟨_, ?_, rfl⟩
        simp only [arithF, N.toF, ofInt_eq, fzero_cast]
        simp [*]
  all_goals
    simp only [pyArith, Option.map_eq_some_iff] at h
    obtain ⟨z, hz, rfl⟩ := h
    exact ⟨z, hz, rfl⟩

theorem pyArith_int {op : AOp} {a b : Int} {v : V K} (h : pyArith (α := K) op (.i a) (.i b) = some v) (hop : op ≠ .div) :
    cArith (α := K) op (.i a) (.i b) = some v ∧ rep .int v = some v := by
  cases op
  · cases h; exact ⟨rfl, rfl⟩
  · cases h; exact ⟨rfl, rfl⟩
  · cases h; exact ⟨rfl, rfl⟩
  · exact absurd rfl hop

theorem arith_sim {op : AOp} {ta tb : T} {va vb wa wb v : V K} {m n : N K}
    (ha : rep ta va = some wa) (hb : rep tb vb = some wb) (hm : va.num? = some m) (hn : vb.num? = some n)
    (hdiv : op ≠ .div ∨ ta = .float ∨ tb = .float) (hv : pyArith op m n = some v) :
    ∃ m' n', wa.num? = some m' ∧ wb.num? = some n' ∧
      ∃ vc, cArith op m' n' = some vc ∧ rep (if ta = .float ∨ tb = .float then .float else .int) v = some vc := by
  obtain ⟨z, hz, hrz⟩ := pyArith_float hv
  rcases rep_num ha hm with ⟨hta, hwa⟩ | ⟨hta, hwa, ka, rfl⟩
  · obtain ⟨n', hn', hn'F⟩ := rep_num_toF hb hn
    refine ⟨_, _, hwa, hn', .flt z, ?_, ?_⟩
    · rw [cArith_f_left, hn'F, hz]; rfl
    · simp [hta, hrz]
  · rcases rep_num hb hn with ⟨htb, hwb⟩ | ⟨htb, hwb, kb, rfl⟩
    · refine ⟨_, _, hwa, hwb, .flt z, ?_, ?_⟩
      · rw [cArith_f_right, hz]; rfl
      · simp [htb, hrz]
    · have hop : op ≠ .div := by
        rcases hdiv with h | h | h
        · exact h
        · exact absurd h hta
        · exact absurd h htb
      obtain ⟨h1, h2⟩ := pyArith_int hv hop
      exact ⟨_, _, hwa, hwb, v, h1, by simp [hta, htb, h2]⟩

/-! ### value-level forms of the evaluators -/

def negV : V K → Option (V K)
  | .bool b => some (.int (-(b2i b)))
  | .int n => some (.int (-n))
  | .flt x => some (.flt (-x))
  | .str _ => none

def binV (ar : AOp → N K → N K → Option (V K)) (op : AOp) : V K → V K → Option (V K)
  | .str x, .str y => if op = .add then some (.str (x ++ y)) else none
  | x, y =>
    match x.num?, y.num? with
    | some m, some n => ar op m n
    | _, _ => none

def cmpV (op : COp) : V K → V K → Option (V K)
  | .str x, .str y => if op = .eq then some (.bool (x = y)) else none
  | x, y =>
    match x.num?, y.num? with
    | some m, some n => some (.bool (cmpN op m n))
    | _, _ => none

theorem eval_neg (s : Store K) (a : E K) : eval s (.neg a) = (eval s a).bind negV := by
  rw [eval]
  cases eval s a with
  | none => rfl
  | some v => cases v <;> rfl

theorem evalC_neg (g : TEnv) (s : Store K) (a : E K) : evalC g s (.neg a) = (evalC g s a).bind negV := by
  rw [evalC]
  cases evalC g s a with
  | none => rfl
  | some v => cases v <;> rfl

theorem eval_bin (s : Store K) (op : AOp) (a b : E K) :
    eval s (.bin op a b) = (eval s a).bind fun x => (eval s b).bind fun y => binV pyArith op x y := by
  rw [eval]
  cases eval s a with
  | none => rfl
  | some x =>
    cases eval s b with
    | none => cases x <;> rfl
    | some y => cases x <;> cases y <;> rfl

theorem evalC_bin (g : TEnv) (s : Store K) (op : AOp) (a b : E K) :
    evalC g s (.bin op a b) = (evalC g s a).bind fun x => (evalC g s b).bind fun y => binV cArith op x y := by
  rw [evalC]
  cases evalC g s a with
  | none => rfl
  | some x =>
    cases evalC g s b with
    | none => cases x <;> rfl
    | some y => cases x <;> cases y <;> rfl

theorem eval_cmp (s : Store K) (op : COp) (a b : E K) :
    eval s (.cmp op a b) = (eval s a).bind fun x => (eval s b).bind fun y => cmpV op x y := by
  rw [eval]
  cases eval s a with
  | none => rfl
  | some x =>
    cases eval s b with
    | none => cases x <;> rfl
    | some y => cases x <;> cases y <;> rfl

theorem evalC_cmp (g : TEnv) (s : Store K) (op : COp) (a b : E K) :
    evalC g s (.cmp op a b) = (evalC g s a).bind fun x => (evalC g s b).bind fun y => cmpV op x y := by
  rw [evalC]
  cases evalC g s a with
  | none => rfl
  | some x =>
    cases evalC g s b with
    | none => cases x <;> rfl
    | some y => cases x <;> cases y <;> rfl

/-! ### value-level simulation -/

theorem neg_sim {t : T} {va wa v : V K} (h : rep t va = some wa) (ht : t = .int ∨ t = .float)
    (hv : negV va = some v) : ∃ vc, negV wa = some vc ∧ rep t v = some vc := by
  rcases ht with rfl | rfl <;> cases va <;> cases h <;> cases hv
  all_goals first
    | exact ⟨_, rfl, rfl⟩
    | exact ⟨_, rfl, by simp [rep, sub, V.ty, conv]⟩

theorem binV_inv {ar : AOp → N K → N K → Option (V K)} {op : AOp} {x y v : V K} (h : binV ar op x y = some v) :
    (∃ sx sy, x = .str sx ∧ y = .str sy ∧ op = .add ∧ v = .str (sx ++ sy)) ∨
    (∃ m n, x.num? = some m ∧ y.num? = some n ∧ ar op m n = some v) := by
  cases x <;> cases y
  case str.str sx sy =>
    left
    simp only [binV] at h
    split at h
    · cases h; exact ⟨_, _, rfl, rfl, ‹_›, rfl⟩
    · cases h
  all_goals first
    | (right; exact ⟨_, _, rfl, rfl, h⟩)
    | cases h

theorem binV_num {ar : AOp → N K → N K → Option (V K)} {op : AOp} {x y : V K} {m n : N K}
    (hm : x.num? = some m) (hn : y.num? = some n) : binV ar op x y = ar op m n := by
  cases x <;> cases hm <;> cases y <;> cases hn <;> rfl

theorem cmpV_inv {op : COp} {x y v : V K} (h : cmpV op x y = some v) :
    (∃ sx sy, x = .str sx ∧ y = .str sy ∧ op = .eq ∧ v = .bool (sx = sy)) ∨
    (∃ m n, x.num? = some m ∧ y.num? = some n ∧ v = .bool (cmpN op m n)) := by
  cases x <;> cases y
  case str.str sx sy =>
    left
    simp only [cmpV] at h
    split at h
    · cases h; exact ⟨_, _, rfl, rfl, ‹_›, rfl⟩
    · cases h
  all_goals first
    | (right; cases h; exact ⟨_, _, rfl, rfl, rfl⟩)
    | cases h

theorem cmpV_num {op : COp} {x y : V K} {m n : N K}
    (hm : x.num? = some m) (hn : y.num? = some n) : cmpV op x y = some (.bool (cmpN op m n)) := by
  cases x <;> cases hm <;> cases y <;> cases hn <;> rfl

theorem isNum_ne_str {t : T} (h : t.isNum = true) : t ≠ .str := by
  rintro rfl; exact absurd h (by decide)

theorem bin_sim {op : AOp} {ta tb : T} {va vb wa wb v : V K}
    (ha : rep ta va = some wa) (hb : rep tb vb = some wb)
    (hT : (ta = .str ∧ tb = .str ∧ op = .add) ∨
          (ta.isNum = true ∧ tb.isNum = true ∧ (op ≠ .div ∨ ta = .float ∨ tb = .float)))
    (hv : binV pyArith op va vb = some v) :
    ∃ vc, binV cArith op wa wb = some vc ∧
      rep (if ta = .str ∨ tb = .str then .str else if ta = .float ∨ tb = .float then .float else .int) v = some vc := by
  rcases binV_inv hv with ⟨sx, sy, rfl, rfl, rfl, rfl⟩ | ⟨m, n, hm, hn, hpy⟩
  · obtain ⟨rfl, rfl⟩ := rep_str ha
    obtain ⟨rfl, rfl⟩ := rep_str hb
    exact ⟨_, rfl, rfl⟩
  · have hta : ta ≠ .str := by
      rintro rfl
      have := sub_str_right (rep_sub ha)
      cases va <;> first | (cases this; done) | cases hm
    have htb : tb ≠ .str := by
      rintro rfl
      have := sub_str_right (rep_sub hb)
      cases vb <;> first | (cases this; done) | cases hn
    have hdiv : op ≠ .div ∨ ta = .float ∨ tb = .float := by
      rcases hT with ⟨h, _⟩ | ⟨_, _, h⟩
      · exact absurd h hta
      · exact h
    obtain ⟨m', n', hm', hn', vc, hc, hr⟩ := arith_sim ha hb hm hn hdiv hpy
    refine ⟨vc, ?_, ?_⟩
    · rw [binV_num hm' hn', hc]
    · simpa [hta, htb] using hr

theorem cmp_sim {op : COp} {ta tb : T} {va vb wa wb v : V K}
    (ha : rep ta va = some wa) (hb : rep tb vb = some wb)
    (hT : (ta = .str ∧ tb = .str ∧ op = .eq) ∨ (ta.isNum = true ∧ tb.isNum = true))
    (hv : cmpV op va vb = some v) :
    cmpV op wa wb = some v ∧ rep .bool v = some v := by
  rcases cmpV_inv hv with ⟨sx, sy, rfl, rfl, rfl, rfl⟩ | ⟨m, n, hm, hn, rfl⟩
  · obtain ⟨rfl, rfl⟩ := rep_str ha
    obtain ⟨rfl, rfl⟩ := rep_str hb
    exact ⟨rfl, rfl⟩
  · obtain ⟨m', hm', hmF⟩ := rep_num_toF ha hm
    obtain ⟨n', hn', hnF⟩ := rep_num_toF hb hn
    refine ⟨?_, rfl⟩
    rw [cmpV_num hm' hn', cmpN_congr op hmF hnF]

/-- the join computed by `infer` on a conditional is an upper bound of both branch types -/
theorem join_upper {l r : T} (h : l = r ∨ (l.isNum = true ∧ r.isNum = true)) :
    sub l (if l = r then l else if l = .str ∨ r = .str then .str else if l = .float ∨ r = .float then .float else .int) = true ∧
    sub r (if l = r then l else if l = .str ∨ r = .str then .str else if l = .float ∨ r = .float then .float else .int) = true := by
  revert h; cases l <;> cases r <;> decide

/-! ### builtin calls -/

theorem trunc_intCast (n : Int) : Num.trunc ((n : K)) = n := by
  rw [trunc_eq]; split <;> simp

/-- a value in a bool/int slot is the same integer on both sides -/
theorem rep_integral {t : T} {v w : V K} (h : rep t v = some w) (ht : t.isIntegral = true) :
    ∃ k, v.num? = some (.i k) ∧ w.num? = some (.i k) ∧ rep .int v = some (.int k) ∧ conv .int w = some (.int k) := by
  cases t <;> first | (exact absurd ht (by decide)) | skip
  all_goals cases v <;> first | (cases h; exact ⟨_, rfl, rfl, rfl, rfl⟩) | (exact absurd h (by simp [rep, sub, V.ty]))

theorem abs_sim {t : T} {va wa v : V K} (h : rep t va = some wa) (ht : t.isIntegral = true)
    (hv : pyAbs va = some v) : ∃ vc, cAbs wa = some vc ∧ rep .int v = some vc := by
  have key : ∀ n : Int, (if n < 0 then -n else n) = (if 0 < n then n else -n) := by intro n; split <;> split <;> omega
  cases t <;> first | (exact absurd ht (by decide)) | skip
  all_goals cases va <;> cases h <;> cases hv
  · exact ⟨_, rfl, rfl⟩
  · rename_i b; cases b <;> exact ⟨_, rfl, rfl⟩
  · rename_i n; exact ⟨_, rfl, by rw [key n]; rfl⟩

theorem cmpN_lt_int (a b : Int) : cmpN (α := K) .lt (.i a) (.i b) = decide (a < b) := rfl

theorem min_sim {ta tb : T} {va vb wa wb v : V K} (ha : rep ta va = some wa) (hb : rep tb vb = some wb)
    (hta : ta.isIntegral = true) (htb : tb.isIntegral = true) (hv : pyMin va vb = some v) :
    ∃ vc, cMin .int wa wb = some vc ∧ rep .int v = some vc := by
  obtain ⟨ka, hva, hwa, hra, hca⟩ := rep_integral ha hta
  obtain ⟨kb, hvb, hwb, hrb, hcb⟩ := rep_integral hb htb
  simp only [pyMin, hva, hvb, cmpN_lt_int, Option.some.injEq] at hv
  simp only [cMin, hwa, hwb, cmpN_lt_int]
  subst hv
  by_cases h1 : kb < ka
  · have h2 : ¬ ka < kb := by omega
    simp only [h1, h2, decide_true, decide_false, if_true, Bool.false_eq_true, if_false]
    exact ⟨_, hcb, hrb⟩
  · by_cases h2 : ka < kb
    · simp only [h1, h2, decide_true, decide_false, if_true, Bool.false_eq_true, if_false]
      exact ⟨_, hca, hra⟩
    · have : ka = kb := by omega
      subst this
      simp only [h1, decide_false, Bool.false_eq_true, if_false]
      exact ⟨_, hcb, hra⟩

theorem max_sim {ta tb : T} {va vb wa wb v : V K} (ha : rep ta va = some wa) (hb : rep tb vb = some wb)
    (hta : ta.isIntegral = true) (htb : tb.isIntegral = true) (hv : pyMax va vb = some v) :
    ∃ vc, cMax .int wa wb = some vc ∧ rep .int v = some vc := by
  obtain ⟨ka, hva, hwa, hra, hca⟩ := rep_integral ha hta
  obtain ⟨kb, hvb, hwb, hrb, hcb⟩ := rep_integral hb htb
  simp only [pyMax, hva, hvb, cmpN_lt_int, Option.some.injEq] at hv
  simp only [cMax, hwa, hwb, cmpN_lt_int]
  subst hv
  by_cases h1 : ka < kb
  · have h2 : ¬ kb < ka := by omega
    simp only [h1, h2, decide_true, decide_false, if_true, Bool.false_eq_true, if_false]
    exact ⟨_, hcb, hrb⟩
  · by_cases h2 : kb < ka
    · simp only [h1, h2, decide_true, decide_false, if_true, Bool.false_eq_true, if_false]
      exact ⟨_, hca, hra⟩
    · have : ka = kb := by omega
      subst this
      simp only [h1, decide_false, Bool.false_eq_true, if_false]
      exact ⟨_, hcb, hra⟩

theorem toInt_sim {t : T} {va wa v : V K} (h : rep t va = some wa) (ht : t.isNum = true)
    (hv : pyInt va = some v) : ∃ vc, conv .int wa = some vc ∧ rep .int v = some vc := by
  cases t <;> first | (exact absurd ht (by decide)) | skip
  all_goals cases va <;> cases h <;> cases hv
  all_goals first
    | exact ⟨_, rfl, rfl⟩
    | exact ⟨_, by simp only [conv, ofInt_eq, trunc_intCast], rfl⟩

theorem conv_float_num {w : V K} {m : N K} (hm : w.num? = some m) : conv .float w = some (.flt m.toF) := by
  cases w <;> cases hm <;> rfl

theorem toFloat_sim {t : T} {va wa v : V K} (h : rep t va = some wa)
    (hv : pyFloat va = some v) : ∃ vc, conv .float wa = some vc ∧ rep .float v = some vc := by
  simp only [pyFloat, Option.map_eq_some_iff] at hv
  obtain ⟨m, hm, rfl⟩ := hv
  obtain ⟨m', hm', hF⟩ := rep_num_toF h hm
  exact ⟨_, by rw [conv_float_num hm', hF], rfl⟩

theorem toBool_sim {t : T} {va wa : V K} (h : rep t va = some wa) (ht : t.isNum = true) :
    conv .bool wa = some (.bool va.truthy) := by
  have hs := rep_not_str h ht
  rw [← rep_truthy h]
  cases wa <;> first | rfl | exact absurd rfl (hs _)

/-! ### `Tame` unfolded -/

theorem tame_neg {g : TEnv} {a : E K} : Tame g (.neg a) = true ↔
    Tame g a = true ∧ (infer g a = .int ∨ infer g a = .float) := by
  simp [Tame]

theorem tame_not {g : TEnv} {a : E K} : Tame g (.not a) = true ↔
    Tame g a = true ∧ (infer g a).isNum = true := by
  simp [Tame]

theorem tame_bin {g : TEnv} {op : AOp} {a b : E K} : Tame g (.bin op a b) = true ↔
    Tame g a = true ∧ Tame g b = true ∧
      ((infer g a = .str ∧ infer g b = .str ∧ op = .add) ∨
       ((infer g a).isNum = true ∧ (infer g b).isNum = true ∧
          (op ≠ .div ∨ infer g a = .float ∨ infer g b = .float))) := by
  simp [Tame, and_assoc, or_assoc]

theorem tame_cmp {g : TEnv} {op : COp} {a b : E K} : Tame g (.cmp op a b) = true ↔
    Tame g a = true ∧ Tame g b = true ∧
      ((infer g a = .str ∧ infer g b = .str ∧ op = .eq) ∨
       ((infer g a).isNum = true ∧ (infer g b).isNum = true)) := by
  simp [Tame, and_assoc]

theorem tame_and {g : TEnv} {a b : E K} : Tame g (.and a b) = true ↔
    Tame g a = true ∧ Tame g b = true ∧ infer g a = .bool ∧ infer g b = .bool := by
  simp [Tame, and_assoc]

theorem tame_or {g : TEnv} {a b : E K} : Tame g (.or a b) = true ↔
    Tame g a = true ∧ Tame g b = true ∧ infer g a = .bool ∧ infer g b = .bool := by
  simp [Tame, and_assoc]

theorem tame_ite {g : TEnv} {c a b : E K} : Tame g (.ite c a b) = true ↔
    Tame g c = true ∧ Tame g a = true ∧ Tame g b = true ∧ (infer g c).isNum = true ∧
      (infer g a = infer g b ∨ ((infer g a).isNum = true ∧ (infer g b).isNum = true)) := by
  simp [Tame, and_assoc]

theorem tame_abs {g : TEnv} {a : E K} : Tame g (.abs a) = true ↔
    Tame g a = true ∧ (infer g a).isIntegral = true := by
  simp [Tame]

theorem tame_min {g : TEnv} {a b : E K} : Tame g (.min a b) = true ↔
    Tame g a = true ∧ Tame g b = true ∧ (infer g a).isIntegral = true ∧ (infer g b).isIntegral = true ∧
      (infer g a = .int ∨ infer g b = .int) := by
  simp [Tame, and_assoc]

theorem tame_max {g : TEnv} {a b : E K} : Tame g (.max a b) = true ↔
    Tame g a = true ∧ Tame g b = true ∧ (infer g a).isIntegral = true ∧ (infer g b).isIntegral = true ∧
      (infer g a = .int ∨ infer g b = .int) := by
  simp [Tame, and_assoc]

theorem tame_toInt {g : TEnv} {a : E K} : Tame g (.toInt a) = true ↔
    Tame g a = true ∧ (infer g a).isNum = true := by
  simp [Tame]

theorem tame_toFloat {g : TEnv} {a : E K} : Tame g (.toFloat a) = true ↔
    Tame g a = true ∧ (infer g a).isNum = true := by
  simp [Tame]

theorem tame_toBool {g : TEnv} {a : E K} : Tame g (.toBool a) = true ↔
    Tame g a = true ∧ (infer g a).isNum = true := by
  simp [Tame]

theorem macroType_integral {l r : T} (hl : l.isIntegral = true) (hr : r.isIntegral = true) (h : l = .int ∨ r = .int) :
    macroType l r = some .int := by
  revert hl hr h; cases l <;> cases r <;> decide

/-! ### inferred type = C++ static type -/

theorem infer_ite_eq (g : TEnv) (c a b : E K) : infer g (.ite c a b) =
    (if infer g a = infer g b then infer g a
     else if infer g a = .str ∨ infer g b = .str then .str
     else if infer g a = .float ∨ infer g b = .float then .float else .int) := rfl

theorem infer_bin_eq (g : TEnv) (op : AOp) (a b : E K) : infer g (.bin op a b) =
    (if infer g a = .str ∨ infer g b = .str then .str
     else if infer g a = .float ∨ infer g b = .float then .float else .int) := rfl

theorem ctype_infer (g : TEnv) (e : E K) : Tame g e = true → ctype g e = some (infer g e) := by
  induction e with
  | lit v => intro _; rfl
  | var x =>
    intro ht
    simp only [Tame, Option.isSome_iff_exists] at ht
    obtain ⟨t, h⟩ := ht
    simp [ctype, infer, TEnv.get, h]
  | neg a ih =>
    intro ht
    obtain ⟨h1, h2⟩ := tame_neg.1 ht
    rw [ctype, ih h1]
    simp only [infer]
    rcases h2 with h | h <;> rw [h] <;> rfl
  | not a ih =>
    intro ht
    obtain ⟨h1, h2⟩ := tame_not.1 ht
    rw [ctype, ih h1]
    simp [infer, isNum_ne_str h2]
  | bin op a b iha ihb =>
    intro ht
    obtain ⟨h1, h2, h3⟩ := tame_bin.1 ht
    rw [ctype, iha h1, ihb h2, infer_bin_eq]
    generalize infer g a = l at *
    generalize infer g b = r at *
    rcases h3 with ⟨rfl, rfl, rfl⟩ | ⟨hl, hr, _⟩
    · rfl
    · cases l <;> cases r <;> first | rfl | exact absurd hl (by decide) | exact absurd hr (by decide)
  | cmp op a b iha ihb =>
    intro ht
    obtain ⟨h1, h2, h3⟩ := tame_cmp.1 ht
    rw [ctype, iha h1, ihb h2]
    simp only [infer]
    generalize infer g a = l at *
    generalize infer g b = r at *
    rcases h3 with ⟨rfl, rfl, rfl⟩ | ⟨hl, hr⟩
    · rfl
    · cases l <;> cases r <;> first | rfl | exact absurd hl (by decide) | exact absurd hr (by decide)
  | and a b iha ihb =>
    intro ht
    obtain ⟨h1, h2, h3, h4⟩ := tame_and.1 ht
    rw [ctype, iha h1, ihb h2, h3, h4]
    rfl
  | or a b iha ihb =>
    intro ht
    obtain ⟨h1, h2, h3, h4⟩ := tame_or.1 ht
    rw [ctype, iha h1, ihb h2, h3, h4]
    rfl
  | ite c a b ihc iha ihb =>
    intro ht
    obtain ⟨h1, h2, h3, h4, h5⟩ := tame_ite.1 ht
    rw [ctype, ihc h1, iha h2, ihb h3, infer_ite_eq]
    generalize infer g a = l at *
    generalize infer g b = r at *
    generalize infer g c = tc at *
    have h4' := isNum_ne_str h4
    simp only [h4', if_false]
    rcases h5 with rfl | ⟨hl, hr⟩
    · simp
    · cases l <;> cases r <;> first | rfl | exact absurd hl (by decide) | exact absurd hr (by decide)
  | abs a ih =>
    intro ht
    obtain ⟨h1, h2⟩ := tame_abs.1 ht
    rw [ctype, ih h1]
    simp only [infer, Option.bind_some]
    generalize infer g a = l at *
    cases l <;> first | rfl | exact absurd h2 (by decide)
  | min a b iha ihb =>
    intro ht
    obtain ⟨h1, h2, h3, h4, h5⟩ := tame_min.1 ht
    rw [ctype, iha h1, ihb h2]
    simp only [infer, Option.bind_some, macroType_integral h3 h4 h5]
  | max a b iha ihb =>
    intro ht
    obtain ⟨h1, h2, h3, h4, h5⟩ := tame_max.1 ht
    rw [ctype, iha h1, ihb h2]
    simp only [infer, Option.bind_some, macroType_integral h3 h4 h5]
  | toInt a ih =>
    intro ht
    obtain ⟨h1, h2⟩ := tame_toInt.1 ht
    rw [ctype, ih h1]
    simp [infer, isNum_ne_str h2]
  | toFloat a ih =>
    intro ht
    obtain ⟨h1, h2⟩ := tame_toFloat.1 ht
    rw [ctype, ih h1]
    simp [infer, isNum_ne_str h2]
  | toBool a ih =>
    intro ht
    obtain ⟨h1, h2⟩ := tame_toBool.1 ht
    rw [ctype, ih h1]
    simp [infer, isNum_ne_str h2]

/-! ### expression-level simulation -/

theorem evalC_sim (g : TEnv) (py cs : Store K) (hs : StoreRep g py cs) (e : E K) :
    ∀ v, Tame g e = true → eval py e = some v →
      ∃ vc, evalC g cs e = some vc ∧ rep (infer g e) v = some vc := by
  induction e with
  | lit w =>
    intro v _ he
    rw [eval] at he; cases he
    exact ⟨_, rfl, rep_self _⟩
  | var x =>
    intro v _ he
    rw [eval] at he
    obtain ⟨t, hl, vc, hr, hc⟩ := hs x v he
    refine ⟨vc, by rw [evalC]; exact hc, ?_⟩
    simp only [infer, TEnv.get, hl, Option.getD_some]
    exact hr
  | neg a ih =>
    intro v ht he
    obtain ⟨h1, h2⟩ := tame_neg.1 ht
    rw [eval_neg] at he
    obtain ⟨va, hva, hv⟩ := Option.bind_eq_some_iff.1 he
    obtain ⟨wa, hwa, hr⟩ := ih va h1 hva
    obtain ⟨vc, hvc, hr'⟩ := neg_sim hr h2 hv
    exact ⟨vc, by rw [evalC_neg, hwa]; exact hvc, hr'⟩
  | not a ih =>
    intro v ht he
    obtain ⟨h1, h2⟩ := tame_not.1 ht
    rw [eval] at he
    obtain ⟨va, hva, rfl⟩ := Option.map_eq_some_iff.1 he
    obtain ⟨wa, hwa, hr⟩ := ih va h1 hva
    refine ⟨.bool (!wa.truthy), ?_, ?_⟩
    · rw [evalC, hwa]
      have := rep_not_str hr h2
      cases wa <;> first | rfl | exact absurd rfl (this _)
    · rw [rep_truthy hr]; rfl
  | bin op a b iha ihb =>
    intro v ht he
    obtain ⟨h1, h2, h3⟩ := tame_bin.1 ht
    rw [eval_bin] at he
    obtain ⟨va, hva, he⟩ := Option.bind_eq_some_iff.1 he
    obtain ⟨vb, hvb, hv⟩ := Option.bind_eq_some_iff.1 he
    obtain ⟨wa, hwa, hra⟩ := iha va h1 hva
    obtain ⟨wb, hwb, hrb⟩ := ihb vb h2 hvb
    obtain ⟨vc, hvc, hr⟩ := bin_sim hra hrb h3 hv
    exact ⟨vc, by rw [evalC_bin, hwa, hwb]; exact hvc, by rw [infer_bin_eq]; exact hr⟩
  | cmp op a b iha ihb =>
    intro v ht he
    obtain ⟨h1, h2, h3⟩ := tame_cmp.1 ht
    rw [eval_cmp] at he
    obtain ⟨va, hva, he⟩ := Option.bind_eq_some_iff.1 he
    obtain ⟨vb, hvb, hv⟩ := Option.bind_eq_some_iff.1 he
    obtain ⟨wa, hwa, hra⟩ := iha va h1 hva
    obtain ⟨wb, hwb, hrb⟩ := ihb vb h2 hvb
    obtain ⟨hvc, hr⟩ := cmp_sim hra hrb h3 hv
    exact ⟨v, by rw [evalC_cmp, hwa, hwb]; exact hvc, hr⟩
  | and a b iha ihb =>
    intro v ht he
    obtain ⟨h1, h2, h3, h4⟩ := tame_and.1 ht
    rw [eval] at he
    cases hva : eval py a with
    | none => rw [hva] at he; cases he
    | some va =>
      rw [hva] at he
      obtain ⟨wa, hwa, hra⟩ := iha va h1 hva
      rw [h3] at hra
      obtain ⟨ba, rfl, rfl⟩ := rep_bool hra
      cases ba
      · cases he
        exact ⟨_, by rw [evalC, hwa]; rfl, rfl⟩
      · have he : eval py b = some v := he
        obtain ⟨wb, hwb, hrb⟩ := ihb v h2 he
        rw [h4] at hrb
        obtain ⟨bb, rfl, rfl⟩ := rep_bool hrb
        exact ⟨_, by rw [evalC, hwa, hwb]; rfl, rfl⟩
  | or a b iha ihb =>
    intro v ht he
    obtain ⟨h1, h2, h3, h4⟩ := tame_or.1 ht
    rw [eval] at he
    cases hva : eval py a with
    | none => rw [hva] at he; cases he
    | some va =>
      rw [hva] at he
      obtain ⟨wa, hwa, hra⟩ := iha va h1 hva
      rw [h3] at hra
      obtain ⟨ba, rfl, rfl⟩ := rep_bool hra
      cases ba
      · have he : eval py b = some v := he
        obtain ⟨wb, hwb, hrb⟩ := ihb v h2 he
        rw [h4] at hrb
        obtain ⟨bb, rfl, rfl⟩ := rep_bool hrb
        exact ⟨_, by rw [evalC, hwa, hwb]; rfl, rfl⟩
      · cases he
        exact ⟨_, by rw [evalC, hwa]; rfl, rfl⟩
  | ite c a b ihc iha ihb =>
    intro v ht he
    obtain ⟨h1, h2, h3, h4, h5⟩ := tame_ite.1 ht
    have hct := ctype_infer g (.ite c a b) ht
    obtain ⟨hl, hr⟩ := join_upper h5
    rw [← infer_ite_eq g c a b] at hl hr
    rw [eval] at he
    cases hvc : eval py c with
    | none => rw [hvc] at he; cases he
    | some x =>
      rw [hvc] at he
      obtain ⟨wc, hwc, hrc⟩ := ihc x h1 hvc
      have htr := rep_truthy hrc
      have hev : evalC g cs (.ite c a b) =
          (if x.truthy = true then evalC g cs a else evalC g cs b).bind (conv (infer g (.ite c a b))) := by
        rw [evalC, hwc, hct]
        simp only [htr]
      rw [hev]
      by_cases hx : x.truthy = true
      · have he : eval py a = some v := by simpa [hx] using he
        obtain ⟨wa, hwa, hra⟩ := iha v h2 he
        obtain ⟨w, hw⟩ := rep_of_sub (t := infer g (.ite c a b)) (sub_trans (rep_sub hra) hl)
        refine ⟨w, ?_, hw⟩
        rw [if_pos hx, hwa, Option.bind_some, rep_comp hl hra, hw]
      · have he : eval py b = some v := by simpa [hx] using he
        obtain ⟨wb, hwb, hrb⟩ := ihb v h3 he
        obtain ⟨w, hw⟩ := rep_of_sub (t := infer g (.ite c a b)) (sub_trans (rep_sub hrb) hr)
        refine ⟨w, ?_, hw⟩
        rw [if_neg hx, hwb, Option.bind_some, rep_comp hr hrb, hw]
  | abs a ih =>
    intro v ht he
    obtain ⟨h1, h2⟩ := tame_abs.1 ht
    rw [eval] at he
    obtain ⟨va, hva, hv⟩ := Option.bind_eq_some_iff.1 he
    obtain ⟨wa, hwa, hr⟩ := ih va h1 hva
    obtain ⟨vc, hvc, hr'⟩ := abs_sim hr h2 hv
    exact ⟨vc, by rw [evalC, hwa]; exact hvc, hr'⟩
  | min a b iha ihb =>
    intro v ht he
    obtain ⟨h1, h2, h3, h4, _⟩ := tame_min.1 ht
    have hct := ctype_infer g (.min a b) ht
    rw [eval] at he
    obtain ⟨va, hva, he⟩ := Option.bind_eq_some_iff.1 he
    obtain ⟨vb, hvb, hv⟩ := Option.bind_eq_some_iff.1 he
    obtain ⟨wa, hwa, hra⟩ := iha va h1 hva
    obtain ⟨wb, hwb, hrb⟩ := ihb vb h2 hvb
    obtain ⟨vc, hvc, hr⟩ := min_sim hra hrb h3 h4 hv
    exact ⟨vc, by rw [evalC, hct, hwa, hwb]; exact hvc, hr⟩
  | max a b iha ihb =>
    intro v ht he
    obtain ⟨h1, h2, h3, h4, _⟩ := tame_max.1 ht
    have hct := ctype_infer g (.max a b) ht
    rw [eval] at he
    obtain ⟨va, hva, he⟩ := Option.bind_eq_some_iff.1 he
    obtain ⟨vb, hvb, hv⟩ := Option.bind_eq_some_iff.1 he
    obtain ⟨wa, hwa, hra⟩ := iha va h1 hva
    obtain ⟨wb, hwb, hrb⟩ := ihb vb h2 hvb
    obtain ⟨vc, hvc, hr⟩ := max_sim hra hrb h3 h4 hv
    exact ⟨vc, by rw [evalC, hct, hwa, hwb]; exact hvc, hr⟩
  | toInt a ih =>
    intro v ht he
    obtain ⟨h1, h2⟩ := tame_toInt.1 ht
    rw [eval] at he
    obtain ⟨va, hva, hv⟩ := Option.bind_eq_some_iff.1 he
    obtain ⟨wa, hwa, hr⟩ := ih va h1 hva
    obtain ⟨vc, hvc, hr'⟩ := toInt_sim hr h2 hv
    exact ⟨vc, by rw [evalC, hwa]; exact hvc, hr'⟩
  | toFloat a ih =>
    intro v ht he
    obtain ⟨h1, _⟩ := tame_toFloat.1 ht
    rw [eval] at he
    obtain ⟨va, hva, hv⟩ := Option.bind_eq_some_iff.1 he
    obtain ⟨wa, hwa, hr⟩ := ih va h1 hva
    obtain ⟨vc, hvc, hr'⟩ := toFloat_sim hr hv
    exact ⟨vc, by rw [evalC, hwa]; exact hvc, hr'⟩
  | toBool a ih =>
    intro v ht he
    obtain ⟨h1, h2⟩ := tame_toBool.1 ht
    rw [eval] at he
    obtain ⟨va, hva, rfl⟩ := Option.map_eq_some_iff.1 he
    obtain ⟨wa, hwa, hr⟩ := ih va h1 hva
    exact ⟨.bool va.truthy, by rw [evalC, hwa]; exact toBool_sim hr h2, rfl⟩

/-! ### stores -/

theorem lookup_cons_if {β : Type} (k : String) (b : β) (s : List (String × β)) (y : String) :
    List.lookup y ((k, b) :: s) = if y = k then some b else List.lookup y s := by
  rw [List.lookup_cons]
  by_cases h : y = k
  · subst h; simp
  · have h' : (y == k) = false := by simpa using h
    simp [h', h]

theorem lookup_filter_ne {β : Type} (s : List (String × β)) (x y : String) :
    (s.filter (fun p => decide (p.1 ≠ x))).lookup y = if y = x then none else s.lookup y := by
  induction s with
  | nil => simp
  | cons p s ih =>
    obtain ⟨k, b⟩ := p
    by_cases hk : k = x
    · subst hk
      simp only [List.filter_cons, ne_eq, not_true_eq_false, decide_false, Bool.false_eq_true, if_false, ih,
        lookup_cons_if]
      by_cases hy : y = k <;> simp [hy]
    · simp only [List.filter_cons, ne_eq, hk, not_false_eq_true, decide_true, if_true, ih, lookup_cons_if]
      by_cases hy : y = x
      · subst hy; simp [Ne.symm hk]
      · simp [hy]

theorem lookup_map_snd {β γ : Type} (f : String → β → γ) (s : List (String × β)) (y : String) :
    (s.map (fun p => (p.1, f p.1 p.2))).lookup y = (s.lookup y).map (f y) := by
  induction s with
  | nil => rfl
  | cons p s ih =>
    obtain ⟨k, b⟩ := p
    simp only [List.map_cons, lookup_cons_if, ih]
    by_cases hy : y = k
    · subst hy; simp
    · simp [hy]

theorem get_set (s : Store K) (x y : String) (v : V K) :
    (s.set x v).get y = if y = x then some v else s.get y := by
  unfold Store.set Store.get
  rw [lookup_cons_if, lookup_filter_ne]
  by_cases h : y = x <;> simp [h]

theorem storeRep_nil (g : TEnv) : StoreRep g ([] : Store K) ([] : Store K) := by
  intro x v h; cases h

theorem storeRep_set {g : TEnv} {py c : Store K} {x : String} {t : T} {v vc : V K}
    (hs : StoreRep g py c) (hl : g.lookup x = some t) (hr : rep t v = some vc) :
    StoreRep g (py.set x v) (c.set x vc) := by
  intro y w hy
  rw [get_set] at hy
  rw [get_set]
  by_cases h : y = x
  · subst h
    simp only [if_true, Option.some.injEq] at hy
    subst hy
    exact ⟨t, hl, vc, hr, by simp⟩
  · simp only [h, if_false] at hy ⊢
    exact hs y w hy

/-- a C++ store that faithfully represents a well-typed Python store -/
def repVal (g : TEnv) (x : String) (w : V K) : V K :=
  match g.lookup x with
  | some t => (rep t w).getD w
  | none => w

def repStore (g : TEnv) (s : Store K) : Store K := s.map fun p => (p.1, repVal g p.1 p.2)

theorem storeRep_repStore (g : TEnv) (s : Store K)
    (hs : ∀ x w, s.get x = some w → ∃ t, g.lookup x = some t ∧ sub w.ty t = true) :
    StoreRep g s (repStore g s) := by
  intro x w hx
  obtain ⟨t, hl, hsub⟩ := hs x w hx
  obtain ⟨vc, hvc⟩ := rep_of_sub hsub
  refine ⟨t, hl, vc, hvc, ?_⟩
  unfold Store.get at hx ⊢
  unfold repStore
  rw [lookup_map_snd (repVal g), hx]
  simp [repVal, hl, hvc]

theorem infer_sound_gen (g : TEnv) (s : Store K) (e : E K) (v : V K)
    (hs : ∀ x w, s.get x = some w → ∃ t, g.lookup x = some t ∧ sub w.ty t = true)
    (ht : Tame g e = true) (he : eval s e = some v) : sub v.ty (infer g e) = true := by
  obtain ⟨vc, _, hr⟩ := evalC_sim g s (repStore g s) (storeRep_repStore g s hs) e v ht he
  exact rep_sub hr

/-! ### runs, generic in the declared-type environment -/

theorem run_simulates_from (g : TEnv) (path : List (Stmt K))
    (h : ∀ st ∈ path, Tame g st.2 = true ∧ g.lookup st.1 = some (infer g st.2)) :
    ∀ (py0 c0 py : Store K), StoreRep g py0 c0 → pyRun py0 path = some py →
      ∃ c, cRun g c0 path = some c ∧ StoreRep g py c := by
  induction path with
  | nil =>
    intro py0 c0 py hs hrun
    rw [pyRun] at hrun; cases hrun
    exact ⟨c0, rfl, hs⟩
  | cons st rest ih =>
    intro py0 c0 py hs hrun
    obtain ⟨hT, hL⟩ := h st List.mem_cons_self
    rw [pyRun] at hrun
    obtain ⟨py1, h1, hrest⟩ := Option.bind_eq_some_iff.1 hrun
    unfold pyStep at h1
    obtain ⟨v, hv, rfl⟩ := Option.map_eq_some_iff.1 h1
    obtain ⟨vc, hvc, hr⟩ := evalC_sim g py0 c0 hs st.2 v hT hv
    have hstep : cStep g c0 st = some (c0.set st.1 vc) := by
      unfold cStep
      rw [hL, hvc]
      simp only [conv_rep hr, Option.map_some]
    have hs1 : StoreRep g (py0.set st.1 v) (c0.set st.1 vc) := storeRep_set hs hL hr
    obtain ⟨c, hc, hsc⟩ := ih (fun s hs => h s (List.mem_cons_of_mem _ hs)) _ _ py hs1 hrest
    exact ⟨c, by rw [cRun, hstep]; exact hc, hsc⟩

/-- whatever sequence of assignments runs, if each is tame and assigns its name's declared type (in ANY environment
    `g` of declared types), the C++ run completes and represents the Python store -/
theorem run_simulates (g : TEnv) (path : List (Stmt K))
    (h : ∀ st ∈ path, Tame g st.2 = true ∧ g.lookup st.1 = some (infer g st.2))
    (py : Store K) (hrun : pyRun [] path = some py) :
    ∃ c, cRun g [] path = some c ∧ StoreRep g py c :=
  run_simulates_from g path h [] [] py (storeRep_nil g) hrun

theorem run_no_narrowing (g : TEnv) (path : List (Stmt K))
    (h : ∀ st ∈ path, Tame g st.2 = true ∧ g.lookup st.1 = some (infer g st.2))
    (py : Store K) (hrun : pyRun [] path = some py) (x : String) (v : V K) (hx : py.get x = some v) :
    ∃ t, g.lookup x = some t ∧ sub v.ty t = true := by
  obtain ⟨c, _, hs⟩ := run_simulates g path h py hrun
  obtain ⟨t, hl, vc, hr, _⟩ := hs x v hx
  exact ⟨t, hl, rep_sub hr⟩

/-! ### declarations -/

theorem declare_snoc (p : List (Stmt K)) (st : Stmt K) : declare (p ++ [st]) = declStep (declare p) st := by
  unfold declare; rw [List.foldl_append]; rfl

/-! ### truncation of the rational witnesses -/

theorem trunc_five_halves : (Num.trunc (5 / 2 : ℚ)) = 2 := by
  rw [trunc_eq]; norm_num [Int.floor_eq_iff]

theorem trunc_three_halves : (Num.trunc (3 / 2 : ℚ)) = 1 := by
  rw [trunc_eq]; norm_num [Int.floor_eq_iff]

theorem trunc_nine_quarters : (Num.trunc (9 / 4 : ℚ)) = 2 := by
  rw [trunc_eq]; norm_num [Int.floor_eq_iff]

end Reduino.Lemmas.C02
