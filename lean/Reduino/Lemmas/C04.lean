import Reduino.Lemmas.Field
import Reduino.Lemmas.C19
import Reduino.Fw.Actuators
import Reduino.Host.Led
import Reduino.Host.RGBLed
import Reduino.Host.Servo
import Reduino.Host.DCMotor
import Mathlib.Tactic.NormNum
import Mathlib.Tactic.Positivity
/- helper lemmas for Props/C04.lean -/
set_option linter.unusedSectionVars false
namespace Reduino.Lemmas.C04
open Reduino Reduino.Fw Reduino.Lemmas.C19

variable {K : Type} [Field K] [LinearOrder K] [IsStrictOrderedRing K] [FloorRing K]

/-! ## numbers -/

@[simp] theorem fzero_eq : (fzero : K) = 0 := by simp [fzero]
@[simp] theorem lit_half : (lit 1 2 : K) = 1 / 2 := by simp [lit]
@[simp] theorem fone_eq : (FMotor.one : K) = 1 := by simp [FMotor.one]

theorem trunc_nonneg_eq {x : K} (h : 0 ≤ x) : (Num.trunc x : Int) = ⌊x⌋ := by
  rw [trunc_eq, if_pos h]

theorem floor_half : ⌊(1 / 2 : K)⌋ = 0 := by
  rw [Int.floor_eq_iff]; constructor <;> norm_num

theorem clamp255_bounds (n : Int) : 0 ≤ clamp255 n ∧ clamp255 n ≤ 255 := by
  unfold clamp255; split_ifs <;> omega

theorem clamp255_id {n : Int} (h0 : 0 ≤ n) (h1 : n ≤ 255) : clamp255 n = n := by
  unfold clamp255; split_ifs <;> omega

theorem hclamp_eq (n : Int) : Host.Led.clamp255 n = clamp255 n := by
  unfold Host.Led.clamp255 clamp255; split_ifs <;> omega

/-! ## event projections -/

def dutiesL (l : List Ev) : List Int := l.filterMap fun | .aWrite _ d => some d | _ => none
def delaysL (l : List Ev) : List Int := l.filterMap fun | .delay ms => some ms | _ => none

@[simp] theorem dutiesL_nil : dutiesL [] = [] := rfl
@[simp] theorem delaysL_nil : delaysL [] = [] := rfl
@[simp] theorem dutiesL_append (a b : List Ev) : dutiesL (a ++ b) = dutiesL a ++ dutiesL b := by
  simp [dutiesL]
@[simp] theorem delaysL_append (a b : List Ev) : delaysL (a ++ b) = delaysL a ++ delaysL b := by
  simp [delaysL]
@[simp] theorem dutiesL_cons_aWrite (p d : Int) (l : List Ev) : dutiesL (.aWrite p d :: l) = d :: dutiesL l := by
  simp [dutiesL]
@[simp] theorem dutiesL_cons_dWrite (p d : Int) (l : List Ev) : dutiesL (.dWrite p d :: l) = dutiesL l := by
  simp [dutiesL]
@[simp] theorem dutiesL_cons_delay (d : Int) (l : List Ev) : dutiesL (.delay d :: l) = dutiesL l := by
  simp [dutiesL]
@[simp] theorem delaysL_cons_aWrite (p d : Int) (l : List Ev) : delaysL (.aWrite p d :: l) = delaysL l := by
  simp [delaysL]
@[simp] theorem delaysL_cons_dWrite (p d : Int) (l : List Ev) : delaysL (.dWrite p d :: l) = delaysL l := by
  simp [delaysL]
@[simp] theorem delaysL_cons_delay (d : Int) (l : List Ev) : delaysL (.delay d :: l) = d :: delaysL l := by
  simp [delaysL]

/-! ## DCMotor -/

theorem clampSpeed_eq (x : K) : FMotor.clampSpeed x = if 1 < x then 1 else if x < -1 then -1 else x := by
  simp only [FMotor.clampSpeed, fone_eq]
  split_ifs <;> first | rfl | (exfalso; linarith)

theorem clampSpeed_host (x : K) : FMotor.clampSpeed x = Host.Motor.clamp (.flt x) := by
  rw [clampSpeed_eq, clamp_eq, C19.toF_flt]

theorem clampSpeed_bounds (x : K) : (-1 : K) ≤ FMotor.clampSpeed x ∧ FMotor.clampSpeed x ≤ 1 := by
  rw [clampSpeed_eq]; split_ifs <;> constructor <;> linarith

theorem clampSpeed_id {x : K} (h0 : -1 ≤ x) (h1 : x ≤ 1) : FMotor.clampSpeed x = x := by
  rw [clampSpeed_eq, if_neg (not_lt.mpr h1), if_neg (not_lt.mpr h0)]

def effOf (inv : Bool) (sp : K) : K := if inv then -sp else sp

theorem abs_effOf (inv : Bool) (sp : K) : |effOf inv sp| = |sp| := by
  unfold effOf; split <;> simp

/-- the duty the firmware puts on the enable pin for an applied speed -/
def dutyL (applied : K) : Int := clamp255 (Num.trunc (|applied| * 255 + 1 / 2))

theorem dutyL_bounds (x : K) : 0 ≤ dutyL x ∧ dutyL x ≤ 255 := clamp255_bounds _

def NotTinyL (x : K) : Prop := x = 0 ∨ 1 / 510 ≤ |x|

theorem dutyL_eq_zero_iff {x : K} (h : NotTinyL x) : dutyL x = 0 ↔ x = 0 := by
  constructor
  · intro hd
    rcases h with h | h
    · exact h
    · exfalso
      have h1 : (1 : K) ≤ |x| * 255 + 1 / 2 := by linarith
      have h2 : (1 : Int) ≤ ⌊|x| * 255 + 1 / 2⌋ := Int.le_floor.mpr (by exact_mod_cast h1)
      unfold dutyL at hd
      rw [trunc_nonneg_eq (by linarith)] at hd
      unfold clamp255 at hd
      split_ifs at hd <;> omega
  · intro hx
    subst hx
    unfold dutyL
    rw [abs_zero, zero_mul, zero_add, trunc_nonneg_eq (by norm_num), floor_half]
    rfl

def driveSt (m : FMotor K) (value : K) (store : Bool) : FMotor K :=
  { pins := m.pins, speed := if store then FMotor.clampSpeed value else m.speed, inverted := m.inverted,
    mode := if dutyL (effOf m.inverted (FMotor.clampSpeed value)) = 0 then .coast else .drive }

def driveEvs (pins : Int × Int × Int) (eff : K) : List Ev :=
  (if dutyL eff = 0 then [.dWrite pins.1 0, .dWrite pins.2.1 0]
   else if 0 < eff then [.dWrite pins.1 1, .dWrite pins.2.1 0]
   else [.dWrite pins.1 0, .dWrite pins.2.1 1]) ++ [.aWrite pins.2.2 (dutyL eff)]

theorem ab_eq {eff : K} (h : |eff| ≤ 1) :
    (if (1 : K) < (if 0 ≤ eff then eff else -eff) then 1 else (if 0 ≤ eff then eff else -eff)) = |eff| := by
  have : (if 0 ≤ eff then eff else -eff) = |eff| := by
    split
    · exact (abs_of_nonneg ‹_›).symm
    · exact (abs_of_neg (not_le.mp ‹_›)).symm
  rw [this, if_neg (not_lt.mpr h)]

theorem drive_eq (m : FMotor K) (value : K) (store : Bool) :
    FMotor.drive m value store =
      (driveSt m value store, driveEvs m.pins (effOf m.inverted (FMotor.clampSpeed value))) := by
  have hb : |effOf m.inverted (FMotor.clampSpeed value)| ≤ 1 := by
    rw [abs_effOf, abs_le]; exact clampSpeed_bounds value
  have hab := ab_eq hb
  unfold effOf at hab hb
  simp only [FMotor.drive, fzero_eq, fone_eq, lit_half, ofInt_eq, Int.cast_ofNat, driveSt, driveEvs, effOf, dutyL]
  rw [hab]
  cases store <;> rfl

@[simp] theorem driveSt_pins (m : FMotor K) (v : K) (b : Bool) : (driveSt m v b).pins = m.pins := rfl
@[simp] theorem driveSt_inverted (m : FMotor K) (v : K) (b : Bool) : (driveSt m v b).inverted = m.inverted := rfl

theorem driveSt_driveSt (m : FMotor K) (v w : K) (b : Bool) :
    driveSt (driveSt m v b) w true = driveSt m w true := rfl

theorem notTiny_effOf {inv : Bool} {x : K} (h : NotTinyL x) : NotTinyL (effOf inv x) := by
  unfold NotTinyL at h ⊢
  rw [abs_effOf]
  rcases h with h | h
  · left; subst h; unfold effOf; split <;> simp
  · right; exact h

theorem effOf_bounds {inv : Bool} {x : K} (h0 : -1 ≤ x) (h1 : x ≤ 1) : |effOf inv x| ≤ 1 := by
  rw [abs_effOf, abs_le]; exact ⟨h0, h1⟩

theorem ite_duty {β : Type} {x : K} (h : NotTinyL x) (a b : β) :
    (if dutyL x = 0 then a else b) = if x = 0 then a else b := by
  simp only [dutyL_eq_zero_iff h]

theorem clampSpeed_toF (v : Val K) : FMotor.clampSpeed v.toF = Host.Motor.clamp v := by
  rw [clampSpeed_eq, clamp_eq]

theorem dutiesL_driveEvs (pins : Int × Int × Int) (eff : K) : dutiesL (driveEvs pins eff) = [dutyL eff] := by
  unfold driveEvs; split_ifs <;> simp

theorem delaysL_driveEvs (pins : Int × Int × Int) (eff : K) : delaysL (driveEvs pins eff) = [] := by
  unfold driveEvs; split_ifs <;> simp

/-! ### ramp -/

def rampVal (start target : K) (i : Int) : K := start + (target - start) * ((i : K) / 20)
def rampD (delay : K) : List Ev := if 0 < delay then [.delay (Num.trunc delay)] else []

def rampEvs (pins : Int × Int × Int) (inv : Bool) (start target delay : K) : Nat → Int → List Ev
  | 0, _ => []
  | k + 1, i => driveEvs pins (effOf inv (FMotor.clampSpeed (rampVal start target i))) ++ rampD delay ++
      rampEvs pins inv start target delay k (i + 1)

def rampSt (start target : K) : Nat → Int → FMotor K → FMotor K
  | 0, _, m => m
  | k + 1, i, m => rampSt start target k (i + 1) (driveSt m (rampVal start target i) true)

theorem rampLoop_eq (start target delay : K) (k : Nat) (i : Int) (m : FMotor K) (acc : List Ev) :
    FMotor.rampLoop start target delay k i m acc =
      (rampSt start target k i m, acc ++ rampEvs m.pins m.inverted start target delay k i) := by
  induction k generalizing i m acc with
  | zero => simp [FMotor.rampLoop, rampSt, rampEvs]
  | succ k ih =>
    have hv : start + (target - start) * ((Num.ofInt i : K) / Num.ofInt 20) = rampVal start target i := by
      simp [rampVal]
    have hd : (if (fzero : K) < delay then [Ev.delay (Num.trunc delay)] else []) = rampD delay := by
      simp [rampD]
    simp only [FMotor.rampLoop, hv, hd, drive_eq, ih, rampSt, rampEvs, driveSt_pins, driveSt_inverted,
      List.append_assoc]

theorem rampSt_eq (start target : K) (k : Nat) (i : Int) (m : FMotor K) :
    rampSt start target k i m =
      if k = 0 then m else driveSt m (rampVal start target (i + k - 1)) true := by
  induction k generalizing i m with
  | zero => rfl
  | succ k ih =>
    rw [rampSt, ih]
    by_cases hk : k = 0
    · subst hk; simp
    · rw [if_neg hk, if_neg (Nat.succ_ne_zero k), driveSt_driveSt]
      congr 2; push_cast; ring

theorem rampVal_end (start target : K) : rampVal start target 20 = target := by
  unfold rampVal; norm_num

theorem dutiesL_rampEvs (pins : Int × Int × Int) (inv : Bool) (start target delay : K) (k : Nat) (i : Int) :
    ∀ d ∈ dutiesL (rampEvs pins inv start target delay k i), 0 ≤ d ∧ d ≤ 255 := by
  induction k generalizing i with
  | zero => simp [rampEvs]
  | succ k ih =>
    intro d hd
    simp only [rampEvs, dutiesL_append, dutiesL_driveEvs, List.mem_append, List.mem_singleton] at hd
    rcases hd with (hd | hd) | hd
    · subst hd; exact dutyL_bounds _
    · unfold rampD at hd; split at hd <;> simp at hd
    · exact ih _ d hd

theorem delaysL_rampEvs (pins : Int × Int × Int) (inv : Bool) (start target delay : K) (k : Nat) (i : Int) :
    delaysL (rampEvs pins inv start target delay k i) =
      if 0 < delay then List.replicate k (Num.trunc delay) else [] := by
  induction k generalizing i with
  | zero => simp [rampEvs]
  | succ k ih =>
    simp only [rampEvs, delaysL_append, delaysL_driveEvs, ih, List.nil_append]
    unfold rampD
    split <;> simp [List.replicate_succ]

/-! ### host side -/

theorem host_apply_eq (s : Host.Motor K) (sp : K) :
    Host.Motor.apply s sp =
      { speed := s.speed, inverted := s.inverted,
        mode := if effOf s.inverted sp = 0 then .coast else .drive, applied := effOf s.inverted sp } := by
  simp only [Host.Motor.apply, zero_eq, effOf]
  by_cases h : (if s.inverted = true then -sp else sp) = 0
  · simp [h]
  · rcases lt_or_gt_of_ne h with h' | h' <;> simp [h, h', not_lt.mpr h'.le]

theorem host_setSpeed_eq (s : Host.Motor K) (v : Val K) :
    Host.Motor.setSpeed s v =
      { speed := Host.Motor.clamp v, inverted := s.inverted,
        mode := if effOf s.inverted (Host.Motor.clamp v) = 0 then .coast else .drive,
        applied := effOf s.inverted (Host.Motor.clamp v) } := by
  unfold Host.Motor.setSpeed
  simp only [host_apply_eq]

theorem host_setSpeed_setSpeed (s : Host.Motor K) (v w : Val K) :
    Host.Motor.setSpeed (Host.Motor.setSpeed s v) w = Host.Motor.setSpeed s w := by
  simp only [host_setSpeed_eq]

theorem rampGo_st (start stepv : K) (delay : Val K) (k : Nat) (s : Host.Motor K) (sl : List (Val K)) (tr : List K) :
    (Host.Motor.rampGo start stepv delay k s sl tr).1 =
      if k = 0 then s else Host.Motor.setSpeed s (.flt (start + stepv * 20)) := by
  induction k generalizing s sl tr with
  | zero => simp [Host.Motor.rampGo]
  | succ k ih =>
    rw [rampGo_succ, ih]
    by_cases hk : k = 0
    · subst hk; simp
    · rw [if_neg hk, if_neg (Nat.succ_ne_zero k), host_setSpeed_setSpeed]

theorem rampGo_trace_last (start stepv : K) (delay : Val K) (s : Host.Motor K) :
    Host.Motor.clamp (.flt (start + stepv * 20)) ∈ (Host.Motor.rampGo start stepv delay 20 s [] []).2.2 := by
  rw [(rampGo_spec start stepv delay 20 0 s [] [] rfl).2.1]
  simp only [List.reverse_nil, List.nil_append, List.mem_map, List.mem_range]
  exact ⟨19, by norm_num, by norm_num⟩

/-! ## Servo -/

theorem clampTo_eq (lo hi x : K) :
    FServo.clampTo lo hi x = if hi < (if x < lo then lo else x) then hi else (if x < lo then lo else x) := rfl

theorem clampTo_bounds {lo hi : K} (h : lo ≤ hi) (x : K) :
    lo ≤ FServo.clampTo lo hi x ∧ FServo.clampTo lo hi x ≤ hi := by
  rw [clampTo_eq]; split_ifs <;> constructor <;> linarith

theorem clampTo_id {lo hi x : K} (h0 : lo ≤ x) (h1 : x ≤ hi) : FServo.clampTo lo hi x = x := by
  rw [clampTo_eq, if_neg (not_lt.mpr h0), if_neg (not_lt.mpr h1)]

theorem isZ_false {x : K} (h : x ≠ 0) : FServo.isZ x = false := by
  unfold FServo.isZ
  rw [fzero_eq]
  rcases lt_or_gt_of_ne h with h' | h' <;> simp [h']

/-! ### more DCMotor facts -/

theorem duties_driveEvs_bounds (pins : Int × Int × Int) (eff : K) :
    ∀ d ∈ dutiesL (driveEvs pins eff), 0 ≤ d ∧ d ≤ 255 := by
  intro d hd
  rw [dutiesL_driveEvs, List.mem_singleton] at hd
  subst hd; exact dutyL_bounds _

theorem fabs_eq (c : K) : Host.Motor.fabs c = |c| := by
  unfold Host.Motor.fabs
  rw [zero_eq]
  split_ifs with h1 h2
  · exact (abs_of_neg h1).symm
  · exact (abs_of_pos h2).symm
  · have : c = 0 := le_antisymm (not_lt.mp h2) (not_lt.mp h1)
    rw [this, abs_zero]

theorem backward_eq (v : Val K) :
    FMotor.clampSpeed (-(if v.toF < (fzero : K) then -v.toF else v.toF)) =
      Host.Motor.clamp (.flt (-(Host.Motor.fabs (Host.Motor.clamp v)))) := by
  have hc := clamp_bounds v
  have habs : |Host.Motor.clamp v| ≤ 1 := abs_le.mpr hc
  rw [fabs_eq, clamp_id (by linarith [abs_nonneg (Host.Motor.clamp v)]) (by linarith [abs_nonneg (Host.Motor.clamp v)]),
    fzero_eq, clamp_eq]
  generalize v.toF = x
  rcases lt_or_ge x 0 with hx | hx
  · rw [if_pos hx, clampSpeed_eq]
    split_ifs <;> first | (exfalso; linarith) | simp only [abs_of_neg hx, abs_one, abs_neg, neg_neg]
  · rw [if_neg (not_lt.mpr hx), clampSpeed_eq]
    split_ifs <;> first | (exfalso; linarith) | simp only [abs_of_nonneg hx, abs_one]

theorem host_clamp_clamp (v : Val K) : Host.Motor.clamp (.flt (Host.Motor.clamp v)) = Host.Motor.clamp v :=
  clamp_id (clamp_bounds v).1 (clamp_bounds v).2

theorem clampSpeed_clampSpeed (x : K) : FMotor.clampSpeed (FMotor.clampSpeed x) = FMotor.clampSpeed x :=
  clampSpeed_id (clampSpeed_bounds x).1 (clampSpeed_bounds x).2

/-! ## Led -/

def levelL : Ev → Option Int
  | .dWrite _ l => some (if l = 0 then 0 else 255)
  | .aWrite _ d => some d
  | _ => none

def LedInvL (l : FLed) : Prop := 0 ≤ l.brightness ∧ l.brightness ≤ 255 ∧ (l.state = true ↔ 0 < l.brightness)

theorem toULong_of_not_lt {d : Val K} (h : ¬ Val.lt d (.int 0) = true) : ∃ ms, toULong d = some ms := by
  cases d with
  | int n =>
    have : ¬ n < 0 := by simpa [Val.lt] using h
    exact ⟨n, by simp [toULong, this]⟩
  | flt x =>
    have : ¬ x < 0 := by
      rw [lt_iff, C19.toF_flt, C19.toF_int] at h
      simpa using h
    exact ⟨Num.trunc x, by simp [toULong, this]⟩

theorem toCInt_int (n : Int) : toCInt (Val.int n : Val K) = n := rfl

/-! ### blink -/

theorem dutiesL_blinkLoop (pin d : Int) (n : Nat) : dutiesL (FLed.blinkLoop pin d n) = [] := by
  induction n with
  | zero => rfl
  | succ n ih => simp [FLed.blinkLoop, ih]

theorem delaysL_blinkLoop (pin d : Int) (n : Nat) : delaysL (FLed.blinkLoop pin d n) = List.replicate (2 * n) d := by
  induction n with
  | zero => rfl
  | succ n ih =>
    simp only [FLed.blinkLoop, delaysL_append, ih]
    have : 2 * (n + 1) = (2 * n + 1) + 1 := by ring
    rw [this, List.replicate_succ, List.replicate_succ]
    simp

/-! ### fades -/

theorem fadeIn_next (v k : Int) : (if v + k > 255 then 255 else v + k) = min 255 (v + k) := by
  split <;> omega

theorem fadeOut_next (v k : Int) : (if v - k < 0 then 0 else v - k) = max 0 (v - k) := by
  split <;> omega

theorem fadeIn_duties (pin k ms : Int) (h : 0 < k) (v : Int) (hv : 0 ≤ v) :
    ∀ d ∈ dutiesL (FLed.fadeInLoop pin k ms h v), 0 ≤ d ∧ d ≤ 255 := by
  fun_induction FLed.fadeInLoop pin k ms h v with
  | case1 v hlt ih =>
    intro d hd
    simp only [List.cons_append, List.nil_append, dutiesL_cons_aWrite, dutiesL_cons_delay, List.mem_cons] at hd
    rcases hd with hd | hd
    · omega
    · exact ih (by split <;> omega) d hd
  | case2 v hge => simp

theorem fadeOut_duties (pin k ms : Int) (h : 0 < k) (v : Int) (hv : v ≤ 255) :
    ∀ d ∈ dutiesL (FLed.fadeOutLoop pin k ms h v), 0 ≤ d ∧ d ≤ 255 := by
  fun_induction FLed.fadeOutLoop pin k ms h v with
  | case1 v hlt ih =>
    intro d hd
    simp only [List.cons_append, List.nil_append, dutiesL_cons_aWrite, dutiesL_cons_delay, List.mem_cons] at hd
    rcases hd with hd | hd
    · omega
    · exact ih (by split <;> omega) d hd
  | case2 v hge => simp

theorem fadeIn_delays (pin k ms : Int) (h : 0 < k) (v : Int) :
    delaysL (FLed.fadeInLoop pin k ms h v) = (Host.Led.fadeInLevels v k h).map (fun _ => ms) := by
  fun_induction FLed.fadeInLoop pin k ms h v with
  | case1 v hlt ih =>
    rw [Host.Led.fadeInLevels, dif_pos hlt]
    have e : (if _h : v + k > 255 then 255 else v + k) = min 255 (v + k) := by split <;> omega
    rw [e] at ih
    simp only [List.cons_append, List.nil_append, delaysL_cons_aWrite, delaysL_cons_delay, List.map_cons, ih,
      fadeIn_next]
  | case2 v hge =>
    rw [Host.Led.fadeInLevels, dif_neg hge]; rfl

theorem fadeOut_delays (pin k ms : Int) (h : 0 < k) (v : Int) :
    delaysL (FLed.fadeOutLoop pin k ms h v) = (Host.Led.fadeOutLevels v k h).map (fun _ => ms) := by
  fun_induction FLed.fadeOutLoop pin k ms h v with
  | case1 v hlt ih =>
    rw [Host.Led.fadeOutLevels, dif_pos hlt]
    have e : (if _h : v - k < 0 then 0 else v - k) = max 0 (v - k) := by split <;> omega
    rw [e] at ih
    simp only [List.cons_append, List.nil_append, delaysL_cons_aWrite, delaysL_cons_delay, List.map_cons, ih,
      fadeOut_next]
  | case2 v hge =>
    rw [Host.Led.fadeOutLevels, dif_neg hge]; rfl

/-! ### flash_pattern -/

def flashOne (pin : Int) (l : FLed) (v : Int) : FLed × List Ev :=
  if v ≤ 0 then ({ l with brightness := 0, state := false }, [.dWrite pin 0])
  else if v = 1 then ({ l with brightness := 255, state := true }, [.dWrite pin 1])
  else
    let b := if v > 255 then 255 else v
    ({ l with brightness := b, state := decide (b > 0) }, [.aWrite pin b])

theorem flashLoop_cons (pin d : Int) (l : FLed) (v : Int) (rest : List Int) :
    FLed.flashLoop pin d l (v :: rest) =
      ((FLed.flashLoop pin d (flashOne pin l v).1 rest).1,
       (flashOne pin l v).2 ++ (if rest.isEmpty then [] else [.delay d]) ++
         (FLed.flashLoop pin d (flashOne pin l v).1 rest).2) := by
  rw [FLed.flashLoop]
  rfl

theorem flashOne_inv (pin : Int) (l : FLed) (v : Int) : LedInvL (flashOne pin l v).1 := by
  unfold flashOne LedInvL
  split_ifs <;> first | (simp; omega) | simp

theorem flashOne_duties (pin : Int) (l : FLed) (v : Int) :
    ∀ d ∈ dutiesL (flashOne pin l v).2, 0 ≤ d ∧ d ≤ 255 := by
  unfold flashOne
  split_ifs <;> first | (simp; omega) | simp

theorem flashOne_delays (pin : Int) (l : FLed) (v : Int) : delaysL (flashOne pin l v).2 = [] := by
  unfold flashOne
  split_ifs <;> simp

theorem flashOne_level (pin : Int) (l : FLed) (v : Int) :
    (flashOne pin l v).2.filterMap levelL = [(flashOne pin l v).1.brightness] := by
  unfold flashOne
  split_ifs <;> simp [levelL]

theorem flashLoop_clamped (pin d : Int) (p : List Int) (l : FLed) :
    (∀ x ∈ dutiesL (FLed.flashLoop pin d l p).2, 0 ≤ x ∧ x ≤ 255) ∧
    (LedInvL l → LedInvL (FLed.flashLoop pin d l p).1) := by
  induction p generalizing l with
  | nil => simp [FLed.flashLoop]
  | cons v rest ih =>
    rw [flashLoop_cons]
    obtain ⟨ih1, ih2⟩ := ih (flashOne pin l v).1
    refine ⟨?_, fun _ => ih2 (flashOne_inv pin l v)⟩
    intro x hx
    simp only [dutiesL_append, List.mem_append] at hx
    rcases hx with (hx | hx) | hx
    · exact flashOne_duties pin l v x hx
    · split at hx <;> simp at hx
    · exact ih1 x hx

theorem flashLoop_delays (pin d : Int) (p : List Int) (l : FLed) :
    delaysL (FLed.flashLoop pin d l p).2 = List.replicate (p.length - 1) d := by
  induction p generalizing l with
  | nil => simp [FLed.flashLoop]
  | cons v rest ih =>
    rw [flashLoop_cons]
    simp only [delaysL_append, flashOne_delays, ih, List.nil_append, List.length_cons, Nat.add_sub_cancel]
    cases rest with
    | nil => simp
    | cons w rest' => simp [List.replicate_succ]

theorem flashLoop_level (pin d : Int) (p : List Int) (l : FLed) (hp : p ≠ []) :
    ((FLed.flashLoop pin d l p).2.filterMap levelL).getLast? = some (FLed.flashLoop pin d l p).1.brightness := by
  induction p generalizing l with
  | nil => exact absurd rfl hp
  | cons v rest ih =>
    rw [flashLoop_cons]
    cases rest with
    | nil => simp [FLed.flashLoop, flashOne_level]
    | cons w rest' =>
      simp only [List.filterMap_append, List.getLast?_append, ih _ (List.cons_ne_nil w rest')]
      rfl

/-! ### host side -/

theorem host_blink_ok {s : Host.Led} {d times : Val K} (h : (Host.Led.step s (.blink d times)).res = .ok) :
    ¬ Val.lt d (.int 0) = true ∧ ∃ n : Int, times = .int n ∧ 0 < n ∧
      Host.Led.step s (.blink d times) =
        { st := Host.Led.setB 0, res := .ok, sleeps := List.replicate (2 * n.toNat) d } := by
  simp only [Host.Led.step] at h ⊢
  split_ifs at h ⊢ with h1 h2
  cases times with
  | flt x => cases h
  | int n => exact ⟨h1, n, rfl, pos_of_not_le_zero h2, rfl⟩

theorem host_fadeIn_ok {s : Host.Led} {stepv delay : Val K}
    (h : (Host.Led.step s (.fadeIn stepv delay)).res = .ok) :
    ¬ Val.lt delay (.int 0) = true ∧ ∃ (k : Int) (hk : 0 < k), stepv = .int k ∧
      Host.Led.step s (.fadeIn stepv delay) =
        { st := Host.Led.setB 255, res := .ok,
          sleeps := (Host.Led.fadeInLevels (Host.Led.clamp255 s.brightness) k hk).map (fun _ => delay) } := by
  simp only [Host.Led.step] at h ⊢
  split_ifs at h ⊢ with h1 h2
  cases stepv with
  | flt x => cases h
  | int k =>
    simp only [] at h ⊢
    split_ifs at h ⊢ with hk
    exact ⟨h2, k, hk, rfl, rfl⟩

theorem host_fadeOut_ok {s : Host.Led} {stepv delay : Val K}
    (h : (Host.Led.step s (.fadeOut stepv delay)).res = .ok) :
    ¬ Val.lt delay (.int 0) = true ∧ ∃ (k : Int) (hk : 0 < k), stepv = .int k ∧
      Host.Led.step s (.fadeOut stepv delay) =
        { st := Host.Led.setB 0, res := .ok,
          sleeps := (Host.Led.fadeOutLevels (Host.Led.clamp255 s.brightness) k hk).map (fun _ => delay) } := by
  simp only [Host.Led.step] at h ⊢
  split_ifs at h ⊢ with h1 h2
  cases stepv with
  | flt x => cases h
  | int k =>
    simp only [] at h ⊢
    split_ifs at h ⊢ with hk
    exact ⟨h2, k, hk, rfl, rfl⟩

theorem host_flash_ok {s : Host.Led} {p : List (Val K)} {delay : Val K}
    (h : (Host.Led.step s (.flashPattern p delay)).res = .ok) :
    ¬ Val.lt delay (.int 0) = true ∧
      Host.Led.step s (.flashPattern p delay) = Host.Led.flashGo delay s p [] := by
  simp only [Host.Led.step] at h ⊢
  split_ifs at h ⊢ with h1
  exact ⟨h1, rfl⟩

def flashNext (delay : Val K) (s' : Host.Led) (rest acc : List (Val K)) : Host.Out Host.Led K :=
  match rest with
  | [] => { st := s', res := .ok, sleeps := acc.reverse }
  | _ :: _ => Host.Led.flashGo delay s' rest (delay :: acc)

theorem flashGo_cons_int (delay : Val K) (s : Host.Led) (v : Int) (rest : List (Val K)) (acc : List (Val K))
    (h : (Host.Led.flashGo delay s (.int v :: rest) acc).res = .ok) :
    0 ≤ v ∧ v ≤ 255 ∧
    Host.Led.flashGo delay s (.int v :: rest) acc =
      flashNext delay (Host.Led.setB (if v = 1 then 255 else v)) rest acc := by
  have hbad : ((!(Val.isZero (Val.int v : Val K) || (Val.le (Val.int v : Val K) (.int 1) && Val.le (.int 1) (Val.int v : Val K))) &&
      !(Val.between (.int 0) (Val.int v : Val K) (.int 255))) = true) ↔ ¬ (0 ≤ v ∧ v ≤ 255) := by
    simp [Val.isZero, Val.lt, Val.le, Val.between]
    omega
  have hz : (Val.isZero (Val.int v : Val K) = true) ↔ v = 0 := by
    simp [Val.isZero, Val.lt]
    omega
  have ho : ((Val.le (Val.int v : Val K) (.int 1) && Val.le (.int 1) (Val.int v : Val K)) = true) ↔ v = 1 := by
    simp [Val.le]
    omega
  by_cases hv : 0 ≤ v ∧ v ≤ 255
  · have hs' : (if Val.isZero (Val.int v : Val K) = true then Host.Led.setB 0
        else if (Val.le (Val.int v : Val K) (.int 1) && Val.le (.int 1) (Val.int v : Val K)) = true then Host.Led.setB 255
        else Host.Led.setB (Val.int v : Val K).toInt) = Host.Led.setB (if v = 1 then 255 else v) := by
      simp only [hz, ho, Val.toInt]
      split_ifs <;> first | rfl | (subst_vars; rfl) | omega
    refine ⟨hv.1, hv.2, ?_⟩
    rw [Host.Led.flashGo]
    simp only []
    rw [if_neg (by rw [hbad]; exact not_not.mpr hv), hs']
    rfl
  · exfalso
    rw [Host.Led.flashGo] at h
    simp only [] at h
    rw [if_pos (hbad.mpr hv)] at h
    cases h

theorem flash_agree (pin ms : Int) (delay : Val K) : ∀ (ints : List Int) (f : FLed) (s : Host.Led) (acc : List (Val K)),
    (Host.Led.flashGo delay s (ints.map Val.int) acc).res = .ok →
    f.brightness = s.brightness → f.state = s.state →
    (FLed.flashLoop pin ms f ints).1.brightness = (Host.Led.flashGo delay s (ints.map Val.int) acc).st.brightness ∧
    (FLed.flashLoop pin ms f ints).1.state = (Host.Led.flashGo delay s (ints.map Val.int) acc).st.state ∧
    (Host.Led.flashGo delay s (ints.map Val.int) acc).sleeps =
      acc.reverse ++ List.replicate (ints.length - 1) delay := by
  intro ints
  induction ints with
  | nil =>
    intro f s acc _ hb hs
    simp [Host.Led.flashGo, FLed.flashLoop, hb, hs]
  | cons v rest ih =>
    intro f s acc hok hb hs
    rw [List.map_cons] at hok ⊢
    obtain ⟨h0, h1, heq⟩ := flashGo_cons_int delay s v (rest.map Val.int) acc hok
    rw [heq] at hok ⊢
    rw [flashLoop_cons]
    have hb1 : (flashOne pin f v).1.brightness = (Host.Led.setB (if v = 1 then 255 else v)).brightness := by
      unfold flashOne Host.Led.setB
      split_ifs <;> simp <;> omega
    have hs1 : (flashOne pin f v).1.state = (Host.Led.setB (if v = 1 then 255 else v)).state := by
      unfold flashOne Host.Led.setB
      split_ifs <;> simp <;> omega
    cases rest with
    | nil =>
      simp only [List.map_nil, FLed.flashLoop, List.length_cons, List.length_nil, flashNext]
      exact ⟨hb1, hs1, by simp⟩
    | cons w rest' =>
      simp only [List.map_cons, flashNext] at hok ⊢
      obtain ⟨i1, i2, i3⟩ := ih (flashOne pin f v).1 (Host.Led.setB (if v = 1 then 255 else v)) (delay :: acc)
        (by simpa using hok) hb1 hs1
      simp only [List.map_cons] at i1 i2 i3
      refine ⟨i1, i2, ?_⟩
      rw [i3]
      simp [List.replicate_succ]

theorem exists_ints (p : List (Val K)) (h : ∀ e ∈ p, ∃ n : Int, e = Val.int n) :
    ∃ ints : List Int, p = ints.map Val.int := by
  induction p with
  | nil => exact ⟨[], rfl⟩
  | cons e rest ih =>
    obtain ⟨n, rfl⟩ := h e List.mem_cons_self
    obtain ⟨ints, rfl⟩ := ih (fun e he => h e (List.mem_cons_of_mem _ he))
    exact ⟨n :: ints, rfl⟩

theorem map_toInt_int (ints : List Int) : (ints.map (Val.int : Int → Val K)).map Val.toInt = ints := by
  induction ints with
  | nil => rfl
  | cons n rest ih => simp only [List.map_cons, ih, Val.toInt]

/-! ## RGBLed -/

/-! ### the integer rounding of the fade block -/

theorem ediv_eq_of {a n y : Int} (hn : 0 < n) (h1 : y * n ≤ a) (h2 : a < y * n + n) : a / n = y :=
  (Int.ediv_eq_iff_of_pos hn).mpr ⟨h1, h2⟩

theorem fadeChan_nonneg_eq {s t i n : Int} (hn : 0 ≤ n) (h : 0 ≤ (t - s) * i) :
    FRgb.fadeChan s t i n = s + ((t - s) * i + n / 2) / n := by
  have h2 : Int.tdiv n 2 = n / 2 := Int.tdiv_eq_ediv_of_nonneg hn
  unfold FRgb.fadeChan
  simp only [ge_iff_le, h, if_true, h2]
  rw [Int.tdiv_eq_ediv_of_nonneg (by omega)]

theorem fadeChan_neg_eq {s t i n : Int} (hn : 0 ≤ n) (h : (t - s) * i < 0) :
    FRgb.fadeChan s t i n = s - ((s - t) * i + n / 2) / n := by
  have h2 : Int.tdiv n 2 = n / 2 := Int.tdiv_eq_ediv_of_nonneg hn
  have h3 : (s - t) * i = -((t - s) * i) := by ring
  unfold FRgb.fadeChan
  simp only [ge_iff_le, not_le.mpr h, if_false, h2]
  have : (t - s) * i - n / 2 = -((s - t) * i + n / 2) := by rw [h3]; ring
  rw [this, Int.neg_tdiv, Int.tdiv_eq_ediv_of_nonneg (by omega)]
  ring

theorem half_div_bounds {D i n : Int} (hD : 0 ≤ D) (hn : 0 < n) (hi0 : 0 ≤ i) (hi : i ≤ n) :
    0 ≤ (D * i + n / 2) / n ∧ (D * i + n / 2) / n ≤ D := by
  have h1 : 0 ≤ D * i := Int.mul_nonneg hD hi0
  have h2 : D * i ≤ D * n := Int.mul_le_mul_of_nonneg_left hi hD
  constructor
  · exact Int.ediv_nonneg (by omega) hn.le
  · have : (D * i + n / 2) / n < D + 1 := by
      apply Int.ediv_lt_of_lt_mul hn
      have : (D + 1) * n = D * n + n := by ring
      omega
    omega

theorem fadeChan_bounds {s t i n : Int} (hn : 0 < n) (hi0 : 0 ≤ i) (hi : i ≤ n) :
    (s ≤ t → s ≤ FRgb.fadeChan s t i n ∧ FRgb.fadeChan s t i n ≤ t) ∧
    (t ≤ s → t ≤ FRgb.fadeChan s t i n ∧ FRgb.fadeChan s t i n ≤ s) := by
  constructor
  · intro hst
    have hnum : 0 ≤ (t - s) * i := Int.mul_nonneg (by omega) hi0
    rw [fadeChan_nonneg_eq hn.le hnum]
    obtain ⟨b1, b2⟩ := half_div_bounds (D := t - s) (by omega) hn hi0 hi
    omega
  · intro hts
    rcases lt_or_ge ((t - s) * i) 0 with hneg | hnn
    · rw [fadeChan_neg_eq hn.le hneg]
      obtain ⟨b1, b2⟩ := half_div_bounds (D := s - t) (by omega) hn hi0 hi
      omega
    · rw [fadeChan_nonneg_eq hn.le hnn]
      have h0 : (t - s) * i ≤ 0 := Int.mul_nonpos_of_nonpos_of_nonneg (by omega) hi0
      have h1 : (t - s) * i = 0 := by omega
      rw [h1, Int.zero_add, Int.ediv_eq_zero_of_lt (by omega) (by omega)]
      omega

theorem fadeChan_end (s t n : Int) (hn : 0 < n) : FRgb.fadeChan s t n n = t := by
  rcases lt_or_ge ((t - s) * n) 0 with hneg | hnn
  · rw [fadeChan_neg_eq hn.le hneg, ediv_eq_of (y := s - t) hn (by omega) (by omega)]
    ring
  · rw [fadeChan_nonneg_eq hn.le hnn, ediv_eq_of (y := t - s) hn (by omega) (by omega)]
    ring

/-- the firmware's value in terms of the Euclidean quotient and remainder of `(goal - cur) * i` by `n` -/
theorem fadeChan_eq (cur goal i n q r : Int) (hn : 0 < n) (hnum : (goal - cur) * i = q * n + r)
    (hr0 : 0 ≤ r) (hr : r < n) :
    FRgb.fadeChan cur goal i n =
      cur + q + (if 0 ≤ (goal - cur) * i then (if n ≤ 2 * r then 1 else 0) else (if n < 2 * r then 1 else 0)) := by
  have e1 : (q + 1) * n = q * n + n := by ring
  have e2 : (-q) * n = -(q * n) := by ring
  have e3 : (-q - 1) * n = -(q * n) - n := by ring
  by_cases hnn : 0 ≤ (goal - cur) * i
  · rw [fadeChan_nonneg_eq hn.le hnn, if_pos hnn]
    by_cases h2 : n ≤ 2 * r
    · rw [if_pos h2, ediv_eq_of (y := q + 1) hn (by rw [e1]; omega) (by rw [e1]; omega)]
      ring
    · rw [if_neg h2, ediv_eq_of (y := q) hn (by omega) (by omega)]
      ring
  · have hneg : (goal - cur) * i < 0 := not_le.mp hnn
    have h3 : (cur - goal) * i = -((goal - cur) * i) := by ring
    rw [fadeChan_neg_eq hn.le hneg, if_neg hnn]
    by_cases h2 : n < 2 * r
    · rw [if_pos h2, ediv_eq_of (y := -q - 1) hn (by rw [e3]; omega) (by rw [e3]; omega)]
      ring
    · rw [if_neg h2, ediv_eq_of (y := -q) hn (by rw [e2]; omega) (by rw [e2]; omega)]
      ring

/-- Python's `round` of the exact interpolated value, in the same terms -/
theorem roundHEK_rat (c q r n : Int) (hn : 0 < n) (hr0 : 0 ≤ r) (hr : r < n) :
    roundHEK ((c : K) + ((q * n + r : Int) : K) / (n : K)) =
      c + q + (if 2 * r < n then 0 else if n < 2 * r then 1 else if (c + q) % 2 = 0 then 0 else 1) := by
  have hn' : (0 : K) < (n : K) := by exact_mod_cast hn
  have hr0' : (0 : K) ≤ (r : K) := by exact_mod_cast hr0
  have hr' : (r : K) < (n : K) := by exact_mod_cast hr
  have hx : (c : K) + ((q * n + r : Int) : K) / (n : K) = ((c + q : Int) : K) + (r : K) / (n : K) := by
    push_cast; field_simp; ring
  have hfl : ⌊((c + q : Int) : K) + (r : K) / (n : K)⌋ = c + q := by
    rw [Int.floor_eq_iff]
    have h1 : 0 ≤ (r : K) / (n : K) := div_nonneg hr0' hn'.le
    have h2 : (r : K) / (n : K) < 1 := (div_lt_one hn').mpr hr'
    constructor <;> linarith
  have hlt : ((r : K) / (n : K) < 1 / 2) ↔ 2 * r < n := by
    rw [div_lt_iff₀ hn', ← Int.cast_lt (R := K)]
    push_cast
    constructor <;> intro h <;> linarith
  have hgt : (1 / 2 < (r : K) / (n : K)) ↔ n < 2 * r := by
    rw [lt_div_iff₀ hn', ← Int.cast_lt (R := K)]
    push_cast
    constructor <;> intro h <;> linarith
  rw [hx]
  unfold roundHEK
  simp only []
  rw [hfl, add_sub_cancel_left]
  simp only [hlt, hgt]
  split_ifs <;> omega

theorem fade_step_close (cur goal i n : Int) (hn : 0 < n) :
    (FRgb.fadeChan cur goal i n - Host.RGB.interp (α := K) cur goal i n).natAbs ≤ 1 ∧
    ((2 * ((goal - cur) * i)) % (2 * n) ≠ n → FRgb.fadeChan cur goal i n = Host.RGB.interp (α := K) cur goal i n) := by
  have hnum : (goal - cur) * i = ((goal - cur) * i / n) * n + (goal - cur) * i % n := by
    exact (Int.ediv_mul_add_emod _ _).symm
  have hmod : 2 * ((goal - cur) * i) % (2 * n) = 2 * ((goal - cur) * i % n) :=
    Int.mul_emod_mul_of_pos _ _ (by norm_num)
  have hr0 : 0 ≤ (goal - cur) * i % n := Int.emod_nonneg _ hn.ne'
  have hr : (goal - cur) * i % n < n := Int.emod_lt_of_pos _ hn
  rw [hmod]
  generalize (goal - cur) * i / n = q at hnum
  generalize (goal - cur) * i % n = r at hnum hr0 hr ⊢
  have hfw := fadeChan_eq cur goal i n q r hn hnum hr0 hr
  have hhost : Host.RGB.interp (α := K) cur goal i n =
      cur + q + (if 2 * r < n then 0 else if n < 2 * r then 1 else if (cur + q) % 2 = 0 then 0 else 1) := by
    rw [interp_eq, hnum]; exact roundHEK_rat cur q r n hn hr0 hr
  rw [hfw, hhost]
  split_ifs <;> omega

/-! ### the RGB blocks -/

def InRange (x : Int) : Prop := 0 ≤ x ∧ x ≤ 255
def ColorOk (c : Int × Int × Int) : Prop := InRange c.1 ∧ InRange c.2.1 ∧ InRange c.2.2

def writeSt (s : FRgb) (c : Int × Int × Int) : FRgb := { s with color := c, state := FRgb.isOn c }

theorem write_eq (s : FRgb) (c : Int × Int × Int) :
    FRgb.write s c = (writeSt s c, [.aWrite s.pins.1 c.1, .aWrite s.pins.2.1 c.2.1, .aWrite s.pins.2.2 c.2.2]) := rfl

@[simp] theorem writeSt_pins (s : FRgb) (c : Int × Int × Int) : (writeSt s c).pins = s.pins := rfl
@[simp] theorem writeSt_color (s : FRgb) (c : Int × Int × Int) : (writeSt s c).color = c := rfl
theorem writeSt_writeSt (s : FRgb) (c c' : Int × Int × Int) : writeSt (writeSt s c) c' = writeSt s c' := rfl

theorem duties_write (s : FRgb) (c : Int × Int × Int) (hc : ColorOk c) :
    ∀ x ∈ dutiesL (FRgb.write s c).2, InRange x := by
  intro x hx
  simp only [write_eq, dutiesL_cons_aWrite, dutiesL_nil, List.mem_cons, List.not_mem_nil, or_false] at hx
  rcases hx with rfl | rfl | rfl
  · exact hc.1
  · exact hc.2.1
  · exact hc.2.2

theorem clampC_ok (r g b : Val K) : ColorOk (FRgb.clampC r g b) :=
  ⟨clamp255_bounds _, clamp255_bounds _, clamp255_bounds _⟩

def fadeC (start target : Int × Int × Int) (i n : Int) : Int × Int × Int :=
  (FRgb.fadeChan start.1 target.1 i n, FRgb.fadeChan start.2.1 target.2.1 i n,
   FRgb.fadeChan start.2.2 target.2.2 i n)

theorem fadeChan_inRange {s t i n : Int} (hs : InRange s) (ht : InRange t) (hn : 0 < n) (hi0 : 0 ≤ i) (hi : i ≤ n) :
    InRange (FRgb.fadeChan s t i n) := by
  obtain ⟨b1, b2⟩ := fadeChan_bounds (s := s) (t := t) hn hi0 hi
  unfold InRange at *
  rcases le_total s t with h | h
  · have := b1 h; omega
  · have := b2 h; omega

theorem fadeC_ok {start target : Int × Int × Int} (hs : ColorOk start) (ht : ColorOk target) {i n : Int}
    (hn : 0 < n) (hi0 : 0 ≤ i) (hi : i ≤ n) : ColorOk (fadeC start target i n) :=
  ⟨fadeChan_inRange hs.1 ht.1 hn hi0 hi, fadeChan_inRange hs.2.1 ht.2.1 hn hi0 hi,
   fadeChan_inRange hs.2.2 ht.2.2 hn hi0 hi⟩

theorem fadeC_end (start target : Int × Int × Int) (n : Int) (hn : 0 < n) : fadeC start target n n = target := by
  simp [fadeC, fadeChan_end _ _ _ hn]

theorem fadeLoop_succ (start target : Int × Int × Int) (steps delayMs : Int) (k : Nat) (i : Int) (s : FRgb)
    (acc : List Ev) :
    FRgb.fadeLoop start target steps delayMs (k + 1) i s acc =
      FRgb.fadeLoop start target steps delayMs k (i + 1) (writeSt s (fadeC start target i steps))
        (acc ++ (FRgb.write s (fadeC start target i steps)).2 ++
          (if i ≠ steps ∧ 0 < delayMs then [.delay delayMs] else [])) := rfl

theorem fadeLoop_st (start target : Int × Int × Int) (steps delayMs : Int) (k : Nat) (i : Int) (s : FRgb)
    (acc : List Ev) :
    (FRgb.fadeLoop start target steps delayMs k i s acc).1 =
      if k = 0 then s else writeSt s (fadeC start target (i + k - 1) steps) := by
  induction k generalizing i s acc with
  | zero => rfl
  | succ k ih =>
    rw [fadeLoop_succ, ih]
    by_cases hk : k = 0
    · subst hk; simp
    · rw [if_neg hk, if_neg (Nat.succ_ne_zero k), writeSt_writeSt]
      congr 2; push_cast; ring

theorem fadeLoop_duties (start target : Int × Int × Int) (steps delayMs : Int) (k : Nat) (i : Int) (s : FRgb)
    (acc : List Ev) (hacc : ∀ x ∈ dutiesL acc, InRange x)
    (hc : ∀ j : Int, i ≤ j → j < i + k → ColorOk (fadeC start target j steps)) :
    ∀ x ∈ dutiesL (FRgb.fadeLoop start target steps delayMs k i s acc).2, InRange x := by
  induction k generalizing i s acc with
  | zero => exact hacc
  | succ k ih =>
    rw [fadeLoop_succ]
    apply ih
    · intro x hx
      simp only [dutiesL_append, List.mem_append] at hx
      rcases hx with (hx | hx) | hx
      · exact hacc x hx
      · exact duties_write s _ (hc i (le_refl _) (by push_cast; omega)) x hx
      · split at hx <;> simp at hx
    · intro j h1 h2
      exact hc j (by omega) (by push_cast; omega)

theorem blinkLoop_succ (c : Int × Int × Int) (d : Int) (k : Nat) (s : FRgb) (acc : List Ev) :
    FRgb.blinkLoop c d (k + 1) s acc =
      FRgb.blinkLoop c d k (writeSt s (0, 0, 0))
        (acc ++ (FRgb.write s c).2 ++ (if 0 < d then [.delay d] else []) ++ (FRgb.write s (0, 0, 0)).2 ++
          (if 0 < d then [.delay d] else [])) := rfl

theorem blinkLoop_pins (c : Int × Int × Int) (d : Int) (k : Nat) (s : FRgb) (acc : List Ev) :
    (FRgb.blinkLoop c d k s acc).1.pins = s.pins := by
  induction k generalizing s acc with
  | zero => rfl
  | succ k ih => rw [blinkLoop_succ, ih]; rfl

theorem blinkLoop_duties (c : Int × Int × Int) (d : Int) (hc : ColorOk c) (k : Nat) (s : FRgb) (acc : List Ev)
    (hacc : ∀ x ∈ dutiesL acc, InRange x) :
    ∀ x ∈ dutiesL (FRgb.blinkLoop c d k s acc).2, InRange x := by
  induction k generalizing s acc with
  | zero => exact hacc
  | succ k ih =>
    rw [blinkLoop_succ]
    apply ih
    intro x hx
    simp only [dutiesL_append, List.mem_append] at hx
    rcases hx with (((hx | hx) | hx) | hx) | hx
    · exact hacc x hx
    · exact duties_write s c hc x hx
    · split at hx <;> simp at hx
    · exact duties_write s (0, 0, 0) ⟨by simp [InRange], by simp [InRange], by simp [InRange]⟩ x hx
    · split at hx <;> simp at hx

theorem component_ok_eq {v : Val K} {n : Int} (h : Host.RGB.component v = .ok n) : clamp255 (toCInt v) = n := by
  cases v with
  | flt x => simp [Host.RGB.component] at h
  | int m =>
    simp only [Host.RGB.component] at h
    split_ifs at h with hm
    cases h
    exact clamp255_id hm.1 hm.2

theorem triple_ok_eq {r g b : Val K} {c : Host.Color} (h : Host.RGB.triple r g b = .ok c) :
    FRgb.clampC r g b = c := by
  unfold Host.RGB.triple at h
  cases hr : Host.RGB.component r with
  | error e => simp [hr, bind, Except.bind] at h
  | ok r' =>
    cases hg : Host.RGB.component g with
    | error e => simp [hr, hg, bind, Except.bind] at h
    | ok g' =>
      cases hb : Host.RGB.component b with
      | error e => simp [hr, hg, hb, bind, Except.bind] at h
      | ok b' =>
        simp [hr, hg, hb, bind, Except.bind, pure, Except.pure] at h
        subst h
        simp [FRgb.clampC, component_ok_eq hr, component_ok_eq hg, component_ok_eq hb]

/-- the state the firmware fade block ends in, whatever the arguments -/
theorem fw_fade_st (s : FRgb) (r g b d n : Val K) :
    (FRgb.step s (.fade r g b d n)).st = writeSt s (FRgb.clampC r g b) := by
  simp only [FRgb.step]
  generalize (if toCInt d < 0 then (0 : Int) else toCInt d) = dur
  generalize hN : (if toCInt n ≤ 0 then (1 : Int) else toCInt n) = N
  have hNpos : 0 < N := by rw [← hN]; split <;> omega
  by_cases hc : dur = 0 ∨ s.color = FRgb.clampC r g b
  · rw [if_pos hc]; rfl
  · rw [if_neg hc]
    show (FRgb.fadeLoop _ _ _ _ _ _ _ _).1 = _
    rw [fadeLoop_st, if_neg (by omega)]
    have : (1 : Int) + (N.toNat : Int) - 1 = N := by omega
    rw [this, fadeC_end _ _ _ hNpos]

end Reduino.Lemmas.C04
