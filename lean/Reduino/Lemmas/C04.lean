import Reduino.Lemmas.Field
import Reduino.Fw.Actuators
import Reduino.Host.Led
import Reduino.Host.RGBLed
import Reduino.Host.Servo
import Reduino.Host.DCMotor
/- helper lemmas for Props/C04.lean -/
namespace Reduino.Lemmas.C04
end Reduino.Lemmas.C04
